(* SrcExprs.v -- GENERATED on every run by harness/srcexprs.py from clang's typed AST of the CURRENT
   /repo/sbepp/src/sbepp/sbepp.hpp.  Do not edit: SrcExprsProofs.v proves what these terms compute. *)
From Coq Require Import ZArith String List.
From Sbepp Require Import CInt CExpr.
Import ListNotations.
Local Open Scope Z_scope.
Local Open Scope string_scope.

Definition src_byteswap_U16 : list effect :=
  [ (Return (EBswap 2 (EVar "v"))) ].

Definition src_byteswap_U32 : list effect :=
  [ (Return (EBswap 4 (EVar "v"))) ].

Definition src_byteswap_U64 : list effect :=
  [ (Return (EBswap 8 (EVar "v"))) ].

Definition src_get_bit_U16 : list effect :=
  [ (Return (EToBool (EBin OAnd I32 (ECast I32 (EVar "bits")) (EShl I32 (ECast I32 (ECast U16 (ELit (1)))) (ECast I32 (EVar "n")))))) ].

Definition src_get_bit_U32 : list effect :=
  [ (Return (EToBool (EBin OAnd U32 (EVar "bits") (EShl U32 (ECast U32 (ELit (1))) (ECast I32 (EVar "n")))))) ].

Definition src_get_bit_U64 : list effect :=
  [ (Return (EToBool (EBin OAnd U64 (EVar "bits") (EShl U64 (ECast U64 (ELit (1))) (ECast I32 (EVar "n")))))) ].

Definition src_get_bit_U8 : list effect :=
  [ (Return (EToBool (EBin OAnd I32 (ECast I32 (EVar "bits")) (EShl I32 (ECast I32 (ECast U8 (ELit (1)))) (ECast I32 (EVar "n")))))) ].

Definition src_is_within_size : list effect :=
  [ (Return (ECond (ECmp CLe (EVar "size") (EVar "available")) (ECmp CLe (EVar "offset") (EBin OSub U64 (EVar "available") (EVar "size"))) (ELit (0)))) ].

Definition src_it_add_assign_U16_U16 : list effect :=
  [ (PtrAdd "ptr" (EBin OMul I64 (ECast I64 (EVar "n")) (ECast I64 (EVar "block_length"))));
    (Store "index" (ECast U16 (EBin OAdd I32 (ECast I32 (EVar "index")) (ECast I32 (EVar "n"))))) ].

Definition src_it_add_assign_U16_U32 : list effect :=
  [ (PtrAdd "ptr" (EBin OMul I64 (ECast I64 (EVar "n")) (ECast I64 (EVar "block_length"))));
    (Store "index" (ECast U16 (EBin OAdd I32 (ECast I32 (EVar "index")) (ECast I32 (EVar "n"))))) ].

Definition src_it_add_assign_U16_U64 : list effect :=
  [ (PtrAdd "ptr" (EBin OMul I64 (ECast I64 (EVar "n")) (ECast I64 (EVar "block_length"))));
    (Store "index" (ECast U16 (EBin OAdd I32 (ECast I32 (EVar "index")) (ECast I32 (EVar "n"))))) ].

Definition src_it_add_assign_U16_U8 : list effect :=
  [ (PtrAdd "ptr" (EBin OMul I64 (ECast I64 (EVar "n")) (ECast I64 (EVar "block_length"))));
    (Store "index" (ECast U16 (EBin OAdd I32 (ECast I32 (EVar "index")) (ECast I32 (EVar "n"))))) ].

Definition src_it_add_assign_U32_U16 : list effect :=
  [ (PtrAdd "ptr" (EBin OMul I64 (ECast I64 (EVar "n")) (ECast I64 (EVar "block_length"))));
    (Store "index" (ECast U32 (EBin OAdd U32 (ECast U32 (EVar "index")) (ECast U32 (EVar "n"))))) ].

Definition src_it_add_assign_U32_U32 : list effect :=
  [ (PtrAdd "ptr" (EBin OMul I64 (ECast I64 (EVar "n")) (ECast I64 (EVar "block_length"))));
    (Store "index" (ECast U32 (EBin OAdd U32 (ECast U32 (EVar "index")) (ECast U32 (EVar "n"))))) ].

Definition src_it_add_assign_U32_U64 : list effect :=
  [ (PtrAdd "ptr" (EBin OMul I64 (ECast I64 (EVar "n")) (ECast I64 (EVar "block_length"))));
    (Store "index" (ECast U32 (EBin OAdd U32 (ECast U32 (EVar "index")) (ECast U32 (EVar "n"))))) ].

Definition src_it_add_assign_U32_U8 : list effect :=
  [ (PtrAdd "ptr" (EBin OMul I64 (ECast I64 (EVar "n")) (ECast I64 (EVar "block_length"))));
    (Store "index" (ECast U32 (EBin OAdd U32 (ECast U32 (EVar "index")) (ECast U32 (EVar "n"))))) ].

Definition src_it_add_assign_U64_U16 : list effect :=
  [ (PtrAdd "ptr" (EBin OMul I64 (EVar "n") (ECast I64 (EVar "block_length"))));
    (Store "index" (ECast U64 (EBin OAdd U64 (ECast U64 (EVar "index")) (ECast U64 (EVar "n"))))) ].

Definition src_it_add_assign_U64_U32 : list effect :=
  [ (PtrAdd "ptr" (EBin OMul I64 (EVar "n") (ECast I64 (EVar "block_length"))));
    (Store "index" (ECast U64 (EBin OAdd U64 (ECast U64 (EVar "index")) (ECast U64 (EVar "n"))))) ].

Definition src_it_add_assign_U64_U64 : list effect :=
  [ (PtrAdd "ptr" (EBin OMul I64 (EVar "n") (ECast I64 (EVar "block_length"))));
    (Store "index" (ECast U64 (EBin OAdd U64 (ECast U64 (EVar "index")) (ECast U64 (EVar "n"))))) ].

Definition src_it_add_assign_U64_U8 : list effect :=
  [ (PtrAdd "ptr" (EBin OMul I64 (EVar "n") (ECast I64 (EVar "block_length"))));
    (Store "index" (ECast U64 (EBin OAdd U64 (ECast U64 (EVar "index")) (ECast U64 (EVar "n"))))) ].

Definition src_it_add_assign_U8_U16 : list effect :=
  [ (PtrAdd "ptr" (EBin OMul I64 (ECast I64 (EVar "n")) (ECast I64 (EVar "block_length"))));
    (Store "index" (ECast U8 (EBin OAdd I32 (ECast I32 (EVar "index")) (ECast I32 (EVar "n"))))) ].

Definition src_it_add_assign_U8_U32 : list effect :=
  [ (PtrAdd "ptr" (EBin OMul I64 (ECast I64 (EVar "n")) (ECast I64 (EVar "block_length"))));
    (Store "index" (ECast U8 (EBin OAdd I32 (ECast I32 (EVar "index")) (ECast I32 (EVar "n"))))) ].

Definition src_it_add_assign_U8_U64 : list effect :=
  [ (PtrAdd "ptr" (EBin OMul I64 (ECast I64 (EVar "n")) (ECast I64 (EVar "block_length"))));
    (Store "index" (ECast U8 (EBin OAdd I32 (ECast I32 (EVar "index")) (ECast I32 (EVar "n"))))) ].

Definition src_it_add_assign_U8_U8 : list effect :=
  [ (PtrAdd "ptr" (EBin OMul I64 (ECast I64 (EVar "n")) (ECast I64 (EVar "block_length"))));
    (Store "index" (ECast U8 (EBin OAdd I32 (ECast I32 (EVar "index")) (ECast I32 (EVar "n"))))) ].

Definition src_it_dec_U16_U16 : list effect :=
  [ (PtrSub "ptr" (ECast I32 (EVar "block_length")));
    (Store "index" (ECast U16 (EBin OSub I32 (ECast I32 (EVar "index")) (ELit (1))))) ].

Definition src_it_dec_U16_U32 : list effect :=
  [ (PtrSub "ptr" (EVar "block_length"));
    (Store "index" (ECast U16 (EBin OSub I32 (ECast I32 (EVar "index")) (ELit (1))))) ].

Definition src_it_dec_U16_U64 : list effect :=
  [ (PtrSub "ptr" (EVar "block_length"));
    (Store "index" (ECast U16 (EBin OSub I32 (ECast I32 (EVar "index")) (ELit (1))))) ].

Definition src_it_dec_U16_U8 : list effect :=
  [ (PtrSub "ptr" (ECast I32 (EVar "block_length")));
    (Store "index" (ECast U16 (EBin OSub I32 (ECast I32 (EVar "index")) (ELit (1))))) ].

Definition src_it_dec_U32_U16 : list effect :=
  [ (PtrSub "ptr" (ECast I32 (EVar "block_length")));
    (Store "index" (ECast U32 (EBin OSub U32 (ECast U32 (EVar "index")) (ELit (1))))) ].

Definition src_it_dec_U32_U32 : list effect :=
  [ (PtrSub "ptr" (EVar "block_length"));
    (Store "index" (ECast U32 (EBin OSub U32 (ECast U32 (EVar "index")) (ELit (1))))) ].

Definition src_it_dec_U32_U64 : list effect :=
  [ (PtrSub "ptr" (EVar "block_length"));
    (Store "index" (ECast U32 (EBin OSub U32 (ECast U32 (EVar "index")) (ELit (1))))) ].

Definition src_it_dec_U32_U8 : list effect :=
  [ (PtrSub "ptr" (ECast I32 (EVar "block_length")));
    (Store "index" (ECast U32 (EBin OSub U32 (ECast U32 (EVar "index")) (ELit (1))))) ].

Definition src_it_dec_U64_U16 : list effect :=
  [ (PtrSub "ptr" (ECast I32 (EVar "block_length")));
    (Store "index" (ECast U64 (EBin OSub U64 (ECast U64 (EVar "index")) (ELit (1))))) ].

Definition src_it_dec_U64_U32 : list effect :=
  [ (PtrSub "ptr" (EVar "block_length"));
    (Store "index" (ECast U64 (EBin OSub U64 (ECast U64 (EVar "index")) (ELit (1))))) ].

Definition src_it_dec_U64_U64 : list effect :=
  [ (PtrSub "ptr" (EVar "block_length"));
    (Store "index" (ECast U64 (EBin OSub U64 (ECast U64 (EVar "index")) (ELit (1))))) ].

Definition src_it_dec_U64_U8 : list effect :=
  [ (PtrSub "ptr" (ECast I32 (EVar "block_length")));
    (Store "index" (ECast U64 (EBin OSub U64 (ECast U64 (EVar "index")) (ELit (1))))) ].

Definition src_it_dec_U8_U16 : list effect :=
  [ (PtrSub "ptr" (ECast I32 (EVar "block_length")));
    (Store "index" (ECast U8 (EBin OSub I32 (ECast I32 (EVar "index")) (ELit (1))))) ].

Definition src_it_dec_U8_U32 : list effect :=
  [ (PtrSub "ptr" (EVar "block_length"));
    (Store "index" (ECast U8 (EBin OSub I32 (ECast I32 (EVar "index")) (ELit (1))))) ].

Definition src_it_dec_U8_U64 : list effect :=
  [ (PtrSub "ptr" (EVar "block_length"));
    (Store "index" (ECast U8 (EBin OSub I32 (ECast I32 (EVar "index")) (ELit (1))))) ].

Definition src_it_dec_U8_U8 : list effect :=
  [ (PtrSub "ptr" (ECast I32 (EVar "block_length")));
    (Store "index" (ECast U8 (EBin OSub I32 (ECast I32 (EVar "index")) (ELit (1))))) ].

Definition src_it_diff_U16_U16 : list effect :=
  [ (Return (ECast I16 (EBin OSub I32 (ECast I32 (EVar "index")) (ECast I32 (EVar "rhs.index"))))) ].

Definition src_it_diff_U16_U32 : list effect :=
  [ (Return (ECast I16 (EBin OSub I32 (ECast I32 (EVar "index")) (ECast I32 (EVar "rhs.index"))))) ].

Definition src_it_diff_U16_U64 : list effect :=
  [ (Return (ECast I16 (EBin OSub I32 (ECast I32 (EVar "index")) (ECast I32 (EVar "rhs.index"))))) ].

Definition src_it_diff_U16_U8 : list effect :=
  [ (Return (ECast I16 (EBin OSub I32 (ECast I32 (EVar "index")) (ECast I32 (EVar "rhs.index"))))) ].

Definition src_it_diff_U32_U16 : list effect :=
  [ (Return (ECast I32 (EBin OSub U32 (EVar "index") (EVar "rhs.index")))) ].

Definition src_it_diff_U32_U32 : list effect :=
  [ (Return (ECast I32 (EBin OSub U32 (EVar "index") (EVar "rhs.index")))) ].

Definition src_it_diff_U32_U64 : list effect :=
  [ (Return (ECast I32 (EBin OSub U32 (EVar "index") (EVar "rhs.index")))) ].

Definition src_it_diff_U32_U8 : list effect :=
  [ (Return (ECast I32 (EBin OSub U32 (EVar "index") (EVar "rhs.index")))) ].

Definition src_it_diff_U64_U16 : list effect :=
  [ (Return (ECast I64 (EBin OSub U64 (EVar "index") (EVar "rhs.index")))) ].

Definition src_it_diff_U64_U32 : list effect :=
  [ (Return (ECast I64 (EBin OSub U64 (EVar "index") (EVar "rhs.index")))) ].

Definition src_it_diff_U64_U64 : list effect :=
  [ (Return (ECast I64 (EBin OSub U64 (EVar "index") (EVar "rhs.index")))) ].

Definition src_it_diff_U64_U8 : list effect :=
  [ (Return (ECast I64 (EBin OSub U64 (EVar "index") (EVar "rhs.index")))) ].

Definition src_it_diff_U8_U16 : list effect :=
  [ (Return (ECast I8 (EBin OSub I32 (ECast I32 (EVar "index")) (ECast I32 (EVar "rhs.index"))))) ].

Definition src_it_diff_U8_U32 : list effect :=
  [ (Return (ECast I8 (EBin OSub I32 (ECast I32 (EVar "index")) (ECast I32 (EVar "rhs.index"))))) ].

Definition src_it_diff_U8_U64 : list effect :=
  [ (Return (ECast I8 (EBin OSub I32 (ECast I32 (EVar "index")) (ECast I32 (EVar "rhs.index"))))) ].

Definition src_it_diff_U8_U8 : list effect :=
  [ (Return (ECast I8 (EBin OSub I32 (ECast I32 (EVar "index")) (ECast I32 (EVar "rhs.index"))))) ].

Definition src_it_eq_U16_U16 : list effect :=
  [ (Return (ECmp CEq (ECast I32 (EVar "lhs.index")) (ECast I32 (EVar "rhs.index")))) ].

Definition src_it_eq_U16_U32 : list effect :=
  [ (Return (ECmp CEq (ECast I32 (EVar "lhs.index")) (ECast I32 (EVar "rhs.index")))) ].

Definition src_it_eq_U16_U64 : list effect :=
  [ (Return (ECmp CEq (ECast I32 (EVar "lhs.index")) (ECast I32 (EVar "rhs.index")))) ].

Definition src_it_eq_U16_U8 : list effect :=
  [ (Return (ECmp CEq (ECast I32 (EVar "lhs.index")) (ECast I32 (EVar "rhs.index")))) ].

Definition src_it_eq_U32_U16 : list effect :=
  [ (Return (ECmp CEq (EVar "lhs.index") (EVar "rhs.index"))) ].

Definition src_it_eq_U32_U32 : list effect :=
  [ (Return (ECmp CEq (EVar "lhs.index") (EVar "rhs.index"))) ].

Definition src_it_eq_U32_U64 : list effect :=
  [ (Return (ECmp CEq (EVar "lhs.index") (EVar "rhs.index"))) ].

Definition src_it_eq_U32_U8 : list effect :=
  [ (Return (ECmp CEq (EVar "lhs.index") (EVar "rhs.index"))) ].

Definition src_it_eq_U64_U16 : list effect :=
  [ (Return (ECmp CEq (EVar "lhs.index") (EVar "rhs.index"))) ].

Definition src_it_eq_U64_U32 : list effect :=
  [ (Return (ECmp CEq (EVar "lhs.index") (EVar "rhs.index"))) ].

Definition src_it_eq_U64_U64 : list effect :=
  [ (Return (ECmp CEq (EVar "lhs.index") (EVar "rhs.index"))) ].

Definition src_it_eq_U64_U8 : list effect :=
  [ (Return (ECmp CEq (EVar "lhs.index") (EVar "rhs.index"))) ].

Definition src_it_eq_U8_U16 : list effect :=
  [ (Return (ECmp CEq (ECast I32 (EVar "lhs.index")) (ECast I32 (EVar "rhs.index")))) ].

Definition src_it_eq_U8_U32 : list effect :=
  [ (Return (ECmp CEq (ECast I32 (EVar "lhs.index")) (ECast I32 (EVar "rhs.index")))) ].

Definition src_it_eq_U8_U64 : list effect :=
  [ (Return (ECmp CEq (ECast I32 (EVar "lhs.index")) (ECast I32 (EVar "rhs.index")))) ].

Definition src_it_eq_U8_U8 : list effect :=
  [ (Return (ECmp CEq (ECast I32 (EVar "lhs.index")) (ECast I32 (EVar "rhs.index")))) ].

Definition src_it_ge_U16_U16 : list effect :=
  [ (Return (ECmp CGe (ECast I32 (EVar "lhs.index")) (ECast I32 (EVar "rhs.index")))) ].

Definition src_it_ge_U16_U32 : list effect :=
  [ (Return (ECmp CGe (ECast I32 (EVar "lhs.index")) (ECast I32 (EVar "rhs.index")))) ].

Definition src_it_ge_U16_U64 : list effect :=
  [ (Return (ECmp CGe (ECast I32 (EVar "lhs.index")) (ECast I32 (EVar "rhs.index")))) ].

Definition src_it_ge_U16_U8 : list effect :=
  [ (Return (ECmp CGe (ECast I32 (EVar "lhs.index")) (ECast I32 (EVar "rhs.index")))) ].

Definition src_it_ge_U32_U16 : list effect :=
  [ (Return (ECmp CGe (EVar "lhs.index") (EVar "rhs.index"))) ].

Definition src_it_ge_U32_U32 : list effect :=
  [ (Return (ECmp CGe (EVar "lhs.index") (EVar "rhs.index"))) ].

Definition src_it_ge_U32_U64 : list effect :=
  [ (Return (ECmp CGe (EVar "lhs.index") (EVar "rhs.index"))) ].

Definition src_it_ge_U32_U8 : list effect :=
  [ (Return (ECmp CGe (EVar "lhs.index") (EVar "rhs.index"))) ].

Definition src_it_ge_U64_U16 : list effect :=
  [ (Return (ECmp CGe (EVar "lhs.index") (EVar "rhs.index"))) ].

Definition src_it_ge_U64_U32 : list effect :=
  [ (Return (ECmp CGe (EVar "lhs.index") (EVar "rhs.index"))) ].

Definition src_it_ge_U64_U64 : list effect :=
  [ (Return (ECmp CGe (EVar "lhs.index") (EVar "rhs.index"))) ].

Definition src_it_ge_U64_U8 : list effect :=
  [ (Return (ECmp CGe (EVar "lhs.index") (EVar "rhs.index"))) ].

Definition src_it_ge_U8_U16 : list effect :=
  [ (Return (ECmp CGe (ECast I32 (EVar "lhs.index")) (ECast I32 (EVar "rhs.index")))) ].

Definition src_it_ge_U8_U32 : list effect :=
  [ (Return (ECmp CGe (ECast I32 (EVar "lhs.index")) (ECast I32 (EVar "rhs.index")))) ].

Definition src_it_ge_U8_U64 : list effect :=
  [ (Return (ECmp CGe (ECast I32 (EVar "lhs.index")) (ECast I32 (EVar "rhs.index")))) ].

Definition src_it_ge_U8_U8 : list effect :=
  [ (Return (ECmp CGe (ECast I32 (EVar "lhs.index")) (ECast I32 (EVar "rhs.index")))) ].

Definition src_it_gt_U16_U16 : list effect :=
  [ (Return (ECmp CGt (ECast I32 (EVar "lhs.index")) (ECast I32 (EVar "rhs.index")))) ].

Definition src_it_gt_U16_U32 : list effect :=
  [ (Return (ECmp CGt (ECast I32 (EVar "lhs.index")) (ECast I32 (EVar "rhs.index")))) ].

Definition src_it_gt_U16_U64 : list effect :=
  [ (Return (ECmp CGt (ECast I32 (EVar "lhs.index")) (ECast I32 (EVar "rhs.index")))) ].

Definition src_it_gt_U16_U8 : list effect :=
  [ (Return (ECmp CGt (ECast I32 (EVar "lhs.index")) (ECast I32 (EVar "rhs.index")))) ].

Definition src_it_gt_U32_U16 : list effect :=
  [ (Return (ECmp CGt (EVar "lhs.index") (EVar "rhs.index"))) ].

Definition src_it_gt_U32_U32 : list effect :=
  [ (Return (ECmp CGt (EVar "lhs.index") (EVar "rhs.index"))) ].

Definition src_it_gt_U32_U64 : list effect :=
  [ (Return (ECmp CGt (EVar "lhs.index") (EVar "rhs.index"))) ].

Definition src_it_gt_U32_U8 : list effect :=
  [ (Return (ECmp CGt (EVar "lhs.index") (EVar "rhs.index"))) ].

Definition src_it_gt_U64_U16 : list effect :=
  [ (Return (ECmp CGt (EVar "lhs.index") (EVar "rhs.index"))) ].

Definition src_it_gt_U64_U32 : list effect :=
  [ (Return (ECmp CGt (EVar "lhs.index") (EVar "rhs.index"))) ].

Definition src_it_gt_U64_U64 : list effect :=
  [ (Return (ECmp CGt (EVar "lhs.index") (EVar "rhs.index"))) ].

Definition src_it_gt_U64_U8 : list effect :=
  [ (Return (ECmp CGt (EVar "lhs.index") (EVar "rhs.index"))) ].

Definition src_it_gt_U8_U16 : list effect :=
  [ (Return (ECmp CGt (ECast I32 (EVar "lhs.index")) (ECast I32 (EVar "rhs.index")))) ].

Definition src_it_gt_U8_U32 : list effect :=
  [ (Return (ECmp CGt (ECast I32 (EVar "lhs.index")) (ECast I32 (EVar "rhs.index")))) ].

Definition src_it_gt_U8_U64 : list effect :=
  [ (Return (ECmp CGt (ECast I32 (EVar "lhs.index")) (ECast I32 (EVar "rhs.index")))) ].

Definition src_it_gt_U8_U8 : list effect :=
  [ (Return (ECmp CGt (ECast I32 (EVar "lhs.index")) (ECast I32 (EVar "rhs.index")))) ].

Definition src_it_inc_U16_U16 : list effect :=
  [ (Assert (ECond (ECond (EToBool (EVar "ptr")) (ECmp CLe (EVar "ptr") (EVar "end")) (ELit (0))) (ECond (ECmp CLe (ECast U64 (EVar "block_length")) (ECast U64 (EBin OSub I64 (EVar "end") (EVar "ptr")))) (ECmp CLe (ECast U64 (ELit (0))) (EBin OSub U64 (ECast U64 (EBin OSub I64 (EVar "end") (EVar "ptr"))) (ECast U64 (EVar "block_length")))) (ELit (0))) (ELit (0))));
    (PtrAdd "ptr" (ECast I32 (EVar "block_length")));
    (Store "index" (ECast U16 (EBin OAdd I32 (ECast I32 (EVar "index")) (ELit (1))))) ].

Definition src_it_inc_U16_U32 : list effect :=
  [ (Assert (ECond (ECond (EToBool (EVar "ptr")) (ECmp CLe (EVar "ptr") (EVar "end")) (ELit (0))) (ECond (ECmp CLe (ECast U64 (EVar "block_length")) (ECast U64 (EBin OSub I64 (EVar "end") (EVar "ptr")))) (ECmp CLe (ECast U64 (ELit (0))) (EBin OSub U64 (ECast U64 (EBin OSub I64 (EVar "end") (EVar "ptr"))) (ECast U64 (EVar "block_length")))) (ELit (0))) (ELit (0))));
    (PtrAdd "ptr" (EVar "block_length"));
    (Store "index" (ECast U16 (EBin OAdd I32 (ECast I32 (EVar "index")) (ELit (1))))) ].

Definition src_it_inc_U16_U64 : list effect :=
  [ (Assert (ECond (ECond (EToBool (EVar "ptr")) (ECmp CLe (EVar "ptr") (EVar "end")) (ELit (0))) (ECond (ECmp CLe (EVar "block_length") (ECast U64 (EBin OSub I64 (EVar "end") (EVar "ptr")))) (ECmp CLe (ECast U64 (ELit (0))) (EBin OSub U64 (ECast U64 (EBin OSub I64 (EVar "end") (EVar "ptr"))) (EVar "block_length"))) (ELit (0))) (ELit (0))));
    (PtrAdd "ptr" (EVar "block_length"));
    (Store "index" (ECast U16 (EBin OAdd I32 (ECast I32 (EVar "index")) (ELit (1))))) ].

Definition src_it_inc_U16_U8 : list effect :=
  [ (Assert (ECond (ECond (EToBool (EVar "ptr")) (ECmp CLe (EVar "ptr") (EVar "end")) (ELit (0))) (ECond (ECmp CLe (ECast U64 (EVar "block_length")) (ECast U64 (EBin OSub I64 (EVar "end") (EVar "ptr")))) (ECmp CLe (ECast U64 (ELit (0))) (EBin OSub U64 (ECast U64 (EBin OSub I64 (EVar "end") (EVar "ptr"))) (ECast U64 (EVar "block_length")))) (ELit (0))) (ELit (0))));
    (PtrAdd "ptr" (ECast I32 (EVar "block_length")));
    (Store "index" (ECast U16 (EBin OAdd I32 (ECast I32 (EVar "index")) (ELit (1))))) ].

Definition src_it_inc_U32_U16 : list effect :=
  [ (Assert (ECond (ECond (EToBool (EVar "ptr")) (ECmp CLe (EVar "ptr") (EVar "end")) (ELit (0))) (ECond (ECmp CLe (ECast U64 (EVar "block_length")) (ECast U64 (EBin OSub I64 (EVar "end") (EVar "ptr")))) (ECmp CLe (ECast U64 (ELit (0))) (EBin OSub U64 (ECast U64 (EBin OSub I64 (EVar "end") (EVar "ptr"))) (ECast U64 (EVar "block_length")))) (ELit (0))) (ELit (0))));
    (PtrAdd "ptr" (ECast I32 (EVar "block_length")));
    (Store "index" (ECast U32 (EBin OAdd U32 (ECast U32 (EVar "index")) (ELit (1))))) ].

Definition src_it_inc_U32_U32 : list effect :=
  [ (Assert (ECond (ECond (EToBool (EVar "ptr")) (ECmp CLe (EVar "ptr") (EVar "end")) (ELit (0))) (ECond (ECmp CLe (ECast U64 (EVar "block_length")) (ECast U64 (EBin OSub I64 (EVar "end") (EVar "ptr")))) (ECmp CLe (ECast U64 (ELit (0))) (EBin OSub U64 (ECast U64 (EBin OSub I64 (EVar "end") (EVar "ptr"))) (ECast U64 (EVar "block_length")))) (ELit (0))) (ELit (0))));
    (PtrAdd "ptr" (EVar "block_length"));
    (Store "index" (ECast U32 (EBin OAdd U32 (ECast U32 (EVar "index")) (ELit (1))))) ].

Definition src_it_inc_U32_U64 : list effect :=
  [ (Assert (ECond (ECond (EToBool (EVar "ptr")) (ECmp CLe (EVar "ptr") (EVar "end")) (ELit (0))) (ECond (ECmp CLe (EVar "block_length") (ECast U64 (EBin OSub I64 (EVar "end") (EVar "ptr")))) (ECmp CLe (ECast U64 (ELit (0))) (EBin OSub U64 (ECast U64 (EBin OSub I64 (EVar "end") (EVar "ptr"))) (EVar "block_length"))) (ELit (0))) (ELit (0))));
    (PtrAdd "ptr" (EVar "block_length"));
    (Store "index" (ECast U32 (EBin OAdd U32 (ECast U32 (EVar "index")) (ELit (1))))) ].

Definition src_it_inc_U32_U8 : list effect :=
  [ (Assert (ECond (ECond (EToBool (EVar "ptr")) (ECmp CLe (EVar "ptr") (EVar "end")) (ELit (0))) (ECond (ECmp CLe (ECast U64 (EVar "block_length")) (ECast U64 (EBin OSub I64 (EVar "end") (EVar "ptr")))) (ECmp CLe (ECast U64 (ELit (0))) (EBin OSub U64 (ECast U64 (EBin OSub I64 (EVar "end") (EVar "ptr"))) (ECast U64 (EVar "block_length")))) (ELit (0))) (ELit (0))));
    (PtrAdd "ptr" (ECast I32 (EVar "block_length")));
    (Store "index" (ECast U32 (EBin OAdd U32 (ECast U32 (EVar "index")) (ELit (1))))) ].

Definition src_it_inc_U64_U16 : list effect :=
  [ (Assert (ECond (ECond (EToBool (EVar "ptr")) (ECmp CLe (EVar "ptr") (EVar "end")) (ELit (0))) (ECond (ECmp CLe (ECast U64 (EVar "block_length")) (ECast U64 (EBin OSub I64 (EVar "end") (EVar "ptr")))) (ECmp CLe (ECast U64 (ELit (0))) (EBin OSub U64 (ECast U64 (EBin OSub I64 (EVar "end") (EVar "ptr"))) (ECast U64 (EVar "block_length")))) (ELit (0))) (ELit (0))));
    (PtrAdd "ptr" (ECast I32 (EVar "block_length")));
    (Store "index" (ECast U64 (EBin OAdd U64 (ECast U64 (EVar "index")) (ELit (1))))) ].

Definition src_it_inc_U64_U32 : list effect :=
  [ (Assert (ECond (ECond (EToBool (EVar "ptr")) (ECmp CLe (EVar "ptr") (EVar "end")) (ELit (0))) (ECond (ECmp CLe (ECast U64 (EVar "block_length")) (ECast U64 (EBin OSub I64 (EVar "end") (EVar "ptr")))) (ECmp CLe (ECast U64 (ELit (0))) (EBin OSub U64 (ECast U64 (EBin OSub I64 (EVar "end") (EVar "ptr"))) (ECast U64 (EVar "block_length")))) (ELit (0))) (ELit (0))));
    (PtrAdd "ptr" (EVar "block_length"));
    (Store "index" (ECast U64 (EBin OAdd U64 (ECast U64 (EVar "index")) (ELit (1))))) ].

Definition src_it_inc_U64_U64 : list effect :=
  [ (Assert (ECond (ECond (EToBool (EVar "ptr")) (ECmp CLe (EVar "ptr") (EVar "end")) (ELit (0))) (ECond (ECmp CLe (EVar "block_length") (ECast U64 (EBin OSub I64 (EVar "end") (EVar "ptr")))) (ECmp CLe (ECast U64 (ELit (0))) (EBin OSub U64 (ECast U64 (EBin OSub I64 (EVar "end") (EVar "ptr"))) (EVar "block_length"))) (ELit (0))) (ELit (0))));
    (PtrAdd "ptr" (EVar "block_length"));
    (Store "index" (ECast U64 (EBin OAdd U64 (ECast U64 (EVar "index")) (ELit (1))))) ].

Definition src_it_inc_U64_U8 : list effect :=
  [ (Assert (ECond (ECond (EToBool (EVar "ptr")) (ECmp CLe (EVar "ptr") (EVar "end")) (ELit (0))) (ECond (ECmp CLe (ECast U64 (EVar "block_length")) (ECast U64 (EBin OSub I64 (EVar "end") (EVar "ptr")))) (ECmp CLe (ECast U64 (ELit (0))) (EBin OSub U64 (ECast U64 (EBin OSub I64 (EVar "end") (EVar "ptr"))) (ECast U64 (EVar "block_length")))) (ELit (0))) (ELit (0))));
    (PtrAdd "ptr" (ECast I32 (EVar "block_length")));
    (Store "index" (ECast U64 (EBin OAdd U64 (ECast U64 (EVar "index")) (ELit (1))))) ].

Definition src_it_inc_U8_U16 : list effect :=
  [ (Assert (ECond (ECond (EToBool (EVar "ptr")) (ECmp CLe (EVar "ptr") (EVar "end")) (ELit (0))) (ECond (ECmp CLe (ECast U64 (EVar "block_length")) (ECast U64 (EBin OSub I64 (EVar "end") (EVar "ptr")))) (ECmp CLe (ECast U64 (ELit (0))) (EBin OSub U64 (ECast U64 (EBin OSub I64 (EVar "end") (EVar "ptr"))) (ECast U64 (EVar "block_length")))) (ELit (0))) (ELit (0))));
    (PtrAdd "ptr" (ECast I32 (EVar "block_length")));
    (Store "index" (ECast U8 (EBin OAdd I32 (ECast I32 (EVar "index")) (ELit (1))))) ].

Definition src_it_inc_U8_U32 : list effect :=
  [ (Assert (ECond (ECond (EToBool (EVar "ptr")) (ECmp CLe (EVar "ptr") (EVar "end")) (ELit (0))) (ECond (ECmp CLe (ECast U64 (EVar "block_length")) (ECast U64 (EBin OSub I64 (EVar "end") (EVar "ptr")))) (ECmp CLe (ECast U64 (ELit (0))) (EBin OSub U64 (ECast U64 (EBin OSub I64 (EVar "end") (EVar "ptr"))) (ECast U64 (EVar "block_length")))) (ELit (0))) (ELit (0))));
    (PtrAdd "ptr" (EVar "block_length"));
    (Store "index" (ECast U8 (EBin OAdd I32 (ECast I32 (EVar "index")) (ELit (1))))) ].

Definition src_it_inc_U8_U64 : list effect :=
  [ (Assert (ECond (ECond (EToBool (EVar "ptr")) (ECmp CLe (EVar "ptr") (EVar "end")) (ELit (0))) (ECond (ECmp CLe (EVar "block_length") (ECast U64 (EBin OSub I64 (EVar "end") (EVar "ptr")))) (ECmp CLe (ECast U64 (ELit (0))) (EBin OSub U64 (ECast U64 (EBin OSub I64 (EVar "end") (EVar "ptr"))) (EVar "block_length"))) (ELit (0))) (ELit (0))));
    (PtrAdd "ptr" (EVar "block_length"));
    (Store "index" (ECast U8 (EBin OAdd I32 (ECast I32 (EVar "index")) (ELit (1))))) ].

Definition src_it_inc_U8_U8 : list effect :=
  [ (Assert (ECond (ECond (EToBool (EVar "ptr")) (ECmp CLe (EVar "ptr") (EVar "end")) (ELit (0))) (ECond (ECmp CLe (ECast U64 (EVar "block_length")) (ECast U64 (EBin OSub I64 (EVar "end") (EVar "ptr")))) (ECmp CLe (ECast U64 (ELit (0))) (EBin OSub U64 (ECast U64 (EBin OSub I64 (EVar "end") (EVar "ptr"))) (ECast U64 (EVar "block_length")))) (ELit (0))) (ELit (0))));
    (PtrAdd "ptr" (ECast I32 (EVar "block_length")));
    (Store "index" (ECast U8 (EBin OAdd I32 (ECast I32 (EVar "index")) (ELit (1))))) ].

Definition src_it_le_U16_U16 : list effect :=
  [ (Return (ECmp CLe (ECast I32 (EVar "lhs.index")) (ECast I32 (EVar "rhs.index")))) ].

Definition src_it_le_U16_U32 : list effect :=
  [ (Return (ECmp CLe (ECast I32 (EVar "lhs.index")) (ECast I32 (EVar "rhs.index")))) ].

Definition src_it_le_U16_U64 : list effect :=
  [ (Return (ECmp CLe (ECast I32 (EVar "lhs.index")) (ECast I32 (EVar "rhs.index")))) ].

Definition src_it_le_U16_U8 : list effect :=
  [ (Return (ECmp CLe (ECast I32 (EVar "lhs.index")) (ECast I32 (EVar "rhs.index")))) ].

Definition src_it_le_U32_U16 : list effect :=
  [ (Return (ECmp CLe (EVar "lhs.index") (EVar "rhs.index"))) ].

Definition src_it_le_U32_U32 : list effect :=
  [ (Return (ECmp CLe (EVar "lhs.index") (EVar "rhs.index"))) ].

Definition src_it_le_U32_U64 : list effect :=
  [ (Return (ECmp CLe (EVar "lhs.index") (EVar "rhs.index"))) ].

Definition src_it_le_U32_U8 : list effect :=
  [ (Return (ECmp CLe (EVar "lhs.index") (EVar "rhs.index"))) ].

Definition src_it_le_U64_U16 : list effect :=
  [ (Return (ECmp CLe (EVar "lhs.index") (EVar "rhs.index"))) ].

Definition src_it_le_U64_U32 : list effect :=
  [ (Return (ECmp CLe (EVar "lhs.index") (EVar "rhs.index"))) ].

Definition src_it_le_U64_U64 : list effect :=
  [ (Return (ECmp CLe (EVar "lhs.index") (EVar "rhs.index"))) ].

Definition src_it_le_U64_U8 : list effect :=
  [ (Return (ECmp CLe (EVar "lhs.index") (EVar "rhs.index"))) ].

Definition src_it_le_U8_U16 : list effect :=
  [ (Return (ECmp CLe (ECast I32 (EVar "lhs.index")) (ECast I32 (EVar "rhs.index")))) ].

Definition src_it_le_U8_U32 : list effect :=
  [ (Return (ECmp CLe (ECast I32 (EVar "lhs.index")) (ECast I32 (EVar "rhs.index")))) ].

Definition src_it_le_U8_U64 : list effect :=
  [ (Return (ECmp CLe (ECast I32 (EVar "lhs.index")) (ECast I32 (EVar "rhs.index")))) ].

Definition src_it_le_U8_U8 : list effect :=
  [ (Return (ECmp CLe (ECast I32 (EVar "lhs.index")) (ECast I32 (EVar "rhs.index")))) ].

Definition src_it_lt_U16_U16 : list effect :=
  [ (Return (ECmp CLt (ECast I32 (EVar "lhs.index")) (ECast I32 (EVar "rhs.index")))) ].

Definition src_it_lt_U16_U32 : list effect :=
  [ (Return (ECmp CLt (ECast I32 (EVar "lhs.index")) (ECast I32 (EVar "rhs.index")))) ].

Definition src_it_lt_U16_U64 : list effect :=
  [ (Return (ECmp CLt (ECast I32 (EVar "lhs.index")) (ECast I32 (EVar "rhs.index")))) ].

Definition src_it_lt_U16_U8 : list effect :=
  [ (Return (ECmp CLt (ECast I32 (EVar "lhs.index")) (ECast I32 (EVar "rhs.index")))) ].

Definition src_it_lt_U32_U16 : list effect :=
  [ (Return (ECmp CLt (EVar "lhs.index") (EVar "rhs.index"))) ].

Definition src_it_lt_U32_U32 : list effect :=
  [ (Return (ECmp CLt (EVar "lhs.index") (EVar "rhs.index"))) ].

Definition src_it_lt_U32_U64 : list effect :=
  [ (Return (ECmp CLt (EVar "lhs.index") (EVar "rhs.index"))) ].

Definition src_it_lt_U32_U8 : list effect :=
  [ (Return (ECmp CLt (EVar "lhs.index") (EVar "rhs.index"))) ].

Definition src_it_lt_U64_U16 : list effect :=
  [ (Return (ECmp CLt (EVar "lhs.index") (EVar "rhs.index"))) ].

Definition src_it_lt_U64_U32 : list effect :=
  [ (Return (ECmp CLt (EVar "lhs.index") (EVar "rhs.index"))) ].

Definition src_it_lt_U64_U64 : list effect :=
  [ (Return (ECmp CLt (EVar "lhs.index") (EVar "rhs.index"))) ].

Definition src_it_lt_U64_U8 : list effect :=
  [ (Return (ECmp CLt (EVar "lhs.index") (EVar "rhs.index"))) ].

Definition src_it_lt_U8_U16 : list effect :=
  [ (Return (ECmp CLt (ECast I32 (EVar "lhs.index")) (ECast I32 (EVar "rhs.index")))) ].

Definition src_it_lt_U8_U32 : list effect :=
  [ (Return (ECmp CLt (ECast I32 (EVar "lhs.index")) (ECast I32 (EVar "rhs.index")))) ].

Definition src_it_lt_U8_U64 : list effect :=
  [ (Return (ECmp CLt (ECast I32 (EVar "lhs.index")) (ECast I32 (EVar "rhs.index")))) ].

Definition src_it_lt_U8_U8 : list effect :=
  [ (Return (ECmp CLt (ECast I32 (EVar "lhs.index")) (ECast I32 (EVar "rhs.index")))) ].

Definition src_it_ne_U16_U16 : list effect :=
  [ (Return (ECmp CNe (ECast I32 (EVar "lhs.index")) (ECast I32 (EVar "rhs.index")))) ].

Definition src_it_ne_U16_U32 : list effect :=
  [ (Return (ECmp CNe (ECast I32 (EVar "lhs.index")) (ECast I32 (EVar "rhs.index")))) ].

Definition src_it_ne_U16_U64 : list effect :=
  [ (Return (ECmp CNe (ECast I32 (EVar "lhs.index")) (ECast I32 (EVar "rhs.index")))) ].

Definition src_it_ne_U16_U8 : list effect :=
  [ (Return (ECmp CNe (ECast I32 (EVar "lhs.index")) (ECast I32 (EVar "rhs.index")))) ].

Definition src_it_ne_U32_U16 : list effect :=
  [ (Return (ECmp CNe (EVar "lhs.index") (EVar "rhs.index"))) ].

Definition src_it_ne_U32_U32 : list effect :=
  [ (Return (ECmp CNe (EVar "lhs.index") (EVar "rhs.index"))) ].

Definition src_it_ne_U32_U64 : list effect :=
  [ (Return (ECmp CNe (EVar "lhs.index") (EVar "rhs.index"))) ].

Definition src_it_ne_U32_U8 : list effect :=
  [ (Return (ECmp CNe (EVar "lhs.index") (EVar "rhs.index"))) ].

Definition src_it_ne_U64_U16 : list effect :=
  [ (Return (ECmp CNe (EVar "lhs.index") (EVar "rhs.index"))) ].

Definition src_it_ne_U64_U32 : list effect :=
  [ (Return (ECmp CNe (EVar "lhs.index") (EVar "rhs.index"))) ].

Definition src_it_ne_U64_U64 : list effect :=
  [ (Return (ECmp CNe (EVar "lhs.index") (EVar "rhs.index"))) ].

Definition src_it_ne_U64_U8 : list effect :=
  [ (Return (ECmp CNe (EVar "lhs.index") (EVar "rhs.index"))) ].

Definition src_it_ne_U8_U16 : list effect :=
  [ (Return (ECmp CNe (ECast I32 (EVar "lhs.index")) (ECast I32 (EVar "rhs.index")))) ].

Definition src_it_ne_U8_U32 : list effect :=
  [ (Return (ECmp CNe (ECast I32 (EVar "lhs.index")) (ECast I32 (EVar "rhs.index")))) ].

Definition src_it_ne_U8_U64 : list effect :=
  [ (Return (ECmp CNe (ECast I32 (EVar "lhs.index")) (ECast I32 (EVar "rhs.index")))) ].

Definition src_it_ne_U8_U8 : list effect :=
  [ (Return (ECmp CNe (ECast I32 (EVar "lhs.index")) (ECast I32 (EVar "rhs.index")))) ].

Definition src_opt_eq_I16 : list effect :=
  [ (Return (ECond (ECond (ECond (ECond (ECmp CEq (ECast I32 (EVar "lhs.val")) (ECast I32 (EVar "null_value()"))) (ELit (1)) (ECond (ECmp CNe (ECast I32 (EVar "lhs.val")) (ECast I32 (EVar "lhs.val"))) (ECmp CNe (ECast I32 (EVar "null_value()")) (ECast I32 (EVar "null_value()"))) (ELit (0)))) (ELit (0)) (ELit (1))) (ECond (ECond (ECmp CEq (ECast I32 (EVar "rhs.val")) (ECast I32 (EVar "null_value()"))) (ELit (1)) (ECond (ECmp CNe (ECast I32 (EVar "rhs.val")) (ECast I32 (EVar "rhs.val"))) (ECmp CNe (ECast I32 (EVar "null_value()")) (ECast I32 (EVar "null_value()"))) (ELit (0)))) (ELit (0)) (ELit (1))) (ELit (0))) (ECmp CEq (ECast I32 (EVar "lhs.val")) (ECast I32 (EVar "rhs.val"))) (ECmp CEq (ECast I32 (ECond (ECond (ECmp CEq (ECast I32 (EVar "lhs.val")) (ECast I32 (EVar "null_value()"))) (ELit (1)) (ECond (ECmp CNe (ECast I32 (EVar "lhs.val")) (ECast I32 (EVar "lhs.val"))) (ECmp CNe (ECast I32 (EVar "null_value()")) (ECast I32 (EVar "null_value()"))) (ELit (0)))) (ELit (0)) (ELit (1)))) (ECast I32 (ECond (ECond (ECmp CEq (ECast I32 (EVar "rhs.val")) (ECast I32 (EVar "null_value()"))) (ELit (1)) (ECond (ECmp CNe (ECast I32 (EVar "rhs.val")) (ECast I32 (EVar "rhs.val"))) (ECmp CNe (ECast I32 (EVar "null_value()")) (ECast I32 (EVar "null_value()"))) (ELit (0)))) (ELit (0)) (ELit (1))))))) ].

Definition src_opt_eq_I32 : list effect :=
  [ (Return (ECond (ECond (ECond (ECond (ECmp CEq (EVar "lhs.val") (EVar "null_value()")) (ELit (1)) (ECond (ECmp CNe (EVar "lhs.val") (EVar "lhs.val")) (ECmp CNe (EVar "null_value()") (EVar "null_value()")) (ELit (0)))) (ELit (0)) (ELit (1))) (ECond (ECond (ECmp CEq (EVar "rhs.val") (EVar "null_value()")) (ELit (1)) (ECond (ECmp CNe (EVar "rhs.val") (EVar "rhs.val")) (ECmp CNe (EVar "null_value()") (EVar "null_value()")) (ELit (0)))) (ELit (0)) (ELit (1))) (ELit (0))) (ECmp CEq (EVar "lhs.val") (EVar "rhs.val")) (ECmp CEq (ECast I32 (ECond (ECond (ECmp CEq (EVar "lhs.val") (EVar "null_value()")) (ELit (1)) (ECond (ECmp CNe (EVar "lhs.val") (EVar "lhs.val")) (ECmp CNe (EVar "null_value()") (EVar "null_value()")) (ELit (0)))) (ELit (0)) (ELit (1)))) (ECast I32 (ECond (ECond (ECmp CEq (EVar "rhs.val") (EVar "null_value()")) (ELit (1)) (ECond (ECmp CNe (EVar "rhs.val") (EVar "rhs.val")) (ECmp CNe (EVar "null_value()") (EVar "null_value()")) (ELit (0)))) (ELit (0)) (ELit (1))))))) ].

Definition src_opt_eq_I64 : list effect :=
  [ (Return (ECond (ECond (ECond (ECond (ECmp CEq (EVar "lhs.val") (EVar "null_value()")) (ELit (1)) (ECond (ECmp CNe (EVar "lhs.val") (EVar "lhs.val")) (ECmp CNe (EVar "null_value()") (EVar "null_value()")) (ELit (0)))) (ELit (0)) (ELit (1))) (ECond (ECond (ECmp CEq (EVar "rhs.val") (EVar "null_value()")) (ELit (1)) (ECond (ECmp CNe (EVar "rhs.val") (EVar "rhs.val")) (ECmp CNe (EVar "null_value()") (EVar "null_value()")) (ELit (0)))) (ELit (0)) (ELit (1))) (ELit (0))) (ECmp CEq (EVar "lhs.val") (EVar "rhs.val")) (ECmp CEq (ECast I32 (ECond (ECond (ECmp CEq (EVar "lhs.val") (EVar "null_value()")) (ELit (1)) (ECond (ECmp CNe (EVar "lhs.val") (EVar "lhs.val")) (ECmp CNe (EVar "null_value()") (EVar "null_value()")) (ELit (0)))) (ELit (0)) (ELit (1)))) (ECast I32 (ECond (ECond (ECmp CEq (EVar "rhs.val") (EVar "null_value()")) (ELit (1)) (ECond (ECmp CNe (EVar "rhs.val") (EVar "rhs.val")) (ECmp CNe (EVar "null_value()") (EVar "null_value()")) (ELit (0)))) (ELit (0)) (ELit (1))))))) ].

Definition src_opt_eq_I8 : list effect :=
  [ (Return (ECond (ECond (ECond (ECond (ECmp CEq (ECast I32 (EVar "lhs.val")) (ECast I32 (EVar "null_value()"))) (ELit (1)) (ECond (ECmp CNe (ECast I32 (EVar "lhs.val")) (ECast I32 (EVar "lhs.val"))) (ECmp CNe (ECast I32 (EVar "null_value()")) (ECast I32 (EVar "null_value()"))) (ELit (0)))) (ELit (0)) (ELit (1))) (ECond (ECond (ECmp CEq (ECast I32 (EVar "rhs.val")) (ECast I32 (EVar "null_value()"))) (ELit (1)) (ECond (ECmp CNe (ECast I32 (EVar "rhs.val")) (ECast I32 (EVar "rhs.val"))) (ECmp CNe (ECast I32 (EVar "null_value()")) (ECast I32 (EVar "null_value()"))) (ELit (0)))) (ELit (0)) (ELit (1))) (ELit (0))) (ECmp CEq (ECast I32 (EVar "lhs.val")) (ECast I32 (EVar "rhs.val"))) (ECmp CEq (ECast I32 (ECond (ECond (ECmp CEq (ECast I32 (EVar "lhs.val")) (ECast I32 (EVar "null_value()"))) (ELit (1)) (ECond (ECmp CNe (ECast I32 (EVar "lhs.val")) (ECast I32 (EVar "lhs.val"))) (ECmp CNe (ECast I32 (EVar "null_value()")) (ECast I32 (EVar "null_value()"))) (ELit (0)))) (ELit (0)) (ELit (1)))) (ECast I32 (ECond (ECond (ECmp CEq (ECast I32 (EVar "rhs.val")) (ECast I32 (EVar "null_value()"))) (ELit (1)) (ECond (ECmp CNe (ECast I32 (EVar "rhs.val")) (ECast I32 (EVar "rhs.val"))) (ECmp CNe (ECast I32 (EVar "null_value()")) (ECast I32 (EVar "null_value()"))) (ELit (0)))) (ELit (0)) (ELit (1))))))) ].

Definition src_opt_eq_U16 : list effect :=
  [ (Return (ECond (ECond (ECond (ECond (ECmp CEq (ECast I32 (EVar "lhs.val")) (ECast I32 (EVar "null_value()"))) (ELit (1)) (ECond (ECmp CNe (ECast I32 (EVar "lhs.val")) (ECast I32 (EVar "lhs.val"))) (ECmp CNe (ECast I32 (EVar "null_value()")) (ECast I32 (EVar "null_value()"))) (ELit (0)))) (ELit (0)) (ELit (1))) (ECond (ECond (ECmp CEq (ECast I32 (EVar "rhs.val")) (ECast I32 (EVar "null_value()"))) (ELit (1)) (ECond (ECmp CNe (ECast I32 (EVar "rhs.val")) (ECast I32 (EVar "rhs.val"))) (ECmp CNe (ECast I32 (EVar "null_value()")) (ECast I32 (EVar "null_value()"))) (ELit (0)))) (ELit (0)) (ELit (1))) (ELit (0))) (ECmp CEq (ECast I32 (EVar "lhs.val")) (ECast I32 (EVar "rhs.val"))) (ECmp CEq (ECast I32 (ECond (ECond (ECmp CEq (ECast I32 (EVar "lhs.val")) (ECast I32 (EVar "null_value()"))) (ELit (1)) (ECond (ECmp CNe (ECast I32 (EVar "lhs.val")) (ECast I32 (EVar "lhs.val"))) (ECmp CNe (ECast I32 (EVar "null_value()")) (ECast I32 (EVar "null_value()"))) (ELit (0)))) (ELit (0)) (ELit (1)))) (ECast I32 (ECond (ECond (ECmp CEq (ECast I32 (EVar "rhs.val")) (ECast I32 (EVar "null_value()"))) (ELit (1)) (ECond (ECmp CNe (ECast I32 (EVar "rhs.val")) (ECast I32 (EVar "rhs.val"))) (ECmp CNe (ECast I32 (EVar "null_value()")) (ECast I32 (EVar "null_value()"))) (ELit (0)))) (ELit (0)) (ELit (1))))))) ].

Definition src_opt_eq_U32 : list effect :=
  [ (Return (ECond (ECond (ECond (ECond (ECmp CEq (EVar "lhs.val") (EVar "null_value()")) (ELit (1)) (ECond (ECmp CNe (EVar "lhs.val") (EVar "lhs.val")) (ECmp CNe (EVar "null_value()") (EVar "null_value()")) (ELit (0)))) (ELit (0)) (ELit (1))) (ECond (ECond (ECmp CEq (EVar "rhs.val") (EVar "null_value()")) (ELit (1)) (ECond (ECmp CNe (EVar "rhs.val") (EVar "rhs.val")) (ECmp CNe (EVar "null_value()") (EVar "null_value()")) (ELit (0)))) (ELit (0)) (ELit (1))) (ELit (0))) (ECmp CEq (EVar "lhs.val") (EVar "rhs.val")) (ECmp CEq (ECast I32 (ECond (ECond (ECmp CEq (EVar "lhs.val") (EVar "null_value()")) (ELit (1)) (ECond (ECmp CNe (EVar "lhs.val") (EVar "lhs.val")) (ECmp CNe (EVar "null_value()") (EVar "null_value()")) (ELit (0)))) (ELit (0)) (ELit (1)))) (ECast I32 (ECond (ECond (ECmp CEq (EVar "rhs.val") (EVar "null_value()")) (ELit (1)) (ECond (ECmp CNe (EVar "rhs.val") (EVar "rhs.val")) (ECmp CNe (EVar "null_value()") (EVar "null_value()")) (ELit (0)))) (ELit (0)) (ELit (1))))))) ].

Definition src_opt_eq_U64 : list effect :=
  [ (Return (ECond (ECond (ECond (ECond (ECmp CEq (EVar "lhs.val") (EVar "null_value()")) (ELit (1)) (ECond (ECmp CNe (EVar "lhs.val") (EVar "lhs.val")) (ECmp CNe (EVar "null_value()") (EVar "null_value()")) (ELit (0)))) (ELit (0)) (ELit (1))) (ECond (ECond (ECmp CEq (EVar "rhs.val") (EVar "null_value()")) (ELit (1)) (ECond (ECmp CNe (EVar "rhs.val") (EVar "rhs.val")) (ECmp CNe (EVar "null_value()") (EVar "null_value()")) (ELit (0)))) (ELit (0)) (ELit (1))) (ELit (0))) (ECmp CEq (EVar "lhs.val") (EVar "rhs.val")) (ECmp CEq (ECast I32 (ECond (ECond (ECmp CEq (EVar "lhs.val") (EVar "null_value()")) (ELit (1)) (ECond (ECmp CNe (EVar "lhs.val") (EVar "lhs.val")) (ECmp CNe (EVar "null_value()") (EVar "null_value()")) (ELit (0)))) (ELit (0)) (ELit (1)))) (ECast I32 (ECond (ECond (ECmp CEq (EVar "rhs.val") (EVar "null_value()")) (ELit (1)) (ECond (ECmp CNe (EVar "rhs.val") (EVar "rhs.val")) (ECmp CNe (EVar "null_value()") (EVar "null_value()")) (ELit (0)))) (ELit (0)) (ELit (1))))))) ].

Definition src_opt_eq_U8 : list effect :=
  [ (Return (ECond (ECond (ECond (ECond (ECmp CEq (ECast I32 (EVar "lhs.val")) (ECast I32 (EVar "null_value()"))) (ELit (1)) (ECond (ECmp CNe (ECast I32 (EVar "lhs.val")) (ECast I32 (EVar "lhs.val"))) (ECmp CNe (ECast I32 (EVar "null_value()")) (ECast I32 (EVar "null_value()"))) (ELit (0)))) (ELit (0)) (ELit (1))) (ECond (ECond (ECmp CEq (ECast I32 (EVar "rhs.val")) (ECast I32 (EVar "null_value()"))) (ELit (1)) (ECond (ECmp CNe (ECast I32 (EVar "rhs.val")) (ECast I32 (EVar "rhs.val"))) (ECmp CNe (ECast I32 (EVar "null_value()")) (ECast I32 (EVar "null_value()"))) (ELit (0)))) (ELit (0)) (ELit (1))) (ELit (0))) (ECmp CEq (ECast I32 (EVar "lhs.val")) (ECast I32 (EVar "rhs.val"))) (ECmp CEq (ECast I32 (ECond (ECond (ECmp CEq (ECast I32 (EVar "lhs.val")) (ECast I32 (EVar "null_value()"))) (ELit (1)) (ECond (ECmp CNe (ECast I32 (EVar "lhs.val")) (ECast I32 (EVar "lhs.val"))) (ECmp CNe (ECast I32 (EVar "null_value()")) (ECast I32 (EVar "null_value()"))) (ELit (0)))) (ELit (0)) (ELit (1)))) (ECast I32 (ECond (ECond (ECmp CEq (ECast I32 (EVar "rhs.val")) (ECast I32 (EVar "null_value()"))) (ELit (1)) (ECond (ECmp CNe (ECast I32 (EVar "rhs.val")) (ECast I32 (EVar "rhs.val"))) (ECmp CNe (ECast I32 (EVar "null_value()")) (ECast I32 (EVar "null_value()"))) (ELit (0)))) (ELit (0)) (ELit (1))))))) ].

Definition src_opt_ge_I16 : list effect :=
  [ (Return (ECond (ECond (ECond (ECond (ECmp CEq (ECast I32 (EVar "rhs.val")) (ECast I32 (EVar "null_value()"))) (ELit (1)) (ECond (ECmp CNe (ECast I32 (EVar "rhs.val")) (ECast I32 (EVar "rhs.val"))) (ECmp CNe (ECast I32 (EVar "null_value()")) (ECast I32 (EVar "null_value()"))) (ELit (0)))) (ELit (0)) (ELit (1))) (ELit (0)) (ELit (1))) (ELit (1)) (ECond (ECond (ECond (ECmp CEq (ECast I32 (EVar "lhs.val")) (ECast I32 (EVar "null_value()"))) (ELit (1)) (ECond (ECmp CNe (ECast I32 (EVar "lhs.val")) (ECast I32 (EVar "lhs.val"))) (ECmp CNe (ECast I32 (EVar "null_value()")) (ECast I32 (EVar "null_value()"))) (ELit (0)))) (ELit (0)) (ELit (1))) (ECmp CGe (ECast I32 (EVar "lhs.val")) (ECast I32 (EVar "rhs.val"))) (ELit (0))))) ].

Definition src_opt_ge_I32 : list effect :=
  [ (Return (ECond (ECond (ECond (ECond (ECmp CEq (EVar "rhs.val") (EVar "null_value()")) (ELit (1)) (ECond (ECmp CNe (EVar "rhs.val") (EVar "rhs.val")) (ECmp CNe (EVar "null_value()") (EVar "null_value()")) (ELit (0)))) (ELit (0)) (ELit (1))) (ELit (0)) (ELit (1))) (ELit (1)) (ECond (ECond (ECond (ECmp CEq (EVar "lhs.val") (EVar "null_value()")) (ELit (1)) (ECond (ECmp CNe (EVar "lhs.val") (EVar "lhs.val")) (ECmp CNe (EVar "null_value()") (EVar "null_value()")) (ELit (0)))) (ELit (0)) (ELit (1))) (ECmp CGe (EVar "lhs.val") (EVar "rhs.val")) (ELit (0))))) ].

Definition src_opt_ge_I64 : list effect :=
  [ (Return (ECond (ECond (ECond (ECond (ECmp CEq (EVar "rhs.val") (EVar "null_value()")) (ELit (1)) (ECond (ECmp CNe (EVar "rhs.val") (EVar "rhs.val")) (ECmp CNe (EVar "null_value()") (EVar "null_value()")) (ELit (0)))) (ELit (0)) (ELit (1))) (ELit (0)) (ELit (1))) (ELit (1)) (ECond (ECond (ECond (ECmp CEq (EVar "lhs.val") (EVar "null_value()")) (ELit (1)) (ECond (ECmp CNe (EVar "lhs.val") (EVar "lhs.val")) (ECmp CNe (EVar "null_value()") (EVar "null_value()")) (ELit (0)))) (ELit (0)) (ELit (1))) (ECmp CGe (EVar "lhs.val") (EVar "rhs.val")) (ELit (0))))) ].

Definition src_opt_ge_I8 : list effect :=
  [ (Return (ECond (ECond (ECond (ECond (ECmp CEq (ECast I32 (EVar "rhs.val")) (ECast I32 (EVar "null_value()"))) (ELit (1)) (ECond (ECmp CNe (ECast I32 (EVar "rhs.val")) (ECast I32 (EVar "rhs.val"))) (ECmp CNe (ECast I32 (EVar "null_value()")) (ECast I32 (EVar "null_value()"))) (ELit (0)))) (ELit (0)) (ELit (1))) (ELit (0)) (ELit (1))) (ELit (1)) (ECond (ECond (ECond (ECmp CEq (ECast I32 (EVar "lhs.val")) (ECast I32 (EVar "null_value()"))) (ELit (1)) (ECond (ECmp CNe (ECast I32 (EVar "lhs.val")) (ECast I32 (EVar "lhs.val"))) (ECmp CNe (ECast I32 (EVar "null_value()")) (ECast I32 (EVar "null_value()"))) (ELit (0)))) (ELit (0)) (ELit (1))) (ECmp CGe (ECast I32 (EVar "lhs.val")) (ECast I32 (EVar "rhs.val"))) (ELit (0))))) ].

Definition src_opt_ge_U16 : list effect :=
  [ (Return (ECond (ECond (ECond (ECond (ECmp CEq (ECast I32 (EVar "rhs.val")) (ECast I32 (EVar "null_value()"))) (ELit (1)) (ECond (ECmp CNe (ECast I32 (EVar "rhs.val")) (ECast I32 (EVar "rhs.val"))) (ECmp CNe (ECast I32 (EVar "null_value()")) (ECast I32 (EVar "null_value()"))) (ELit (0)))) (ELit (0)) (ELit (1))) (ELit (0)) (ELit (1))) (ELit (1)) (ECond (ECond (ECond (ECmp CEq (ECast I32 (EVar "lhs.val")) (ECast I32 (EVar "null_value()"))) (ELit (1)) (ECond (ECmp CNe (ECast I32 (EVar "lhs.val")) (ECast I32 (EVar "lhs.val"))) (ECmp CNe (ECast I32 (EVar "null_value()")) (ECast I32 (EVar "null_value()"))) (ELit (0)))) (ELit (0)) (ELit (1))) (ECmp CGe (ECast I32 (EVar "lhs.val")) (ECast I32 (EVar "rhs.val"))) (ELit (0))))) ].

Definition src_opt_ge_U32 : list effect :=
  [ (Return (ECond (ECond (ECond (ECond (ECmp CEq (EVar "rhs.val") (EVar "null_value()")) (ELit (1)) (ECond (ECmp CNe (EVar "rhs.val") (EVar "rhs.val")) (ECmp CNe (EVar "null_value()") (EVar "null_value()")) (ELit (0)))) (ELit (0)) (ELit (1))) (ELit (0)) (ELit (1))) (ELit (1)) (ECond (ECond (ECond (ECmp CEq (EVar "lhs.val") (EVar "null_value()")) (ELit (1)) (ECond (ECmp CNe (EVar "lhs.val") (EVar "lhs.val")) (ECmp CNe (EVar "null_value()") (EVar "null_value()")) (ELit (0)))) (ELit (0)) (ELit (1))) (ECmp CGe (EVar "lhs.val") (EVar "rhs.val")) (ELit (0))))) ].

Definition src_opt_ge_U64 : list effect :=
  [ (Return (ECond (ECond (ECond (ECond (ECmp CEq (EVar "rhs.val") (EVar "null_value()")) (ELit (1)) (ECond (ECmp CNe (EVar "rhs.val") (EVar "rhs.val")) (ECmp CNe (EVar "null_value()") (EVar "null_value()")) (ELit (0)))) (ELit (0)) (ELit (1))) (ELit (0)) (ELit (1))) (ELit (1)) (ECond (ECond (ECond (ECmp CEq (EVar "lhs.val") (EVar "null_value()")) (ELit (1)) (ECond (ECmp CNe (EVar "lhs.val") (EVar "lhs.val")) (ECmp CNe (EVar "null_value()") (EVar "null_value()")) (ELit (0)))) (ELit (0)) (ELit (1))) (ECmp CGe (EVar "lhs.val") (EVar "rhs.val")) (ELit (0))))) ].

Definition src_opt_ge_U8 : list effect :=
  [ (Return (ECond (ECond (ECond (ECond (ECmp CEq (ECast I32 (EVar "rhs.val")) (ECast I32 (EVar "null_value()"))) (ELit (1)) (ECond (ECmp CNe (ECast I32 (EVar "rhs.val")) (ECast I32 (EVar "rhs.val"))) (ECmp CNe (ECast I32 (EVar "null_value()")) (ECast I32 (EVar "null_value()"))) (ELit (0)))) (ELit (0)) (ELit (1))) (ELit (0)) (ELit (1))) (ELit (1)) (ECond (ECond (ECond (ECmp CEq (ECast I32 (EVar "lhs.val")) (ECast I32 (EVar "null_value()"))) (ELit (1)) (ECond (ECmp CNe (ECast I32 (EVar "lhs.val")) (ECast I32 (EVar "lhs.val"))) (ECmp CNe (ECast I32 (EVar "null_value()")) (ECast I32 (EVar "null_value()"))) (ELit (0)))) (ELit (0)) (ELit (1))) (ECmp CGe (ECast I32 (EVar "lhs.val")) (ECast I32 (EVar "rhs.val"))) (ELit (0))))) ].

Definition src_opt_gt_I16 : list effect :=
  [ (Return (ECond (ECond (ECond (ECmp CEq (ECast I32 (EVar "lhs.val")) (ECast I32 (EVar "null_value()"))) (ELit (1)) (ECond (ECmp CNe (ECast I32 (EVar "lhs.val")) (ECast I32 (EVar "lhs.val"))) (ECmp CNe (ECast I32 (EVar "null_value()")) (ECast I32 (EVar "null_value()"))) (ELit (0)))) (ELit (0)) (ELit (1))) (ECond (ECond (ECond (ECond (ECmp CEq (ECast I32 (EVar "rhs.val")) (ECast I32 (EVar "null_value()"))) (ELit (1)) (ECond (ECmp CNe (ECast I32 (EVar "rhs.val")) (ECast I32 (EVar "rhs.val"))) (ECmp CNe (ECast I32 (EVar "null_value()")) (ECast I32 (EVar "null_value()"))) (ELit (0)))) (ELit (0)) (ELit (1))) (ELit (0)) (ELit (1))) (ELit (1)) (ECmp CGt (ECast I32 (EVar "lhs.val")) (ECast I32 (EVar "rhs.val")))) (ELit (0)))) ].

Definition src_opt_gt_I32 : list effect :=
  [ (Return (ECond (ECond (ECond (ECmp CEq (EVar "lhs.val") (EVar "null_value()")) (ELit (1)) (ECond (ECmp CNe (EVar "lhs.val") (EVar "lhs.val")) (ECmp CNe (EVar "null_value()") (EVar "null_value()")) (ELit (0)))) (ELit (0)) (ELit (1))) (ECond (ECond (ECond (ECond (ECmp CEq (EVar "rhs.val") (EVar "null_value()")) (ELit (1)) (ECond (ECmp CNe (EVar "rhs.val") (EVar "rhs.val")) (ECmp CNe (EVar "null_value()") (EVar "null_value()")) (ELit (0)))) (ELit (0)) (ELit (1))) (ELit (0)) (ELit (1))) (ELit (1)) (ECmp CGt (EVar "lhs.val") (EVar "rhs.val"))) (ELit (0)))) ].

Definition src_opt_gt_I64 : list effect :=
  [ (Return (ECond (ECond (ECond (ECmp CEq (EVar "lhs.val") (EVar "null_value()")) (ELit (1)) (ECond (ECmp CNe (EVar "lhs.val") (EVar "lhs.val")) (ECmp CNe (EVar "null_value()") (EVar "null_value()")) (ELit (0)))) (ELit (0)) (ELit (1))) (ECond (ECond (ECond (ECond (ECmp CEq (EVar "rhs.val") (EVar "null_value()")) (ELit (1)) (ECond (ECmp CNe (EVar "rhs.val") (EVar "rhs.val")) (ECmp CNe (EVar "null_value()") (EVar "null_value()")) (ELit (0)))) (ELit (0)) (ELit (1))) (ELit (0)) (ELit (1))) (ELit (1)) (ECmp CGt (EVar "lhs.val") (EVar "rhs.val"))) (ELit (0)))) ].

Definition src_opt_gt_I8 : list effect :=
  [ (Return (ECond (ECond (ECond (ECmp CEq (ECast I32 (EVar "lhs.val")) (ECast I32 (EVar "null_value()"))) (ELit (1)) (ECond (ECmp CNe (ECast I32 (EVar "lhs.val")) (ECast I32 (EVar "lhs.val"))) (ECmp CNe (ECast I32 (EVar "null_value()")) (ECast I32 (EVar "null_value()"))) (ELit (0)))) (ELit (0)) (ELit (1))) (ECond (ECond (ECond (ECond (ECmp CEq (ECast I32 (EVar "rhs.val")) (ECast I32 (EVar "null_value()"))) (ELit (1)) (ECond (ECmp CNe (ECast I32 (EVar "rhs.val")) (ECast I32 (EVar "rhs.val"))) (ECmp CNe (ECast I32 (EVar "null_value()")) (ECast I32 (EVar "null_value()"))) (ELit (0)))) (ELit (0)) (ELit (1))) (ELit (0)) (ELit (1))) (ELit (1)) (ECmp CGt (ECast I32 (EVar "lhs.val")) (ECast I32 (EVar "rhs.val")))) (ELit (0)))) ].

Definition src_opt_gt_U16 : list effect :=
  [ (Return (ECond (ECond (ECond (ECmp CEq (ECast I32 (EVar "lhs.val")) (ECast I32 (EVar "null_value()"))) (ELit (1)) (ECond (ECmp CNe (ECast I32 (EVar "lhs.val")) (ECast I32 (EVar "lhs.val"))) (ECmp CNe (ECast I32 (EVar "null_value()")) (ECast I32 (EVar "null_value()"))) (ELit (0)))) (ELit (0)) (ELit (1))) (ECond (ECond (ECond (ECond (ECmp CEq (ECast I32 (EVar "rhs.val")) (ECast I32 (EVar "null_value()"))) (ELit (1)) (ECond (ECmp CNe (ECast I32 (EVar "rhs.val")) (ECast I32 (EVar "rhs.val"))) (ECmp CNe (ECast I32 (EVar "null_value()")) (ECast I32 (EVar "null_value()"))) (ELit (0)))) (ELit (0)) (ELit (1))) (ELit (0)) (ELit (1))) (ELit (1)) (ECmp CGt (ECast I32 (EVar "lhs.val")) (ECast I32 (EVar "rhs.val")))) (ELit (0)))) ].

Definition src_opt_gt_U32 : list effect :=
  [ (Return (ECond (ECond (ECond (ECmp CEq (EVar "lhs.val") (EVar "null_value()")) (ELit (1)) (ECond (ECmp CNe (EVar "lhs.val") (EVar "lhs.val")) (ECmp CNe (EVar "null_value()") (EVar "null_value()")) (ELit (0)))) (ELit (0)) (ELit (1))) (ECond (ECond (ECond (ECond (ECmp CEq (EVar "rhs.val") (EVar "null_value()")) (ELit (1)) (ECond (ECmp CNe (EVar "rhs.val") (EVar "rhs.val")) (ECmp CNe (EVar "null_value()") (EVar "null_value()")) (ELit (0)))) (ELit (0)) (ELit (1))) (ELit (0)) (ELit (1))) (ELit (1)) (ECmp CGt (EVar "lhs.val") (EVar "rhs.val"))) (ELit (0)))) ].

Definition src_opt_gt_U64 : list effect :=
  [ (Return (ECond (ECond (ECond (ECmp CEq (EVar "lhs.val") (EVar "null_value()")) (ELit (1)) (ECond (ECmp CNe (EVar "lhs.val") (EVar "lhs.val")) (ECmp CNe (EVar "null_value()") (EVar "null_value()")) (ELit (0)))) (ELit (0)) (ELit (1))) (ECond (ECond (ECond (ECond (ECmp CEq (EVar "rhs.val") (EVar "null_value()")) (ELit (1)) (ECond (ECmp CNe (EVar "rhs.val") (EVar "rhs.val")) (ECmp CNe (EVar "null_value()") (EVar "null_value()")) (ELit (0)))) (ELit (0)) (ELit (1))) (ELit (0)) (ELit (1))) (ELit (1)) (ECmp CGt (EVar "lhs.val") (EVar "rhs.val"))) (ELit (0)))) ].

Definition src_opt_gt_U8 : list effect :=
  [ (Return (ECond (ECond (ECond (ECmp CEq (ECast I32 (EVar "lhs.val")) (ECast I32 (EVar "null_value()"))) (ELit (1)) (ECond (ECmp CNe (ECast I32 (EVar "lhs.val")) (ECast I32 (EVar "lhs.val"))) (ECmp CNe (ECast I32 (EVar "null_value()")) (ECast I32 (EVar "null_value()"))) (ELit (0)))) (ELit (0)) (ELit (1))) (ECond (ECond (ECond (ECond (ECmp CEq (ECast I32 (EVar "rhs.val")) (ECast I32 (EVar "null_value()"))) (ELit (1)) (ECond (ECmp CNe (ECast I32 (EVar "rhs.val")) (ECast I32 (EVar "rhs.val"))) (ECmp CNe (ECast I32 (EVar "null_value()")) (ECast I32 (EVar "null_value()"))) (ELit (0)))) (ELit (0)) (ELit (1))) (ELit (0)) (ELit (1))) (ELit (1)) (ECmp CGt (ECast I32 (EVar "lhs.val")) (ECast I32 (EVar "rhs.val")))) (ELit (0)))) ].

Definition src_opt_has_value_I16 : list effect :=
  [ (Return (ECond (ECond (ECmp CEq (ECast I32 (EVar "val")) (ECast I32 (EVar "null_value()"))) (ELit (1)) (ECond (ECmp CNe (ECast I32 (EVar "val")) (ECast I32 (EVar "val"))) (ECmp CNe (ECast I32 (EVar "null_value()")) (ECast I32 (EVar "null_value()"))) (ELit (0)))) (ELit (0)) (ELit (1)))) ].

Definition src_opt_has_value_I32 : list effect :=
  [ (Return (ECond (ECond (ECmp CEq (EVar "val") (EVar "null_value()")) (ELit (1)) (ECond (ECmp CNe (EVar "val") (EVar "val")) (ECmp CNe (EVar "null_value()") (EVar "null_value()")) (ELit (0)))) (ELit (0)) (ELit (1)))) ].

Definition src_opt_has_value_I64 : list effect :=
  [ (Return (ECond (ECond (ECmp CEq (EVar "val") (EVar "null_value()")) (ELit (1)) (ECond (ECmp CNe (EVar "val") (EVar "val")) (ECmp CNe (EVar "null_value()") (EVar "null_value()")) (ELit (0)))) (ELit (0)) (ELit (1)))) ].

Definition src_opt_has_value_I8 : list effect :=
  [ (Return (ECond (ECond (ECmp CEq (ECast I32 (EVar "val")) (ECast I32 (EVar "null_value()"))) (ELit (1)) (ECond (ECmp CNe (ECast I32 (EVar "val")) (ECast I32 (EVar "val"))) (ECmp CNe (ECast I32 (EVar "null_value()")) (ECast I32 (EVar "null_value()"))) (ELit (0)))) (ELit (0)) (ELit (1)))) ].

Definition src_opt_has_value_U16 : list effect :=
  [ (Return (ECond (ECond (ECmp CEq (ECast I32 (EVar "val")) (ECast I32 (EVar "null_value()"))) (ELit (1)) (ECond (ECmp CNe (ECast I32 (EVar "val")) (ECast I32 (EVar "val"))) (ECmp CNe (ECast I32 (EVar "null_value()")) (ECast I32 (EVar "null_value()"))) (ELit (0)))) (ELit (0)) (ELit (1)))) ].

Definition src_opt_has_value_U32 : list effect :=
  [ (Return (ECond (ECond (ECmp CEq (EVar "val") (EVar "null_value()")) (ELit (1)) (ECond (ECmp CNe (EVar "val") (EVar "val")) (ECmp CNe (EVar "null_value()") (EVar "null_value()")) (ELit (0)))) (ELit (0)) (ELit (1)))) ].

Definition src_opt_has_value_U64 : list effect :=
  [ (Return (ECond (ECond (ECmp CEq (EVar "val") (EVar "null_value()")) (ELit (1)) (ECond (ECmp CNe (EVar "val") (EVar "val")) (ECmp CNe (EVar "null_value()") (EVar "null_value()")) (ELit (0)))) (ELit (0)) (ELit (1)))) ].

Definition src_opt_has_value_U8 : list effect :=
  [ (Return (ECond (ECond (ECmp CEq (ECast I32 (EVar "val")) (ECast I32 (EVar "null_value()"))) (ELit (1)) (ECond (ECmp CNe (ECast I32 (EVar "val")) (ECast I32 (EVar "val"))) (ECmp CNe (ECast I32 (EVar "null_value()")) (ECast I32 (EVar "null_value()"))) (ELit (0)))) (ELit (0)) (ELit (1)))) ].

Definition src_opt_in_range_I16 : list effect :=
  [ (Return (ECond (ECmp CLe (ECast I32 (EVar "min_value()")) (ECast I32 (EVar "val"))) (ECmp CLe (ECast I32 (EVar "val")) (ECast I32 (EVar "max_value()"))) (ELit (0)))) ].

Definition src_opt_in_range_I32 : list effect :=
  [ (Return (ECond (ECmp CLe (EVar "min_value()") (EVar "val")) (ECmp CLe (EVar "val") (EVar "max_value()")) (ELit (0)))) ].

Definition src_opt_in_range_I64 : list effect :=
  [ (Return (ECond (ECmp CLe (EVar "min_value()") (EVar "val")) (ECmp CLe (EVar "val") (EVar "max_value()")) (ELit (0)))) ].

Definition src_opt_in_range_I8 : list effect :=
  [ (Return (ECond (ECmp CLe (ECast I32 (EVar "min_value()")) (ECast I32 (EVar "val"))) (ECmp CLe (ECast I32 (EVar "val")) (ECast I32 (EVar "max_value()"))) (ELit (0)))) ].

Definition src_opt_in_range_U16 : list effect :=
  [ (Return (ECond (ECmp CLe (ECast I32 (EVar "min_value()")) (ECast I32 (EVar "val"))) (ECmp CLe (ECast I32 (EVar "val")) (ECast I32 (EVar "max_value()"))) (ELit (0)))) ].

Definition src_opt_in_range_U32 : list effect :=
  [ (Return (ECond (ECmp CLe (EVar "min_value()") (EVar "val")) (ECmp CLe (EVar "val") (EVar "max_value()")) (ELit (0)))) ].

Definition src_opt_in_range_U64 : list effect :=
  [ (Return (ECond (ECmp CLe (EVar "min_value()") (EVar "val")) (ECmp CLe (EVar "val") (EVar "max_value()")) (ELit (0)))) ].

Definition src_opt_in_range_U8 : list effect :=
  [ (Return (ECond (ECmp CLe (ECast I32 (EVar "min_value()")) (ECast I32 (EVar "val"))) (ECmp CLe (ECast I32 (EVar "val")) (ECast I32 (EVar "max_value()"))) (ELit (0)))) ].

Definition src_opt_le_I16 : list effect :=
  [ (Return (ECond (ECond (ECond (ECond (ECmp CEq (ECast I32 (EVar "lhs.val")) (ECast I32 (EVar "null_value()"))) (ELit (1)) (ECond (ECmp CNe (ECast I32 (EVar "lhs.val")) (ECast I32 (EVar "lhs.val"))) (ECmp CNe (ECast I32 (EVar "null_value()")) (ECast I32 (EVar "null_value()"))) (ELit (0)))) (ELit (0)) (ELit (1))) (ELit (0)) (ELit (1))) (ELit (1)) (ECond (ECond (ECond (ECmp CEq (ECast I32 (EVar "rhs.val")) (ECast I32 (EVar "null_value()"))) (ELit (1)) (ECond (ECmp CNe (ECast I32 (EVar "rhs.val")) (ECast I32 (EVar "rhs.val"))) (ECmp CNe (ECast I32 (EVar "null_value()")) (ECast I32 (EVar "null_value()"))) (ELit (0)))) (ELit (0)) (ELit (1))) (ECmp CLe (ECast I32 (EVar "lhs.val")) (ECast I32 (EVar "rhs.val"))) (ELit (0))))) ].

Definition src_opt_le_I32 : list effect :=
  [ (Return (ECond (ECond (ECond (ECond (ECmp CEq (EVar "lhs.val") (EVar "null_value()")) (ELit (1)) (ECond (ECmp CNe (EVar "lhs.val") (EVar "lhs.val")) (ECmp CNe (EVar "null_value()") (EVar "null_value()")) (ELit (0)))) (ELit (0)) (ELit (1))) (ELit (0)) (ELit (1))) (ELit (1)) (ECond (ECond (ECond (ECmp CEq (EVar "rhs.val") (EVar "null_value()")) (ELit (1)) (ECond (ECmp CNe (EVar "rhs.val") (EVar "rhs.val")) (ECmp CNe (EVar "null_value()") (EVar "null_value()")) (ELit (0)))) (ELit (0)) (ELit (1))) (ECmp CLe (EVar "lhs.val") (EVar "rhs.val")) (ELit (0))))) ].

Definition src_opt_le_I64 : list effect :=
  [ (Return (ECond (ECond (ECond (ECond (ECmp CEq (EVar "lhs.val") (EVar "null_value()")) (ELit (1)) (ECond (ECmp CNe (EVar "lhs.val") (EVar "lhs.val")) (ECmp CNe (EVar "null_value()") (EVar "null_value()")) (ELit (0)))) (ELit (0)) (ELit (1))) (ELit (0)) (ELit (1))) (ELit (1)) (ECond (ECond (ECond (ECmp CEq (EVar "rhs.val") (EVar "null_value()")) (ELit (1)) (ECond (ECmp CNe (EVar "rhs.val") (EVar "rhs.val")) (ECmp CNe (EVar "null_value()") (EVar "null_value()")) (ELit (0)))) (ELit (0)) (ELit (1))) (ECmp CLe (EVar "lhs.val") (EVar "rhs.val")) (ELit (0))))) ].

Definition src_opt_le_I8 : list effect :=
  [ (Return (ECond (ECond (ECond (ECond (ECmp CEq (ECast I32 (EVar "lhs.val")) (ECast I32 (EVar "null_value()"))) (ELit (1)) (ECond (ECmp CNe (ECast I32 (EVar "lhs.val")) (ECast I32 (EVar "lhs.val"))) (ECmp CNe (ECast I32 (EVar "null_value()")) (ECast I32 (EVar "null_value()"))) (ELit (0)))) (ELit (0)) (ELit (1))) (ELit (0)) (ELit (1))) (ELit (1)) (ECond (ECond (ECond (ECmp CEq (ECast I32 (EVar "rhs.val")) (ECast I32 (EVar "null_value()"))) (ELit (1)) (ECond (ECmp CNe (ECast I32 (EVar "rhs.val")) (ECast I32 (EVar "rhs.val"))) (ECmp CNe (ECast I32 (EVar "null_value()")) (ECast I32 (EVar "null_value()"))) (ELit (0)))) (ELit (0)) (ELit (1))) (ECmp CLe (ECast I32 (EVar "lhs.val")) (ECast I32 (EVar "rhs.val"))) (ELit (0))))) ].

Definition src_opt_le_U16 : list effect :=
  [ (Return (ECond (ECond (ECond (ECond (ECmp CEq (ECast I32 (EVar "lhs.val")) (ECast I32 (EVar "null_value()"))) (ELit (1)) (ECond (ECmp CNe (ECast I32 (EVar "lhs.val")) (ECast I32 (EVar "lhs.val"))) (ECmp CNe (ECast I32 (EVar "null_value()")) (ECast I32 (EVar "null_value()"))) (ELit (0)))) (ELit (0)) (ELit (1))) (ELit (0)) (ELit (1))) (ELit (1)) (ECond (ECond (ECond (ECmp CEq (ECast I32 (EVar "rhs.val")) (ECast I32 (EVar "null_value()"))) (ELit (1)) (ECond (ECmp CNe (ECast I32 (EVar "rhs.val")) (ECast I32 (EVar "rhs.val"))) (ECmp CNe (ECast I32 (EVar "null_value()")) (ECast I32 (EVar "null_value()"))) (ELit (0)))) (ELit (0)) (ELit (1))) (ECmp CLe (ECast I32 (EVar "lhs.val")) (ECast I32 (EVar "rhs.val"))) (ELit (0))))) ].

Definition src_opt_le_U32 : list effect :=
  [ (Return (ECond (ECond (ECond (ECond (ECmp CEq (EVar "lhs.val") (EVar "null_value()")) (ELit (1)) (ECond (ECmp CNe (EVar "lhs.val") (EVar "lhs.val")) (ECmp CNe (EVar "null_value()") (EVar "null_value()")) (ELit (0)))) (ELit (0)) (ELit (1))) (ELit (0)) (ELit (1))) (ELit (1)) (ECond (ECond (ECond (ECmp CEq (EVar "rhs.val") (EVar "null_value()")) (ELit (1)) (ECond (ECmp CNe (EVar "rhs.val") (EVar "rhs.val")) (ECmp CNe (EVar "null_value()") (EVar "null_value()")) (ELit (0)))) (ELit (0)) (ELit (1))) (ECmp CLe (EVar "lhs.val") (EVar "rhs.val")) (ELit (0))))) ].

Definition src_opt_le_U64 : list effect :=
  [ (Return (ECond (ECond (ECond (ECond (ECmp CEq (EVar "lhs.val") (EVar "null_value()")) (ELit (1)) (ECond (ECmp CNe (EVar "lhs.val") (EVar "lhs.val")) (ECmp CNe (EVar "null_value()") (EVar "null_value()")) (ELit (0)))) (ELit (0)) (ELit (1))) (ELit (0)) (ELit (1))) (ELit (1)) (ECond (ECond (ECond (ECmp CEq (EVar "rhs.val") (EVar "null_value()")) (ELit (1)) (ECond (ECmp CNe (EVar "rhs.val") (EVar "rhs.val")) (ECmp CNe (EVar "null_value()") (EVar "null_value()")) (ELit (0)))) (ELit (0)) (ELit (1))) (ECmp CLe (EVar "lhs.val") (EVar "rhs.val")) (ELit (0))))) ].

Definition src_opt_le_U8 : list effect :=
  [ (Return (ECond (ECond (ECond (ECond (ECmp CEq (ECast I32 (EVar "lhs.val")) (ECast I32 (EVar "null_value()"))) (ELit (1)) (ECond (ECmp CNe (ECast I32 (EVar "lhs.val")) (ECast I32 (EVar "lhs.val"))) (ECmp CNe (ECast I32 (EVar "null_value()")) (ECast I32 (EVar "null_value()"))) (ELit (0)))) (ELit (0)) (ELit (1))) (ELit (0)) (ELit (1))) (ELit (1)) (ECond (ECond (ECond (ECmp CEq (ECast I32 (EVar "rhs.val")) (ECast I32 (EVar "null_value()"))) (ELit (1)) (ECond (ECmp CNe (ECast I32 (EVar "rhs.val")) (ECast I32 (EVar "rhs.val"))) (ECmp CNe (ECast I32 (EVar "null_value()")) (ECast I32 (EVar "null_value()"))) (ELit (0)))) (ELit (0)) (ELit (1))) (ECmp CLe (ECast I32 (EVar "lhs.val")) (ECast I32 (EVar "rhs.val"))) (ELit (0))))) ].

Definition src_opt_lt_I16 : list effect :=
  [ (Return (ECond (ECond (ECond (ECmp CEq (ECast I32 (EVar "rhs.val")) (ECast I32 (EVar "null_value()"))) (ELit (1)) (ECond (ECmp CNe (ECast I32 (EVar "rhs.val")) (ECast I32 (EVar "rhs.val"))) (ECmp CNe (ECast I32 (EVar "null_value()")) (ECast I32 (EVar "null_value()"))) (ELit (0)))) (ELit (0)) (ELit (1))) (ECond (ECond (ECond (ECond (ECmp CEq (ECast I32 (EVar "lhs.val")) (ECast I32 (EVar "null_value()"))) (ELit (1)) (ECond (ECmp CNe (ECast I32 (EVar "lhs.val")) (ECast I32 (EVar "lhs.val"))) (ECmp CNe (ECast I32 (EVar "null_value()")) (ECast I32 (EVar "null_value()"))) (ELit (0)))) (ELit (0)) (ELit (1))) (ELit (0)) (ELit (1))) (ELit (1)) (ECmp CLt (ECast I32 (EVar "lhs.val")) (ECast I32 (EVar "rhs.val")))) (ELit (0)))) ].

Definition src_opt_lt_I32 : list effect :=
  [ (Return (ECond (ECond (ECond (ECmp CEq (EVar "rhs.val") (EVar "null_value()")) (ELit (1)) (ECond (ECmp CNe (EVar "rhs.val") (EVar "rhs.val")) (ECmp CNe (EVar "null_value()") (EVar "null_value()")) (ELit (0)))) (ELit (0)) (ELit (1))) (ECond (ECond (ECond (ECond (ECmp CEq (EVar "lhs.val") (EVar "null_value()")) (ELit (1)) (ECond (ECmp CNe (EVar "lhs.val") (EVar "lhs.val")) (ECmp CNe (EVar "null_value()") (EVar "null_value()")) (ELit (0)))) (ELit (0)) (ELit (1))) (ELit (0)) (ELit (1))) (ELit (1)) (ECmp CLt (EVar "lhs.val") (EVar "rhs.val"))) (ELit (0)))) ].

Definition src_opt_lt_I64 : list effect :=
  [ (Return (ECond (ECond (ECond (ECmp CEq (EVar "rhs.val") (EVar "null_value()")) (ELit (1)) (ECond (ECmp CNe (EVar "rhs.val") (EVar "rhs.val")) (ECmp CNe (EVar "null_value()") (EVar "null_value()")) (ELit (0)))) (ELit (0)) (ELit (1))) (ECond (ECond (ECond (ECond (ECmp CEq (EVar "lhs.val") (EVar "null_value()")) (ELit (1)) (ECond (ECmp CNe (EVar "lhs.val") (EVar "lhs.val")) (ECmp CNe (EVar "null_value()") (EVar "null_value()")) (ELit (0)))) (ELit (0)) (ELit (1))) (ELit (0)) (ELit (1))) (ELit (1)) (ECmp CLt (EVar "lhs.val") (EVar "rhs.val"))) (ELit (0)))) ].

Definition src_opt_lt_I8 : list effect :=
  [ (Return (ECond (ECond (ECond (ECmp CEq (ECast I32 (EVar "rhs.val")) (ECast I32 (EVar "null_value()"))) (ELit (1)) (ECond (ECmp CNe (ECast I32 (EVar "rhs.val")) (ECast I32 (EVar "rhs.val"))) (ECmp CNe (ECast I32 (EVar "null_value()")) (ECast I32 (EVar "null_value()"))) (ELit (0)))) (ELit (0)) (ELit (1))) (ECond (ECond (ECond (ECond (ECmp CEq (ECast I32 (EVar "lhs.val")) (ECast I32 (EVar "null_value()"))) (ELit (1)) (ECond (ECmp CNe (ECast I32 (EVar "lhs.val")) (ECast I32 (EVar "lhs.val"))) (ECmp CNe (ECast I32 (EVar "null_value()")) (ECast I32 (EVar "null_value()"))) (ELit (0)))) (ELit (0)) (ELit (1))) (ELit (0)) (ELit (1))) (ELit (1)) (ECmp CLt (ECast I32 (EVar "lhs.val")) (ECast I32 (EVar "rhs.val")))) (ELit (0)))) ].

Definition src_opt_lt_U16 : list effect :=
  [ (Return (ECond (ECond (ECond (ECmp CEq (ECast I32 (EVar "rhs.val")) (ECast I32 (EVar "null_value()"))) (ELit (1)) (ECond (ECmp CNe (ECast I32 (EVar "rhs.val")) (ECast I32 (EVar "rhs.val"))) (ECmp CNe (ECast I32 (EVar "null_value()")) (ECast I32 (EVar "null_value()"))) (ELit (0)))) (ELit (0)) (ELit (1))) (ECond (ECond (ECond (ECond (ECmp CEq (ECast I32 (EVar "lhs.val")) (ECast I32 (EVar "null_value()"))) (ELit (1)) (ECond (ECmp CNe (ECast I32 (EVar "lhs.val")) (ECast I32 (EVar "lhs.val"))) (ECmp CNe (ECast I32 (EVar "null_value()")) (ECast I32 (EVar "null_value()"))) (ELit (0)))) (ELit (0)) (ELit (1))) (ELit (0)) (ELit (1))) (ELit (1)) (ECmp CLt (ECast I32 (EVar "lhs.val")) (ECast I32 (EVar "rhs.val")))) (ELit (0)))) ].

Definition src_opt_lt_U32 : list effect :=
  [ (Return (ECond (ECond (ECond (ECmp CEq (EVar "rhs.val") (EVar "null_value()")) (ELit (1)) (ECond (ECmp CNe (EVar "rhs.val") (EVar "rhs.val")) (ECmp CNe (EVar "null_value()") (EVar "null_value()")) (ELit (0)))) (ELit (0)) (ELit (1))) (ECond (ECond (ECond (ECond (ECmp CEq (EVar "lhs.val") (EVar "null_value()")) (ELit (1)) (ECond (ECmp CNe (EVar "lhs.val") (EVar "lhs.val")) (ECmp CNe (EVar "null_value()") (EVar "null_value()")) (ELit (0)))) (ELit (0)) (ELit (1))) (ELit (0)) (ELit (1))) (ELit (1)) (ECmp CLt (EVar "lhs.val") (EVar "rhs.val"))) (ELit (0)))) ].

Definition src_opt_lt_U64 : list effect :=
  [ (Return (ECond (ECond (ECond (ECmp CEq (EVar "rhs.val") (EVar "null_value()")) (ELit (1)) (ECond (ECmp CNe (EVar "rhs.val") (EVar "rhs.val")) (ECmp CNe (EVar "null_value()") (EVar "null_value()")) (ELit (0)))) (ELit (0)) (ELit (1))) (ECond (ECond (ECond (ECond (ECmp CEq (EVar "lhs.val") (EVar "null_value()")) (ELit (1)) (ECond (ECmp CNe (EVar "lhs.val") (EVar "lhs.val")) (ECmp CNe (EVar "null_value()") (EVar "null_value()")) (ELit (0)))) (ELit (0)) (ELit (1))) (ELit (0)) (ELit (1))) (ELit (1)) (ECmp CLt (EVar "lhs.val") (EVar "rhs.val"))) (ELit (0)))) ].

Definition src_opt_lt_U8 : list effect :=
  [ (Return (ECond (ECond (ECond (ECmp CEq (ECast I32 (EVar "rhs.val")) (ECast I32 (EVar "null_value()"))) (ELit (1)) (ECond (ECmp CNe (ECast I32 (EVar "rhs.val")) (ECast I32 (EVar "rhs.val"))) (ECmp CNe (ECast I32 (EVar "null_value()")) (ECast I32 (EVar "null_value()"))) (ELit (0)))) (ELit (0)) (ELit (1))) (ECond (ECond (ECond (ECond (ECmp CEq (ECast I32 (EVar "lhs.val")) (ECast I32 (EVar "null_value()"))) (ELit (1)) (ECond (ECmp CNe (ECast I32 (EVar "lhs.val")) (ECast I32 (EVar "lhs.val"))) (ECmp CNe (ECast I32 (EVar "null_value()")) (ECast I32 (EVar "null_value()"))) (ELit (0)))) (ELit (0)) (ELit (1))) (ELit (0)) (ELit (1))) (ELit (1)) (ECmp CLt (ECast I32 (EVar "lhs.val")) (ECast I32 (EVar "rhs.val")))) (ELit (0)))) ].

Definition src_opt_ne_I16 : list effect :=
  [ (Return (ECond (ECond (ECond (ECond (ECond (ECmp CEq (ECast I32 (EVar "lhs.val")) (ECast I32 (EVar "null_value()"))) (ELit (1)) (ECond (ECmp CNe (ECast I32 (EVar "lhs.val")) (ECast I32 (EVar "lhs.val"))) (ECmp CNe (ECast I32 (EVar "null_value()")) (ECast I32 (EVar "null_value()"))) (ELit (0)))) (ELit (0)) (ELit (1))) (ECond (ECond (ECmp CEq (ECast I32 (EVar "rhs.val")) (ECast I32 (EVar "null_value()"))) (ELit (1)) (ECond (ECmp CNe (ECast I32 (EVar "rhs.val")) (ECast I32 (EVar "rhs.val"))) (ECmp CNe (ECast I32 (EVar "null_value()")) (ECast I32 (EVar "null_value()"))) (ELit (0)))) (ELit (0)) (ELit (1))) (ELit (0))) (ECmp CEq (ECast I32 (EVar "lhs.val")) (ECast I32 (EVar "rhs.val"))) (ECmp CEq (ECast I32 (ECond (ECond (ECmp CEq (ECast I32 (EVar "lhs.val")) (ECast I32 (EVar "null_value()"))) (ELit (1)) (ECond (ECmp CNe (ECast I32 (EVar "lhs.val")) (ECast I32 (EVar "lhs.val"))) (ECmp CNe (ECast I32 (EVar "null_value()")) (ECast I32 (EVar "null_value()"))) (ELit (0)))) (ELit (0)) (ELit (1)))) (ECast I32 (ECond (ECond (ECmp CEq (ECast I32 (EVar "rhs.val")) (ECast I32 (EVar "null_value()"))) (ELit (1)) (ECond (ECmp CNe (ECast I32 (EVar "rhs.val")) (ECast I32 (EVar "rhs.val"))) (ECmp CNe (ECast I32 (EVar "null_value()")) (ECast I32 (EVar "null_value()"))) (ELit (0)))) (ELit (0)) (ELit (1)))))) (ELit (0)) (ELit (1)))) ].

Definition src_opt_ne_I32 : list effect :=
  [ (Return (ECond (ECond (ECond (ECond (ECond (ECmp CEq (EVar "lhs.val") (EVar "null_value()")) (ELit (1)) (ECond (ECmp CNe (EVar "lhs.val") (EVar "lhs.val")) (ECmp CNe (EVar "null_value()") (EVar "null_value()")) (ELit (0)))) (ELit (0)) (ELit (1))) (ECond (ECond (ECmp CEq (EVar "rhs.val") (EVar "null_value()")) (ELit (1)) (ECond (ECmp CNe (EVar "rhs.val") (EVar "rhs.val")) (ECmp CNe (EVar "null_value()") (EVar "null_value()")) (ELit (0)))) (ELit (0)) (ELit (1))) (ELit (0))) (ECmp CEq (EVar "lhs.val") (EVar "rhs.val")) (ECmp CEq (ECast I32 (ECond (ECond (ECmp CEq (EVar "lhs.val") (EVar "null_value()")) (ELit (1)) (ECond (ECmp CNe (EVar "lhs.val") (EVar "lhs.val")) (ECmp CNe (EVar "null_value()") (EVar "null_value()")) (ELit (0)))) (ELit (0)) (ELit (1)))) (ECast I32 (ECond (ECond (ECmp CEq (EVar "rhs.val") (EVar "null_value()")) (ELit (1)) (ECond (ECmp CNe (EVar "rhs.val") (EVar "rhs.val")) (ECmp CNe (EVar "null_value()") (EVar "null_value()")) (ELit (0)))) (ELit (0)) (ELit (1)))))) (ELit (0)) (ELit (1)))) ].

Definition src_opt_ne_I64 : list effect :=
  [ (Return (ECond (ECond (ECond (ECond (ECond (ECmp CEq (EVar "lhs.val") (EVar "null_value()")) (ELit (1)) (ECond (ECmp CNe (EVar "lhs.val") (EVar "lhs.val")) (ECmp CNe (EVar "null_value()") (EVar "null_value()")) (ELit (0)))) (ELit (0)) (ELit (1))) (ECond (ECond (ECmp CEq (EVar "rhs.val") (EVar "null_value()")) (ELit (1)) (ECond (ECmp CNe (EVar "rhs.val") (EVar "rhs.val")) (ECmp CNe (EVar "null_value()") (EVar "null_value()")) (ELit (0)))) (ELit (0)) (ELit (1))) (ELit (0))) (ECmp CEq (EVar "lhs.val") (EVar "rhs.val")) (ECmp CEq (ECast I32 (ECond (ECond (ECmp CEq (EVar "lhs.val") (EVar "null_value()")) (ELit (1)) (ECond (ECmp CNe (EVar "lhs.val") (EVar "lhs.val")) (ECmp CNe (EVar "null_value()") (EVar "null_value()")) (ELit (0)))) (ELit (0)) (ELit (1)))) (ECast I32 (ECond (ECond (ECmp CEq (EVar "rhs.val") (EVar "null_value()")) (ELit (1)) (ECond (ECmp CNe (EVar "rhs.val") (EVar "rhs.val")) (ECmp CNe (EVar "null_value()") (EVar "null_value()")) (ELit (0)))) (ELit (0)) (ELit (1)))))) (ELit (0)) (ELit (1)))) ].

Definition src_opt_ne_I8 : list effect :=
  [ (Return (ECond (ECond (ECond (ECond (ECond (ECmp CEq (ECast I32 (EVar "lhs.val")) (ECast I32 (EVar "null_value()"))) (ELit (1)) (ECond (ECmp CNe (ECast I32 (EVar "lhs.val")) (ECast I32 (EVar "lhs.val"))) (ECmp CNe (ECast I32 (EVar "null_value()")) (ECast I32 (EVar "null_value()"))) (ELit (0)))) (ELit (0)) (ELit (1))) (ECond (ECond (ECmp CEq (ECast I32 (EVar "rhs.val")) (ECast I32 (EVar "null_value()"))) (ELit (1)) (ECond (ECmp CNe (ECast I32 (EVar "rhs.val")) (ECast I32 (EVar "rhs.val"))) (ECmp CNe (ECast I32 (EVar "null_value()")) (ECast I32 (EVar "null_value()"))) (ELit (0)))) (ELit (0)) (ELit (1))) (ELit (0))) (ECmp CEq (ECast I32 (EVar "lhs.val")) (ECast I32 (EVar "rhs.val"))) (ECmp CEq (ECast I32 (ECond (ECond (ECmp CEq (ECast I32 (EVar "lhs.val")) (ECast I32 (EVar "null_value()"))) (ELit (1)) (ECond (ECmp CNe (ECast I32 (EVar "lhs.val")) (ECast I32 (EVar "lhs.val"))) (ECmp CNe (ECast I32 (EVar "null_value()")) (ECast I32 (EVar "null_value()"))) (ELit (0)))) (ELit (0)) (ELit (1)))) (ECast I32 (ECond (ECond (ECmp CEq (ECast I32 (EVar "rhs.val")) (ECast I32 (EVar "null_value()"))) (ELit (1)) (ECond (ECmp CNe (ECast I32 (EVar "rhs.val")) (ECast I32 (EVar "rhs.val"))) (ECmp CNe (ECast I32 (EVar "null_value()")) (ECast I32 (EVar "null_value()"))) (ELit (0)))) (ELit (0)) (ELit (1)))))) (ELit (0)) (ELit (1)))) ].

Definition src_opt_ne_U16 : list effect :=
  [ (Return (ECond (ECond (ECond (ECond (ECond (ECmp CEq (ECast I32 (EVar "lhs.val")) (ECast I32 (EVar "null_value()"))) (ELit (1)) (ECond (ECmp CNe (ECast I32 (EVar "lhs.val")) (ECast I32 (EVar "lhs.val"))) (ECmp CNe (ECast I32 (EVar "null_value()")) (ECast I32 (EVar "null_value()"))) (ELit (0)))) (ELit (0)) (ELit (1))) (ECond (ECond (ECmp CEq (ECast I32 (EVar "rhs.val")) (ECast I32 (EVar "null_value()"))) (ELit (1)) (ECond (ECmp CNe (ECast I32 (EVar "rhs.val")) (ECast I32 (EVar "rhs.val"))) (ECmp CNe (ECast I32 (EVar "null_value()")) (ECast I32 (EVar "null_value()"))) (ELit (0)))) (ELit (0)) (ELit (1))) (ELit (0))) (ECmp CEq (ECast I32 (EVar "lhs.val")) (ECast I32 (EVar "rhs.val"))) (ECmp CEq (ECast I32 (ECond (ECond (ECmp CEq (ECast I32 (EVar "lhs.val")) (ECast I32 (EVar "null_value()"))) (ELit (1)) (ECond (ECmp CNe (ECast I32 (EVar "lhs.val")) (ECast I32 (EVar "lhs.val"))) (ECmp CNe (ECast I32 (EVar "null_value()")) (ECast I32 (EVar "null_value()"))) (ELit (0)))) (ELit (0)) (ELit (1)))) (ECast I32 (ECond (ECond (ECmp CEq (ECast I32 (EVar "rhs.val")) (ECast I32 (EVar "null_value()"))) (ELit (1)) (ECond (ECmp CNe (ECast I32 (EVar "rhs.val")) (ECast I32 (EVar "rhs.val"))) (ECmp CNe (ECast I32 (EVar "null_value()")) (ECast I32 (EVar "null_value()"))) (ELit (0)))) (ELit (0)) (ELit (1)))))) (ELit (0)) (ELit (1)))) ].

Definition src_opt_ne_U32 : list effect :=
  [ (Return (ECond (ECond (ECond (ECond (ECond (ECmp CEq (EVar "lhs.val") (EVar "null_value()")) (ELit (1)) (ECond (ECmp CNe (EVar "lhs.val") (EVar "lhs.val")) (ECmp CNe (EVar "null_value()") (EVar "null_value()")) (ELit (0)))) (ELit (0)) (ELit (1))) (ECond (ECond (ECmp CEq (EVar "rhs.val") (EVar "null_value()")) (ELit (1)) (ECond (ECmp CNe (EVar "rhs.val") (EVar "rhs.val")) (ECmp CNe (EVar "null_value()") (EVar "null_value()")) (ELit (0)))) (ELit (0)) (ELit (1))) (ELit (0))) (ECmp CEq (EVar "lhs.val") (EVar "rhs.val")) (ECmp CEq (ECast I32 (ECond (ECond (ECmp CEq (EVar "lhs.val") (EVar "null_value()")) (ELit (1)) (ECond (ECmp CNe (EVar "lhs.val") (EVar "lhs.val")) (ECmp CNe (EVar "null_value()") (EVar "null_value()")) (ELit (0)))) (ELit (0)) (ELit (1)))) (ECast I32 (ECond (ECond (ECmp CEq (EVar "rhs.val") (EVar "null_value()")) (ELit (1)) (ECond (ECmp CNe (EVar "rhs.val") (EVar "rhs.val")) (ECmp CNe (EVar "null_value()") (EVar "null_value()")) (ELit (0)))) (ELit (0)) (ELit (1)))))) (ELit (0)) (ELit (1)))) ].

Definition src_opt_ne_U64 : list effect :=
  [ (Return (ECond (ECond (ECond (ECond (ECond (ECmp CEq (EVar "lhs.val") (EVar "null_value()")) (ELit (1)) (ECond (ECmp CNe (EVar "lhs.val") (EVar "lhs.val")) (ECmp CNe (EVar "null_value()") (EVar "null_value()")) (ELit (0)))) (ELit (0)) (ELit (1))) (ECond (ECond (ECmp CEq (EVar "rhs.val") (EVar "null_value()")) (ELit (1)) (ECond (ECmp CNe (EVar "rhs.val") (EVar "rhs.val")) (ECmp CNe (EVar "null_value()") (EVar "null_value()")) (ELit (0)))) (ELit (0)) (ELit (1))) (ELit (0))) (ECmp CEq (EVar "lhs.val") (EVar "rhs.val")) (ECmp CEq (ECast I32 (ECond (ECond (ECmp CEq (EVar "lhs.val") (EVar "null_value()")) (ELit (1)) (ECond (ECmp CNe (EVar "lhs.val") (EVar "lhs.val")) (ECmp CNe (EVar "null_value()") (EVar "null_value()")) (ELit (0)))) (ELit (0)) (ELit (1)))) (ECast I32 (ECond (ECond (ECmp CEq (EVar "rhs.val") (EVar "null_value()")) (ELit (1)) (ECond (ECmp CNe (EVar "rhs.val") (EVar "rhs.val")) (ECmp CNe (EVar "null_value()") (EVar "null_value()")) (ELit (0)))) (ELit (0)) (ELit (1)))))) (ELit (0)) (ELit (1)))) ].

Definition src_opt_ne_U8 : list effect :=
  [ (Return (ECond (ECond (ECond (ECond (ECond (ECmp CEq (ECast I32 (EVar "lhs.val")) (ECast I32 (EVar "null_value()"))) (ELit (1)) (ECond (ECmp CNe (ECast I32 (EVar "lhs.val")) (ECast I32 (EVar "lhs.val"))) (ECmp CNe (ECast I32 (EVar "null_value()")) (ECast I32 (EVar "null_value()"))) (ELit (0)))) (ELit (0)) (ELit (1))) (ECond (ECond (ECmp CEq (ECast I32 (EVar "rhs.val")) (ECast I32 (EVar "null_value()"))) (ELit (1)) (ECond (ECmp CNe (ECast I32 (EVar "rhs.val")) (ECast I32 (EVar "rhs.val"))) (ECmp CNe (ECast I32 (EVar "null_value()")) (ECast I32 (EVar "null_value()"))) (ELit (0)))) (ELit (0)) (ELit (1))) (ELit (0))) (ECmp CEq (ECast I32 (EVar "lhs.val")) (ECast I32 (EVar "rhs.val"))) (ECmp CEq (ECast I32 (ECond (ECond (ECmp CEq (ECast I32 (EVar "lhs.val")) (ECast I32 (EVar "null_value()"))) (ELit (1)) (ECond (ECmp CNe (ECast I32 (EVar "lhs.val")) (ECast I32 (EVar "lhs.val"))) (ECmp CNe (ECast I32 (EVar "null_value()")) (ECast I32 (EVar "null_value()"))) (ELit (0)))) (ELit (0)) (ELit (1)))) (ECast I32 (ECond (ECond (ECmp CEq (ECast I32 (EVar "rhs.val")) (ECast I32 (EVar "null_value()"))) (ELit (1)) (ECond (ECmp CNe (ECast I32 (EVar "rhs.val")) (ECast I32 (EVar "rhs.val"))) (ECmp CNe (ECast I32 (EVar "null_value()")) (ECast I32 (EVar "null_value()"))) (ELit (0)))) (ELit (0)) (ELit (1)))))) (ELit (0)) (ELit (1)))) ].

Definition src_req_eq_I16 : list effect :=
  [ (Return (ECmp CEq (ECast I32 (EVar "lhs.val")) (ECast I32 (EVar "rhs.val")))) ].

Definition src_req_eq_I32 : list effect :=
  [ (Return (ECmp CEq (EVar "lhs.val") (EVar "rhs.val"))) ].

Definition src_req_eq_I64 : list effect :=
  [ (Return (ECmp CEq (EVar "lhs.val") (EVar "rhs.val"))) ].

Definition src_req_eq_I8 : list effect :=
  [ (Return (ECmp CEq (ECast I32 (EVar "lhs.val")) (ECast I32 (EVar "rhs.val")))) ].

Definition src_req_eq_U16 : list effect :=
  [ (Return (ECmp CEq (ECast I32 (EVar "lhs.val")) (ECast I32 (EVar "rhs.val")))) ].

Definition src_req_eq_U32 : list effect :=
  [ (Return (ECmp CEq (EVar "lhs.val") (EVar "rhs.val"))) ].

Definition src_req_eq_U64 : list effect :=
  [ (Return (ECmp CEq (EVar "lhs.val") (EVar "rhs.val"))) ].

Definition src_req_eq_U8 : list effect :=
  [ (Return (ECmp CEq (ECast I32 (EVar "lhs.val")) (ECast I32 (EVar "rhs.val")))) ].

Definition src_req_ge_I16 : list effect :=
  [ (Return (ECmp CGe (ECast I32 (EVar "lhs.val")) (ECast I32 (EVar "rhs.val")))) ].

Definition src_req_ge_I32 : list effect :=
  [ (Return (ECmp CGe (EVar "lhs.val") (EVar "rhs.val"))) ].

Definition src_req_ge_I64 : list effect :=
  [ (Return (ECmp CGe (EVar "lhs.val") (EVar "rhs.val"))) ].

Definition src_req_ge_I8 : list effect :=
  [ (Return (ECmp CGe (ECast I32 (EVar "lhs.val")) (ECast I32 (EVar "rhs.val")))) ].

Definition src_req_ge_U16 : list effect :=
  [ (Return (ECmp CGe (ECast I32 (EVar "lhs.val")) (ECast I32 (EVar "rhs.val")))) ].

Definition src_req_ge_U32 : list effect :=
  [ (Return (ECmp CGe (EVar "lhs.val") (EVar "rhs.val"))) ].

Definition src_req_ge_U64 : list effect :=
  [ (Return (ECmp CGe (EVar "lhs.val") (EVar "rhs.val"))) ].

Definition src_req_ge_U8 : list effect :=
  [ (Return (ECmp CGe (ECast I32 (EVar "lhs.val")) (ECast I32 (EVar "rhs.val")))) ].

Definition src_req_gt_I16 : list effect :=
  [ (Return (ECmp CGt (ECast I32 (EVar "lhs.val")) (ECast I32 (EVar "rhs.val")))) ].

Definition src_req_gt_I32 : list effect :=
  [ (Return (ECmp CGt (EVar "lhs.val") (EVar "rhs.val"))) ].

Definition src_req_gt_I64 : list effect :=
  [ (Return (ECmp CGt (EVar "lhs.val") (EVar "rhs.val"))) ].

Definition src_req_gt_I8 : list effect :=
  [ (Return (ECmp CGt (ECast I32 (EVar "lhs.val")) (ECast I32 (EVar "rhs.val")))) ].

Definition src_req_gt_U16 : list effect :=
  [ (Return (ECmp CGt (ECast I32 (EVar "lhs.val")) (ECast I32 (EVar "rhs.val")))) ].

Definition src_req_gt_U32 : list effect :=
  [ (Return (ECmp CGt (EVar "lhs.val") (EVar "rhs.val"))) ].

Definition src_req_gt_U64 : list effect :=
  [ (Return (ECmp CGt (EVar "lhs.val") (EVar "rhs.val"))) ].

Definition src_req_gt_U8 : list effect :=
  [ (Return (ECmp CGt (ECast I32 (EVar "lhs.val")) (ECast I32 (EVar "rhs.val")))) ].

Definition src_req_in_range_I16 : list effect :=
  [ (Return (ECond (ECmp CLe (ECast I32 (EVar "min_value()")) (ECast I32 (EVar "val"))) (ECmp CLe (ECast I32 (EVar "val")) (ECast I32 (EVar "max_value()"))) (ELit (0)))) ].

Definition src_req_in_range_I32 : list effect :=
  [ (Return (ECond (ECmp CLe (EVar "min_value()") (EVar "val")) (ECmp CLe (EVar "val") (EVar "max_value()")) (ELit (0)))) ].

Definition src_req_in_range_I64 : list effect :=
  [ (Return (ECond (ECmp CLe (EVar "min_value()") (EVar "val")) (ECmp CLe (EVar "val") (EVar "max_value()")) (ELit (0)))) ].

Definition src_req_in_range_I8 : list effect :=
  [ (Return (ECond (ECmp CLe (ECast I32 (EVar "min_value()")) (ECast I32 (EVar "val"))) (ECmp CLe (ECast I32 (EVar "val")) (ECast I32 (EVar "max_value()"))) (ELit (0)))) ].

Definition src_req_in_range_U16 : list effect :=
  [ (Return (ECond (ECmp CLe (ECast I32 (EVar "min_value()")) (ECast I32 (EVar "val"))) (ECmp CLe (ECast I32 (EVar "val")) (ECast I32 (EVar "max_value()"))) (ELit (0)))) ].

Definition src_req_in_range_U32 : list effect :=
  [ (Return (ECond (ECmp CLe (EVar "min_value()") (EVar "val")) (ECmp CLe (EVar "val") (EVar "max_value()")) (ELit (0)))) ].

Definition src_req_in_range_U64 : list effect :=
  [ (Return (ECond (ECmp CLe (EVar "min_value()") (EVar "val")) (ECmp CLe (EVar "val") (EVar "max_value()")) (ELit (0)))) ].

Definition src_req_in_range_U8 : list effect :=
  [ (Return (ECond (ECmp CLe (ECast I32 (EVar "min_value()")) (ECast I32 (EVar "val"))) (ECmp CLe (ECast I32 (EVar "val")) (ECast I32 (EVar "max_value()"))) (ELit (0)))) ].

Definition src_req_le_I16 : list effect :=
  [ (Return (ECmp CLe (ECast I32 (EVar "lhs.val")) (ECast I32 (EVar "rhs.val")))) ].

Definition src_req_le_I32 : list effect :=
  [ (Return (ECmp CLe (EVar "lhs.val") (EVar "rhs.val"))) ].

Definition src_req_le_I64 : list effect :=
  [ (Return (ECmp CLe (EVar "lhs.val") (EVar "rhs.val"))) ].

Definition src_req_le_I8 : list effect :=
  [ (Return (ECmp CLe (ECast I32 (EVar "lhs.val")) (ECast I32 (EVar "rhs.val")))) ].

Definition src_req_le_U16 : list effect :=
  [ (Return (ECmp CLe (ECast I32 (EVar "lhs.val")) (ECast I32 (EVar "rhs.val")))) ].

Definition src_req_le_U32 : list effect :=
  [ (Return (ECmp CLe (EVar "lhs.val") (EVar "rhs.val"))) ].

Definition src_req_le_U64 : list effect :=
  [ (Return (ECmp CLe (EVar "lhs.val") (EVar "rhs.val"))) ].

Definition src_req_le_U8 : list effect :=
  [ (Return (ECmp CLe (ECast I32 (EVar "lhs.val")) (ECast I32 (EVar "rhs.val")))) ].

Definition src_req_lt_I16 : list effect :=
  [ (Return (ECmp CLt (ECast I32 (EVar "lhs.val")) (ECast I32 (EVar "rhs.val")))) ].

Definition src_req_lt_I32 : list effect :=
  [ (Return (ECmp CLt (EVar "lhs.val") (EVar "rhs.val"))) ].

Definition src_req_lt_I64 : list effect :=
  [ (Return (ECmp CLt (EVar "lhs.val") (EVar "rhs.val"))) ].

Definition src_req_lt_I8 : list effect :=
  [ (Return (ECmp CLt (ECast I32 (EVar "lhs.val")) (ECast I32 (EVar "rhs.val")))) ].

Definition src_req_lt_U16 : list effect :=
  [ (Return (ECmp CLt (ECast I32 (EVar "lhs.val")) (ECast I32 (EVar "rhs.val")))) ].

Definition src_req_lt_U32 : list effect :=
  [ (Return (ECmp CLt (EVar "lhs.val") (EVar "rhs.val"))) ].

Definition src_req_lt_U64 : list effect :=
  [ (Return (ECmp CLt (EVar "lhs.val") (EVar "rhs.val"))) ].

Definition src_req_lt_U8 : list effect :=
  [ (Return (ECmp CLt (ECast I32 (EVar "lhs.val")) (ECast I32 (EVar "rhs.val")))) ].

Definition src_req_ne_I16 : list effect :=
  [ (Return (ECmp CNe (ECast I32 (EVar "lhs.val")) (ECast I32 (EVar "rhs.val")))) ].

Definition src_req_ne_I32 : list effect :=
  [ (Return (ECmp CNe (EVar "lhs.val") (EVar "rhs.val"))) ].

Definition src_req_ne_I64 : list effect :=
  [ (Return (ECmp CNe (EVar "lhs.val") (EVar "rhs.val"))) ].

Definition src_req_ne_I8 : list effect :=
  [ (Return (ECmp CNe (ECast I32 (EVar "lhs.val")) (ECast I32 (EVar "rhs.val")))) ].

Definition src_req_ne_U16 : list effect :=
  [ (Return (ECmp CNe (ECast I32 (EVar "lhs.val")) (ECast I32 (EVar "rhs.val")))) ].

Definition src_req_ne_U32 : list effect :=
  [ (Return (ECmp CNe (EVar "lhs.val") (EVar "rhs.val"))) ].

Definition src_req_ne_U64 : list effect :=
  [ (Return (ECmp CNe (EVar "lhs.val") (EVar "rhs.val"))) ].

Definition src_req_ne_U8 : list effect :=
  [ (Return (ECmp CNe (ECast I32 (EVar "lhs.val")) (ECast I32 (EVar "rhs.val")))) ].

Definition src_set_bit_U16 : list effect :=
  [ (Store "bits" (ECast U16 (EBin OOr I32 (EBin OAnd I32 (ECast I32 (EVar "bits")) (ENot I32 (EShl I32 (ECast I32 (ECast U16 (ELit (1)))) (ECast I32 (EVar "n"))))) (EShl I32 (ECast I32 (ECast U16 (EVar "b"))) (ECast I32 (EVar "n")))))) ].

Definition src_set_bit_U32 : list effect :=
  [ (Store "bits" (EBin OOr U32 (EBin OAnd U32 (EVar "bits") (ENot U32 (EShl U32 (ECast U32 (ELit (1))) (ECast I32 (EVar "n"))))) (EShl U32 (ECast U32 (EVar "b")) (ECast I32 (EVar "n"))))) ].

Definition src_set_bit_U64 : list effect :=
  [ (Store "bits" (EBin OOr U64 (EBin OAnd U64 (EVar "bits") (ENot U64 (EShl U64 (ECast U64 (ELit (1))) (ECast I32 (EVar "n"))))) (EShl U64 (ECast U64 (EVar "b")) (ECast I32 (EVar "n"))))) ].

Definition src_set_bit_U8 : list effect :=
  [ (Store "bits" (ECast U8 (EBin OOr I32 (EBin OAnd I32 (ECast I32 (EVar "bits")) (ENot I32 (EShl I32 (ECast I32 (ECast U8 (ELit (1)))) (ECast I32 (EVar "n"))))) (EShl I32 (ECast I32 (ECast U8 (EVar "b"))) (ECast I32 (EVar "n")))))) ].

Definition src_set_eq_U16 : list effect :=
  [ (Return (ECmp CEq (ECast I32 (EVar "lhs.bits")) (ECast I32 (EVar "rhs.bits")))) ].

Definition src_set_eq_U32 : list effect :=
  [ (Return (ECmp CEq (EVar "lhs.bits") (EVar "rhs.bits"))) ].

Definition src_set_eq_U64 : list effect :=
  [ (Return (ECmp CEq (EVar "lhs.bits") (EVar "rhs.bits"))) ].

Definition src_set_eq_U8 : list effect :=
  [ (Return (ECmp CEq (ECast I32 (EVar "lhs.bits")) (ECast I32 (EVar "rhs.bits")))) ].

Definition src_set_ne_U16 : list effect :=
  [ (Return (ECmp CNe (ECast I32 (EVar "lhs.bits")) (ECast I32 (EVar "rhs.bits")))) ].

Definition src_set_ne_U32 : list effect :=
  [ (Return (ECmp CNe (EVar "lhs.bits") (EVar "rhs.bits"))) ].

Definition src_set_ne_U64 : list effect :=
  [ (Return (ECmp CNe (EVar "lhs.bits") (EVar "rhs.bits"))) ].

Definition src_set_ne_U8 : list effect :=
  [ (Return (ECmp CNe (ECast I32 (EVar "lhs.bits")) (ECast I32 (EVar "rhs.bits")))) ].

Definition src_size_check_macro : list effect :=
  [ (Assert (ECond (ECond (EToBool (EVar "begin")) (ECmp CLe (EVar "begin") (EVar "end")) (ELit (0))) (ECond (ECmp CLe (EVar "size") (ECast U64 (EBin OSub I64 (EVar "end") (EVar "begin")))) (ECmp CLe (EVar "offset") (EBin OSub U64 (ECast U64 (EBin OSub I64 (EVar "end") (EVar "begin"))) (EVar "size"))) (ELit (0))) (ELit (0)))) ].
