(* ValidateProofs.v — proofs about Rules.v / Validate.v (C08):
     validate_iff_rules   validate s = VOk _  <->  rules_ok s = true
     accepted_no_overlap  accepted schemas have in-order, in-block layouts
     validate_total       validate never crashes and never runs out of fuel *)
From Coq Require Import ZArith List Bool Lia.
From Sbepp Require Import Bytes Rules Validate.
Import ListNotations.
Local Open Scope Z_scope.
#[local] Arguments Z.mul : simpl never.
#[local] Arguments Z.add : simpl never.
#[local] Arguments Z.sub : simpl never.
#[local] Arguments Z.pow : simpl never.

(* ------------------------------------------------------------------ *)
(* outcomes                                                            *)
(* ------------------------------------------------------------------ *)

Lemma bind_ok {A B} (x : voutcome A) (f : A -> voutcome B) b :
  bind x f = VOk b -> exists a, x = VOk a /\ f a = VOk b.
Proof. destruct x; simpl; intros H; try discriminate. eauto. Qed.

Lemma check_ok b c u : check b c = VOk u <-> b = true.
Proof. unfold check. destruct b; split; intros H; try discriminate; auto. destruct u; auto. Qed.

Lemma check_true c : check true c = VOk tt.
Proof. reflexivity. Qed.

(* an outcome that is neither a crash nor fuel exhaustion *)
Definition regular {A} (x : voutcome A) : Prop :=
  match x with VOk _ | VErr _ => True | _ => False end.

Lemma regular_bind {A B} (x : voutcome A) (f : A -> voutcome B) :
  regular x -> (forall a, x = VOk a -> regular (f a)) -> regular (bind x f).
Proof. destruct x; simpl; auto. Qed.

Lemma regular_check b c : regular (check b c).
Proof. destruct b; simpl; auto. Qed.

Lemma regular_ok {A} (a : A) : regular (VOk a).
Proof. exact I. Qed.

Lemma regular_err {A} c : regular (@VErr A c).
Proof. exact I. Qed.

Ltac inv_bind H :=
  let a := fresh "a" in let Ha := fresh "Ha" in
  apply bind_ok in H; destruct H as [a [Ha H]].

(* ------------------------------------------------------------------ *)
(* strings, membership, uniqueness                                      *)
(* ------------------------------------------------------------------ *)

Lemma str_eqb_eq a b : str_eqb a b = true <-> a = b.
Proof.
  revert b. induction a as [|x a IH]; intros [|y b]; simpl; split; intros H; try discriminate; auto.
  - apply andb_true_iff in H. destruct H as [H1 H2]. apply Z.eqb_eq in H1. apply IH in H2. congruence.
  - inversion H; subst. rewrite Z.eqb_refl. simpl. apply IH. reflexivity.
Qed.

Lemma str_eqb_refl a : str_eqb a a = true.
Proof. apply str_eqb_eq. reflexivity. Qed.

Lemma str_eqb_neq a b : str_eqb a b = false <-> a <> b.
Proof.
  split; intros H.
  - intros E. apply str_eqb_eq in E. congruence.
  - destruct (str_eqb a b) eqn:E; auto. apply str_eqb_eq in E. contradiction.
Qed.

Lemma mem_str_In x l : mem_str x l = true <-> In x l.
Proof.
  unfold mem_str. rewrite existsb_exists. split.
  - intros [y [Hy E]]. apply str_eqb_eq in E. subst. exact Hy.
  - intros H. exists x. split; auto. apply str_eqb_refl.
Qed.

Lemma mem_str_false x l : mem_str x l = false <-> ~ In x l.
Proof.
  split; intros H.
  - intros HI. apply mem_str_In in HI. congruence.
  - destruct (mem_str x l) eqn:E; auto. apply mem_str_In in E. contradiction.
Qed.

Lemma nodup_str_NoDup l : nodup_str l = true <-> NoDup l.
Proof.
  induction l as [|x l IH]; simpl.
  - split; auto. intros _. constructor.
  - rewrite andb_true_iff, negb_true_iff, mem_str_false, IH. split.
    + intros [H1 H2]. constructor; auto.
    + intros H. inversion H; auto.
Qed.

Lemma mem_z_In x l : mem_z x l = true <-> In x l.
Proof.
  induction l as [|y l IH]; simpl.
  - split; [discriminate | tauto].
  - rewrite orb_true_iff, Z.eqb_eq, IH. split; intros [H|H]; auto.
Qed.

Lemma nodup_z_NoDup l : nodup_z l = true <-> NoDup l.
Proof.
  induction l as [|x l IH]; simpl.
  - split; auto. intros _. constructor.
  - rewrite andb_true_iff, negb_true_iff, IH. split.
    + intros [H1 H2]. constructor; auto. intros HI. apply mem_z_In in HI. congruence.
    + intros H. inversion H; subst. split; auto.
      destruct (mem_z x l) eqn:E; auto. apply mem_z_In in E. contradiction.
Qed.

Lemma p_unique_spec l : forall seen,
  p_unique seen l = VOk tt <-> NoDup l /\ (forall x, In x l -> ~ In x seen).
Proof.
  induction l as [|x l IH]; intros seen; simpl.
  - split; [intros _; split; [constructor | tauto] | reflexivity].
  - destruct (mem_str x seen) eqn:E.
    + split; [discriminate|]. intros [_ H]. apply mem_str_In in E. exfalso. apply (H x); auto.
    + apply mem_str_false in E. rewrite IH. split.
      * intros [ND H]. split.
        -- constructor; auto. intros HI. apply (H x HI). left; auto.
        -- intros y [<-|Hy]; auto. intros HI. apply (H y Hy). right; auto.
      * intros [ND H]. inversion ND; subst. split; auto.
        intros y Hy [<-|HI]; auto. apply (H y); auto.
Qed.

Lemma p_unique_nil l : p_unique [] l = VOk tt <-> NoDup l.
Proof. rewrite p_unique_spec. split; [tauto|]. intros H; split; auto. Qed.

Lemma p_unique_regular l : forall seen, regular (p_unique seen l).
Proof.
  induction l as [|x l IH]; intros seen; simpl; auto.
  destruct (mem_str x seen); simpl; auto.
Qed.

Lemma p_unique_z_spec l : forall seen,
  p_unique_z seen l = VOk tt <-> NoDup l /\ (forall x, In x l -> ~ In x seen).
Proof.
  induction l as [|x l IH]; intros seen; simpl.
  - split; [intros _; split; [constructor | tauto] | reflexivity].
  - destruct (mem_z x seen) eqn:E.
    + split; [discriminate|]. intros [_ H]. apply mem_z_In in E. exfalso. apply (H x); auto.
    + assert (E' : ~ In x seen) by (intros HI; apply mem_z_In in HI; congruence).
      rewrite IH. split.
      * intros [ND H]. split.
        -- constructor; auto. intros HI. apply (H x HI). left; auto.
        -- intros y [<-|Hy]; auto. intros HI. apply (H y Hy). right; auto.
      * intros [ND H]. inversion ND; subst. split; auto.
        intros y Hy [<-|HI]; auto. apply (H y); auto.
Qed.

(* ------------------------------------------------------------------ *)
(* induction over nested elements                                      *)
(* ------------------------------------------------------------------ *)

Section ElementInd.
  Variable P : element_def -> Prop.
  Hypothesis HT : forall t, P (EType t).
  Hypothesis HE : forall e, P (EEnum e).
  Hypothesis HS : forall s, P (ESet s).
  Hypothesis HR : forall n ty o, P (ERef n ty o).
  Hypothesis HC : forall n o els, Forall P els -> P (EComposite n o els).

  Fixpoint element_ind' (e : element_def) : P e :=
    match e with
    | EType t => HT t
    | EEnum en => HE en
    | ESet s => HS s
    | ERef n ty o => HR n ty o
    | EComposite n o els =>
      HC n o els ((fix go (els : list element_def) : Forall P els :=
                     match els with
                     | [] => Forall_nil P
                     | m :: r => Forall_cons m (element_ind' m) (go r)
                     end) els)
    end.
End ElementInd.

(* the nested elements of a composite, flattened *)
Fixpoint flatten_list (els : list element_def) : list element_def :=
  match els with [] => [] | m :: r => flatten m ++ flatten_list r end.

Lemma flatten_composite n o els :
  flatten (EComposite n o els) = EComposite n o els :: flatten_list els.
Proof.
  reflexivity.
Qed.

Lemma flatten_list_flat_map els : flatten_list els = flat_map flatten els.
Proof. induction els as [|m r IH]; simpl; [reflexivity | rewrite IH; reflexivity]. Qed.

Lemma flatten_self e : In e (flatten e).
Proof. destruct e; simpl; auto. Qed.

(* ------------------------------------------------------------------ *)
(* local validators = local rules                                      *)
(* ------------------------------------------------------------------ *)

Ltac dmatch :=
  match goal with
  | |- context [match ?x with _ => _ end] => destruct x eqn:?
  | H : context [match ?x with _ => _ end] |- _ => destruct x eqn:?
  end.

Lemma find_value_ref_spec env r ev :
  v_find_value_ref env r = VOk ev <-> resolve_value_ref env r = Some ev.
Proof.
  unfold v_find_value_ref, resolve_value_ref.
  destruct (split_dot r) as [[en vn]|]; [|split; discriminate].
  destruct (is_empty en || is_empty vn)%bool; [split; discriminate|].
  destruct (get_encoding env en) as [[t|e|s|n ty o|n o els]|]; try (split; discriminate).
  destruct (find_value (e_values e) vn); split; intros H; inversion H; auto.
Qed.

Lemma find_value_ref_regular env r : regular (v_find_value_ref env r).
Proof.
  unfold v_find_value_ref.
  destruct (split_dot r) as [[en vn]|]; simpl; auto.
  destruct (is_empty en || is_empty vn)%bool; simpl; auto.
  destruct (get_encoding env en) as [[t|e|s|n ty o|n o els]|]; simpl; auto.
  destruct (find_value (e_values e) vn); simpl; auto.
Qed.

Lemma value_ref_ok_spec env r p :
  value_ref_ok env r p = true <->
  exists ev, v_find_value_ref env r = VOk ev /\ enum_value_fits (fst ev) (snd ev) p = true.
Proof.
  unfold value_ref_ok. split.
  - destruct (resolve_value_ref env r) as [[e v]|] eqn:E; [|discriminate].
    intros H. exists (e, v). split; auto. apply find_value_ref_spec; auto.
  - intros [[e v] [H1 H2]]. apply find_value_ref_spec in H1. rewrite H1. exact H2.
Qed.

Lemma v_opt_value_spec o p u : v_opt_value o p = VOk u <-> opt_fits o p = true.
Proof. destruct o; simpl; [apply check_ok | split; auto; destruct u; auto]. Qed.

Lemma v_opt_value_regular o p : regular (v_opt_value o p).
Proof. destruct o; simpl; auto. apply regular_check. Qed.

Lemma v_constant_value_spec env t p u :
  v_constant_value env t p = VOk u <->
  match t_vref t, t_const t with
  | Some r, None => (value_ref_ok env r p && (t_length t =? 1))%bool
  | None, Some v =>
    match p with
    | PChar => v_len v <=? t_length t
    | _ => (value_fits v p && (t_length t =? 1))%bool
    end
  | _, _ => false
  end = true.
Proof.
  unfold v_constant_value. destruct u.
  destruct (t_vref t) as [r|], (t_const t) as [v|]; try (split; discriminate).
  - rewrite andb_true_iff, value_ref_ok_spec. split.
    + intros H. inv_bind H. inv_bind H. apply check_ok in Ha0. apply check_ok in H. eauto.
    + intros [[ev [H1 H2]] H3]. rewrite H1. simpl. rewrite H2. simpl. rewrite H3. reflexivity.
  - assert (G : forall q, (check (value_fits v q) ValueNotRepresentable;;; check (t_length t =? 1) BadConstant) = VOk tt
                     <-> (value_fits v q && (t_length t =? 1))%bool = true).
    { intros q. destruct (value_fits v q), (t_length t =? 1); simpl; split; auto; discriminate. }
    destruct p; try apply G.
    rewrite check_ok, negb_true_iff, Z.ltb_ge, Z.leb_le. tauto.
Qed.

Lemma v_constant_value_regular env t p : regular (v_constant_value env t p).
Proof.
  unfold v_constant_value.
  destruct (t_vref t) as [r|], (t_const t) as [v|]; simpl; auto.
  - apply regular_bind; [apply find_value_ref_regular|]. intros.
    apply regular_bind; [apply regular_check|]. intros. apply regular_check.
  - destruct p; try (apply regular_bind; [apply regular_check|]; intros; apply regular_check).
    apply regular_check.
Qed.

Definition type_size (t : type_def) : option Z :=
  match prim_of_name (t_prim t) with Some p => Some (t_length t * psize p) | None => None end.

Lemma v_type_spec env t z :
  v_type env t = VOk z <->
  is_symbolic (t_name t) = true /\ type_sem env t = true /\ type_size t = Some z.
Proof.
  unfold v_type, type_sem, type_size, v_name.
  destruct (is_symbolic (t_name t)); simpl; [|split; [discriminate | intros [? _]; discriminate]].
  destruct (prim_of_name (t_prim t)) as [p|]; [|split; [discriminate | intros [_ [? _]]; discriminate]].
  assert (R : forall (x : voutcome unit) (b : bool),
             (forall u, x = VOk u <-> b = true) ->
             ((x ;;; VOk (t_length t * psize p)) = VOk z <->
              true = true /\ b = true /\ Some (t_length t * psize p) = Some z)).
  { intros x b Hx. split.
    - intros H. inv_bind H. inversion H; subst. split; auto. split; auto. apply (Hx a); auto.
    - intros [_ [Hb Hz]]. injection Hz as <-. destruct (Hx tt) as [_ Hx']. rewrite (Hx' Hb). reflexivity. }
  destruct (t_presence t) eqn:EP.
  - apply R. intros u. destruct (t_length t =? 1).
    + split.
      * intros H. inv_bind H. inv_bind H. apply v_opt_value_spec in Ha, Ha0. rewrite Ha, Ha0. reflexivity.
      * intros H. rewrite !andb_true_iff in H. destruct H as [[H1 H2] _].
        apply (v_opt_value_spec _ _ tt) in H1, H2. rewrite H1. simpl. rewrite H2. simpl. destruct u; auto.
    + apply check_ok.
  - apply R. intros u. destruct (t_length t =? 1).
    + split.
      * intros H. inv_bind H. inv_bind H. apply v_opt_value_spec in Ha, Ha0, H. rewrite Ha, Ha0, H. reflexivity.
      * intros H. rewrite !andb_true_iff in H. destruct H as [[H1 H2] H3].
        apply (v_opt_value_spec _ _ tt) in H1, H2. apply (v_opt_value_spec _ _ u) in H3.
        rewrite H1. simpl. rewrite H2. simpl. exact H3.
    + apply check_ok.
  - apply R. intros u. apply v_constant_value_spec.
Qed.

Lemma v_type_regular env t : regular (v_type env t).
Proof.
  unfold v_type. apply regular_bind; [apply regular_check|]. intros _ _.
  destruct (prim_of_name (t_prim t)); simpl; auto.
  apply regular_bind; [|intros; exact I].
  destruct (t_presence t).
  - destruct (t_length t =? 1); [|apply regular_check].
    apply regular_bind; [apply v_opt_value_regular|]; intros.
    apply regular_bind; [apply v_opt_value_regular|]; intros. simpl. auto.
  - destruct (t_length t =? 1); [|apply regular_check].
    apply regular_bind; [apply v_opt_value_regular|]; intros.
    apply regular_bind; [apply v_opt_value_regular|]; intros. simpl. apply v_opt_value_regular.
  - apply v_constant_value_regular.
Qed.

Lemma v_encoding_type_spec env ty pn :
  v_encoding_type env ty = VOk pn <-> encoding_prim_name env ty = Some pn.
Proof.
  unfold v_encoding_type, encoding_prim_name.
  destruct (prim_of_name ty); [split; intros H; inversion H; auto|].
  destruct (get_encoding env ty) as [[t|e|s|n ty' o|n o els]|]; try (split; discriminate).
  destruct (t_length t =? 1); split; intros H; inversion H; auto.
Qed.

Lemma v_encoding_type_regular env ty : regular (v_encoding_type env ty).
Proof.
  unfold v_encoding_type. destruct (prim_of_name ty); simpl; auto.
  destruct (get_encoding env ty) as [[t|e|s|n ty' o|n o els]|]; simpl; auto.
  destruct (t_length t =? 1); simpl; auto.
Qed.

Definition value_check (p : prim) (nv : str * value_text) : bool :=
  match p with PChar => v_len (snd nv) =? 1 | _ => value_fits (snd nv) p end.

Definition v_vals (p : prim) : list (str * value_text) -> voutcome unit :=
  fix vals (l : list (str * value_text)) : voutcome unit :=
  match l with
  | [] => VOk tt
  | (n, v) :: r =>
    v_name n ;;;
    check (match p with PChar => v_len v =? 1 | _ => value_fits v p end) ValueNotRepresentable ;;;
    vals r
  end.

Lemma v_vals_spec p l :
  v_vals p l = VOk tt <->
  forallb is_symbolic (map fst l) = true /\ forallb (value_check p) l = true.
Proof.
  induction l as [|[n v] l IH]; simpl; [tauto|].
  unfold v_name. destruct (is_symbolic n); simpl; [|split; [discriminate | intros [? _]; discriminate]].
  unfold value_check at 1. simpl.
  destruct (match p with PChar => v_len v =? 1 | _ => value_fits v p end); simpl;
    [|split; [discriminate | intros [_ ?]; discriminate]].
  exact IH.
Qed.

Lemma v_vals_regular p l : regular (v_vals p l).
Proof.
  induction l as [|[n v] l IH]; simpl; auto.
  apply regular_bind; [apply regular_check|]; intros.
  apply regular_bind; [apply regular_check|]; intros. exact IH.
Qed.

Lemma v_enum_unfold env e :
  v_enum env e =
  (v_name (e_name e) ;;;
   pn <- v_encoding_type env (e_type e) ;;
   match prim_of_name pn with
   | None => VErr BadEncodingType
   | Some p => check (negb (is_fp p)) BadEncodingType ;;; v_vals p (e_values e) ;;; VOk (psize p)
   end).
Proof. reflexivity. Qed.

Lemma enum_sem_unfold env e :
  enum_sem env e =
  match encoding_prim env (e_type e) with
  | Some p => (negb (is_fp p) && forallb (value_check p) (e_values e))%bool
  | None => false
  end.
Proof. reflexivity. Qed.

Lemma v_enum_spec env e z :
  v_enum env e = VOk z <->
  forallb is_symbolic (own_names (EEnum e)) = true /\ enum_sem env e = true /\
  option_map psize (encoding_prim env (e_type e)) = Some z.
Proof.
  rewrite v_enum_unfold, enum_sem_unfold. unfold own_names, encoding_prim, v_name. simpl.
  destruct (is_symbolic (e_name e)); simpl; [|split; [discriminate | intros [? _]; discriminate]].
  destruct (v_encoding_type env (e_type e)) as [pn| | |] eqn:EV; simpl.
  - apply v_encoding_type_spec in EV. rewrite EV.
    destruct (prim_of_name pn) as [p|]; simpl; [|split; [discriminate | intros [_ [? _]]; discriminate]].
    destruct (negb (is_fp p)); simpl; [|split; [discriminate | intros [_ [? _]]; discriminate]].
    destruct (v_vals p (e_values e)) as [[]| | |] eqn:EL; simpl.
    + apply v_vals_spec in EL. destruct EL as [E1 E2]. rewrite E1, E2.
      split; intros H; [inversion H; auto | destruct H as [_ [_ H]]; inversion H; auto].
    + split; [discriminate|]. intros [H1 [H2 _]].
      assert (X : v_vals p (e_values e) = VOk tt) by (apply v_vals_spec; auto). congruence.
    + split; [discriminate|]. intros [H1 [H2 _]].
      assert (X : v_vals p (e_values e) = VOk tt) by (apply v_vals_spec; auto). congruence.
    + split; [discriminate|]. intros [H1 [H2 _]].
      assert (X : v_vals p (e_values e) = VOk tt) by (apply v_vals_spec; auto). congruence.
  - destruct (encoding_prim_name env (e_type e)) as [pn|] eqn:EN.
    + apply v_encoding_type_spec in EN. congruence.
    + split; [discriminate | intros [_ [? _]]; discriminate].
  - destruct (encoding_prim_name env (e_type e)) as [pn|] eqn:EN.
    + apply v_encoding_type_spec in EN. congruence.
    + split; [discriminate | intros [_ [? _]]; discriminate].
  - destruct (encoding_prim_name env (e_type e)) as [pn|] eqn:EN.
    + apply v_encoding_type_spec in EN. congruence.
    + split; [discriminate | intros [_ [? _]]; discriminate].
Qed.

Lemma v_enum_regular env e : regular (v_enum env e).
Proof.
  rewrite v_enum_unfold.
  apply regular_bind; [apply regular_check|]; intros.
  apply regular_bind; [apply v_encoding_type_regular|]; intros pn _.
  destruct (prim_of_name pn); simpl; auto.
  apply regular_bind; [apply regular_check|]; intros.
  apply regular_bind; [apply v_vals_regular|]; intros. exact I.
Qed.

Definition choice_check (p : prim) (nc : str * Z) : bool := snd nc <? 8 * psize p.

Definition v_chs (p : prim) : list (str * Z) -> voutcome unit :=
  fix chs (l : list (str * Z)) : voutcome unit :=
  match l with
  | [] => VOk tt
  | (n, i) :: r =>
    v_name n ;;; check (negb (8 * psize p - 1 <? i)) ChoiceIndexOutOfRange ;;; chs r
  end.

Lemma v_chs_spec p l :
  v_chs p l = VOk tt <->
  forallb is_symbolic (map fst l) = true /\ forallb (choice_check p) l = true.
Proof.
  induction l as [|[n i] l IH]; simpl; [tauto|].
  unfold v_name. destruct (is_symbolic n); simpl; [|split; [discriminate | intros [? _]; discriminate]].
  unfold choice_check at 1. cbn [snd fst].
  assert (E : negb (8 * psize p - 1 <? i) = (i <? 8 * psize p)).
  { destruct (8 * psize p - 1 <? i) eqn:A, (i <? 8 * psize p) eqn:B; simpl; auto;
      [apply Z.ltb_lt in A; apply Z.ltb_lt in B | apply Z.ltb_ge in A; apply Z.ltb_ge in B]; lia. }
  rewrite E.
  destruct (i <? 8 * psize p); simpl; [|split; [discriminate | intros [_ ?]; discriminate]].
  exact IH.
Qed.

Lemma v_chs_regular p l : regular (v_chs p l).
Proof.
  induction l as [|[n v] l IH]; simpl; auto.
  apply regular_bind; [apply regular_check|]; intros.
  apply regular_bind; [apply regular_check|]; intros. exact IH.
Qed.

Lemma v_set_unfold env s :
  v_set env s =
  (v_name (s_name s) ;;;
   pn <- v_encoding_type env (s_type s) ;;
   match prim_of_name pn with
   | None => VErr BadEncodingType
   | Some p => check (is_unsigned_prim p) BadEncodingType ;;; v_chs p (s_choices s) ;;; VOk (psize p)
   end).
Proof. reflexivity. Qed.

Lemma set_sem_unfold env s :
  set_sem env s =
  match encoding_prim env (s_type s) with
  | Some p => (is_unsigned_prim p && forallb (choice_check p) (s_choices s))%bool
  | None => false
  end.
Proof. reflexivity. Qed.

Lemma v_set_spec env s z :
  v_set env s = VOk z <->
  forallb is_symbolic (own_names (ESet s)) = true /\ set_sem env s = true /\
  option_map psize (encoding_prim env (s_type s)) = Some z.
Proof.
  rewrite v_set_unfold, set_sem_unfold. unfold own_names, encoding_prim, v_name. simpl.
  destruct (is_symbolic (s_name s)); simpl; [|split; [discriminate | intros [? _]; discriminate]].
  destruct (v_encoding_type env (s_type s)) as [pn| | |] eqn:EV; simpl.
  - apply v_encoding_type_spec in EV. rewrite EV.
    destruct (prim_of_name pn) as [p|]; simpl; [|split; [discriminate | intros [_ [? _]]; discriminate]].
    destruct (is_unsigned_prim p); simpl; [|split; [discriminate | intros [_ [? _]]; discriminate]].
    destruct (v_chs p (s_choices s)) as [[]| | |] eqn:EL; simpl.
    + apply v_chs_spec in EL. destruct EL as [E1 E2]. rewrite E1, E2.
      split; intros H; [inversion H; auto | destruct H as [_ [_ H]]; inversion H; auto].
    + split; [discriminate|]. intros [H1 [H2 _]].
      assert (X : v_chs p (s_choices s) = VOk tt) by (apply v_chs_spec; auto). congruence.
    + split; [discriminate|]. intros [H1 [H2 _]].
      assert (X : v_chs p (s_choices s) = VOk tt) by (apply v_chs_spec; auto). congruence.
    + split; [discriminate|]. intros [H1 [H2 _]].
      assert (X : v_chs p (s_choices s) = VOk tt) by (apply v_chs_spec; auto). congruence.
  - destruct (encoding_prim_name env (s_type s)) as [pn|] eqn:EN.
    + apply v_encoding_type_spec in EN. congruence.
    + split; [discriminate | intros [_ [? _]]; discriminate].
  - destruct (encoding_prim_name env (s_type s)) as [pn|] eqn:EN.
    + apply v_encoding_type_spec in EN. congruence.
    + split; [discriminate | intros [_ [? _]]; discriminate].
  - destruct (encoding_prim_name env (s_type s)) as [pn|] eqn:EN.
    + apply v_encoding_type_spec in EN. congruence.
    + split; [discriminate | intros [_ [? _]]; discriminate].
Qed.

Lemma v_set_regular env s : regular (v_set env s).
Proof.
  rewrite v_set_unfold.
  apply regular_bind; [apply regular_check|]; intros.
  apply regular_bind; [apply v_encoding_type_regular|]; intros pn _.
  destruct (prim_of_name pn); simpl; auto.
  apply regular_bind; [apply regular_check|]; intros.
  apply regular_bind; [apply v_chs_regular|]; intros. exact I.
Qed.

(* ------------------------------------------------------------------ *)
(* esize: unfolding, monotonicity in the fuel                           *)
(* ------------------------------------------------------------------ *)

Definition item_of (env : list element_def) (m : element_def) (sz : Z) : option Z * option Z :=
  (eoffset m, if takes_no_space env m then None else Some sz).

(* esize at fuel S f, written with the recursive calls exposed *)
Definition esize_items (env : list element_def) (sz : element_def -> option Z) :=
  fix items (els : list element_def) (acc : list (option Z * option Z)) : option Z :=
    match els with
    | [] => Some (end_of acc)
    | m :: r => match sz m with
                | None => None
                | Some s => items r (item_of env m s :: acc)
                end
    end.

Lemma esize_S env f e :
  esize env (S f) e =
  match e with
  | EType t => type_size t
  | EEnum en => option_map psize (encoding_prim env (e_type en))
  | ESet st => option_map psize (encoding_prim env (s_type st))
  | ERef _ ty _ => match get_encoding env ty with Some tgt => esize env f tgt | None => None end
  | EComposite _ _ els => esize_items env (esize env (S f)) els []
  end.
Proof. destruct e; reflexivity. Qed.

Lemma esize_0 env e : esize env 0 e = None.
Proof. reflexivity. Qed.

Lemma esize_items_ext env (s1 s2 : element_def -> option Z) els :
  Forall (fun m => forall z, s1 m = Some z -> s2 m = Some z) els ->
  forall acc z, esize_items env s1 els acc = Some z -> esize_items env s2 els acc = Some z.
Proof.
  induction 1 as [|m r Hm _ IH]; intros acc z; simpl; auto.
  destruct (s1 m) as [s|] eqn:E; [|discriminate]. rewrite (Hm _ eq_refl). apply IH.
Qed.

Lemma esize_mono env : forall f e z, esize env f e = Some z -> esize env (S f) e = Some z.
Proof.
  induction f as [|f IHf]; intros e; [discriminate|].
  induction e as [t|en|st|n ty o|n o els IHe] using element_ind'; intros z; rewrite !esize_S; auto.
  - destruct (get_encoding env ty); auto.
  - apply esize_items_ext. exact IHe.
Qed.

Lemma esize_mono_le env f g e z : (f <= g)%nat -> esize env f e = Some z -> esize env g e = Some z.
Proof. induction 1 as [|g L IH]; auto. intros H0. apply esize_mono. auto. Qed.

Lemma esize_det env f g e a b : esize env f e = Some a -> esize env g e = Some b -> a = b.
Proof.
  intros Ha Hb.
  apply (esize_mono_le env f (Nat.max f g)) in Ha; [|lia].
  apply (esize_mono_le env g (Nat.max f g)) in Hb; [|lia]. congruence.
Qed.

(* ------------------------------------------------------------------ *)
(* chk: the rules of an element and of everything it refers to         *)
(* ------------------------------------------------------------------ *)

Definition item_check (acc : list (option Z * option Z)) (it : option Z * option Z) : bool :=
  (match it with (Some o, Some _) => end_of acc <=? o | _ => true end &&
   (end_of (it :: acc) <=? max_u64))%bool.

Lemma item_check_end acc it : item_check acc it = true -> end_of (it :: acc) <= max_u64.
Proof. unfold item_check. intros H. apply andb_true_iff in H. destruct H as [_ H]. apply Z.leb_le; auto. Qed.

Definition chk_items (env : list element_def) (sz : element_def -> option Z) :=
  fix items (els : list element_def) (acc : list (option Z * option Z)) : option Z :=
    match els with
    | [] => Some (end_of acc)
    | m :: r => match sz m with
                | None => None
                | Some s => if item_check acc (item_of env m s) then items r (item_of env m s :: acc) else None
                end
    end.

Fixpoint chk (env : list element_def) (fuel : nat) (e : element_def) {struct fuel} : option Z :=
  match fuel with
  | O => None
  | S f =>
    (fix go (e : element_def) : option Z :=
       if forallb is_symbolic (own_names e) then
         match e with
         | EType t => if type_sem env t then type_size t else None
         | EEnum en => if enum_sem env en then option_map psize (encoding_prim env (e_type en)) else None
         | ESet st => if set_sem env st then option_map psize (encoding_prim env (s_type st)) else None
         | ERef _ ty _ => match get_encoding env ty with Some tgt => chk env f tgt | None => None end
         | EComposite _ _ els =>
           (fix items (els : list element_def) (acc : list (option Z * option Z)) : option Z :=
              match els with
              | [] => Some (end_of acc)
              | m :: r => match go m with
                          | None => None
                          | Some s => if item_check acc (item_of env m s)
                                      then items r (item_of env m s :: acc) else None
                          end
              end) els []
         end
       else None) e
  end.

Lemma chk_S env f e :
  chk env (S f) e =
  if forallb is_symbolic (own_names e) then
    match e with
    | EType t => if type_sem env t then type_size t else None
    | EEnum en => if enum_sem env en then option_map psize (encoding_prim env (e_type en)) else None
    | ESet st => if set_sem env st then option_map psize (encoding_prim env (s_type st)) else None
    | ERef _ ty _ => match get_encoding env ty with Some tgt => chk env f tgt | None => None end
    | EComposite _ _ els => chk_items env (chk env (S f)) els []
    end
  else None.
Proof. destruct e; reflexivity. Qed.

Lemma chk_items_ext env (s1 s2 : element_def -> option Z) els :
  Forall (fun m => forall z, s1 m = Some z -> s2 m = Some z) els ->
  forall acc z, chk_items env s1 els acc = Some z -> chk_items env s2 els acc = Some z.
Proof.
  induction 1 as [|m r Hm _ IH]; intros acc z; simpl; auto.
  destruct (s1 m) as [s|] eqn:E; [|discriminate]. rewrite (Hm _ eq_refl).
  destruct (item_check acc (item_of env m s)); [|discriminate]. apply IH.
Qed.

Lemma chk_mono env : forall f e z, chk env f e = Some z -> chk env (S f) e = Some z.
Proof.
  induction f as [|f IHf]; intros e; [discriminate|].
  induction e as [t|en|st|n ty o|n o els IHe] using element_ind'; intros z; rewrite !chk_S; auto.
  - destruct (forallb is_symbolic (own_names (ERef n ty o))); auto.
    destruct (get_encoding env ty); auto.
  - destruct (forallb is_symbolic (own_names (EComposite n o els))); auto.
    apply chk_items_ext. exact IHe.
Qed.

Lemma chk_mono_le env f g e z : (f <= g)%nat -> chk env f e = Some z -> chk env g e = Some z.
Proof. induction 1 as [|g L IH]; auto. intros H0. apply chk_mono. auto. Qed.

Lemma chk_none_le env f g e : (f <= g)%nat -> chk env g e = None -> chk env f e = None.
Proof.
  intros L H. destruct (chk env f e) as [z|] eqn:E; auto.
  apply (chk_mono_le env f g) in E; auto. congruence.
Qed.

(* chk implies esize *)
Lemma chk_items_esize env (s1 s2 : element_def -> option Z) els :
  Forall (fun m => forall z, s1 m = Some z -> s2 m = Some z) els ->
  forall acc z, chk_items env s1 els acc = Some z -> esize_items env s2 els acc = Some z.
Proof.
  induction 1 as [|m r Hm _ IH]; intros acc z; simpl; auto.
  destruct (s1 m) as [s|] eqn:E; [|discriminate]. rewrite (Hm _ eq_refl).
  destruct (item_check acc (item_of env m s)); [|discriminate]. apply IH.
Qed.

Lemma chk_esize env : forall f e z, chk env f e = Some z -> esize env f e = Some z.
Proof.
  induction f as [|f IHf]; intros e; [discriminate|].
  induction e as [t|en|st|n ty o|n o els IHe] using element_ind'; intros z; rewrite chk_S, esize_S;
    destruct (forallb is_symbolic _); try discriminate.
  - destruct (type_sem env t); auto; discriminate.
  - destruct (enum_sem env en); auto; discriminate.
  - destruct (set_sem env st); auto; discriminate.
  - destruct (get_encoding env ty); auto.
  - apply chk_items_esize. exact IHe.
Qed.

#[local] Arguments chk : simpl never.
#[local] Arguments esize : simpl never.

(* ------------------------------------------------------------------ *)
(* the processing state                                                *)
(* ------------------------------------------------------------------ *)

Definition keys (st : vstate) : list str := map fst st.

Definition is_complete (kv : str * option Z) : bool := match snd kv with Some _ => true | None => false end.

Definition ncomp (st : vstate) : nat := length (filter is_complete st).
Definition nip (st : vstate) : nat := length (filter (fun kv => negb (is_complete kv)) st).

Lemma ncomp_nip st : (ncomp st + nip st = length st)%nat.
Proof.
  unfold ncomp, nip. induction st as [|kv st IH]; simpl; auto.
  destruct (is_complete kv); simpl; lia.
Qed.

Lemma assoc_cons n m v st :
  assoc n ((m, v) :: st) = if str_eqb m n then Some v else assoc n st.
Proof. reflexivity. Qed.

Lemma assoc_None n st : assoc n st = None <-> ~ In n (keys st).
Proof.
  induction st as [|[m v] st IH]; simpl; [tauto|].
  destruct (str_eqb m n) eqn:E.
  - apply str_eqb_eq in E. subst. split; [discriminate | intros H; exfalso; apply H; auto].
  - apply str_eqb_neq in E. rewrite IH. split; [intros H [?|?]; auto | intros H ?; apply H; auto].
Qed.

Lemma assoc_In n v st : assoc n st = Some v -> In n (keys st).
Proof.
  intros H. destruct (in_dec (list_eq_dec Z.eq_dec) n (keys st)) as [?|N]; auto.
  apply assoc_None in N. congruence.
Qed.

Lemma update_keys n z st : keys (update n z st) = keys st.
Proof.
  induction st as [|[m v] st IH]; simpl; auto.
  destruct (str_eqb m n); simpl; [reflexivity | rewrite IH; reflexivity].
Qed.

Lemma assoc_update_same n z st v : assoc n st = Some v -> assoc n (update n z st) = Some (Some z).
Proof.
  induction st as [|[m w] st IH]; simpl; [discriminate|].
  destruct (str_eqb m n) eqn:E; simpl; rewrite E; auto.
Qed.

Lemma assoc_update_other n m z st : m <> n -> assoc m (update n z st) = assoc m st.
Proof.
  intros N. induction st as [|[k w] st IH]; simpl; auto.
  destruct (str_eqb k n) eqn:E; simpl.
  - apply str_eqb_eq in E. subst k. destruct (str_eqb n m) eqn:E2; auto.
    apply str_eqb_eq in E2. congruence.
  - destruct (str_eqb k m); auto.
Qed.

Lemma update_counts n z st :
  assoc n st = Some None ->
  ncomp (update n z st) = S (ncomp st) /\ S (nip (update n z st)) = nip st.
Proof.
  unfold ncomp, nip, is_complete. induction st as [|[k w] st IH]; simpl; [discriminate|].
  destruct (str_eqb k n) eqn:E; simpl.
  - intros H. inversion H; subst. simpl. auto.
  - intros H. destruct (IH H) as [I1 I2]. destruct w; simpl; lia.
Qed.

(* ------------------------------------------------------------------ *)
(* running offsets                                                     *)
(* ------------------------------------------------------------------ *)

Lemma v_place_spec acc o sz :
  match v_place true o (end_of acc) sz with
  | VOk c => item_check acc (o, Some sz) = true /\ c = end_of ((o, Some sz) :: acc)
  | VErr _ => item_check acc (o, Some sz) = false
  | _ => False
  end.
Proof.
  unfold v_place, add_size, item_check. simpl. destruct o as [o|].
  - destruct (o <? end_of acc) eqn:A.
    + apply Z.ltb_lt in A. replace (end_of acc <=? o) with false; auto. symmetry. apply Z.leb_gt. lia.
    + apply Z.ltb_ge in A. replace (end_of acc <=? o) with true by (symmetry; apply Z.leb_le; lia).
      destruct (max_u64 - o <? sz) eqn:B.
      * apply Z.ltb_lt in B. simpl. apply Z.leb_gt. lia.
      * apply Z.ltb_ge in B. simpl. split; auto. apply Z.leb_le. lia.
  - destruct (max_u64 - end_of acc <? sz) eqn:B.
    + apply Z.ltb_lt in B. simpl. apply Z.leb_gt. lia.
    + apply Z.ltb_ge in B. simpl. split; auto. apply Z.leb_le. lia.
Qed.

#[local] Arguments end_of : simpl never.

(* ------------------------------------------------------------------ *)
(* validate_types                                                      *)
(* ------------------------------------------------------------------ *)

Lemma lookup_In l n e : lookup l n = Some e -> In e l.
Proof.
  induction l as [|x l IH]; simpl; [discriminate|].
  destruct (str_eqb (to_lower (ename x)) n); intros H; [inversion H; auto | auto].
Qed.

Lemma lookup_name l n e : lookup l n = Some e -> to_lower (ename e) = n.
Proof.
  induction l as [|x l IH]; simpl; [discriminate|].
  destruct (str_eqb (to_lower (ename x)) n) eqn:E; intros H; [inversion H; subst; apply str_eqb_eq; auto | auto].
Qed.

Lemma NoDup_map_unique {A B} (f : A -> B) l a b :
  NoDup (map f l) -> In a l -> In b l -> f a = f b -> a = b.
Proof.
  induction l as [|x l IH]; simpl; [tauto|]. intros ND Ha Hb E. inversion ND; subst.
  destruct Ha as [<-|Ha], Hb as [<-|Hb]; auto.
  - exfalso. apply H1. rewrite E. apply in_map; auto.
  - exfalso. apply H1. rewrite <- E. apply in_map; auto.
Qed.

Section Types.
  Variable env : list element_def.
  Hypothesis env_nodup : NoDup (map ename env).

  Lemma get_encoding_In ty e : get_encoding env ty = Some e -> In e env.
  Proof. apply lookup_In. Qed.

  Lemma env_unique a b : In a env -> In b env -> ename a = ename b -> a = b.
  Proof. apply NoDup_map_unique; auto. Qed.

  Definition Inv (st : vstate) : Prop :=
    NoDup (keys st) /\ incl (keys st) (map ename env) /\
    forall e z, In e env -> assoc (ename e) st = Some (Some z) -> chk env (ncomp st) e = Some z.

  Definition Ext (st st' : vstate) : Prop :=
    (forall n z, assoc n st = Some (Some z) -> assoc n st' = Some (Some z)) /\
    (forall n, assoc n st = Some None <-> assoc n st' = Some None) /\
    (ncomp st <= ncomp st')%nat /\ nip st' = nip st.

  Lemma Ext_refl st : Ext st st.
  Proof. unfold Ext. repeat split; auto. Qed.

  Lemma Ext_trans a b c : Ext a b -> Ext b c -> Ext a c.
  Proof.
    intros [A1 [A2 [A3 A4]]] [B1 [B2 [B3 B4]]]. unfold Ext. repeat split.
    - intros n z H. auto.
    - intros H. apply B2, A2, H.
    - intros H. apply A2, B2, H.
    - lia.
    - congruence.
  Qed.

  Lemma Inv_bound st : Inv st -> (length st <= length env)%nat.
  Proof.
    intros [K1 [K2 _]]. unfold keys in *.
    rewrite <- (map_length fst st), <- (map_length ename env). apply NoDup_incl_length; auto.
  Qed.

  Definition ip_fail (st : vstate) (f : nat) : Prop :=
    forall p, In p env -> assoc (ename p) st = Some None -> chk env f p = None.

  Lemma ip_fail_ext st st' f : Ext st st' -> ip_fail st f -> ip_fail st' f.
  Proof. intros [_ [E2 _]] H p Hp Ha. apply H; auto. apply E2; auto. Qed.

  Lemma ip_fail_le st f g : (f <= g)%nat -> ip_fail st g -> ip_fail st f.
  Proof. intros L H p Hp Ha. eapply chk_none_le; eauto. Qed.

  Definition PubSpec (st : vstate) (e : element_def) (r : voutcome vstate) : Prop :=
    match r with
    | VOk st' => Inv st' /\ Ext st st' /\ exists z, assoc (ename e) st' = Some (Some z)
    | VErr _ => forall f, ip_fail st f -> chk env f e = None
    | _ => False
    end.

  Definition ElemSpec (st : vstate) (e : element_def) (r : voutcome (vstate * Z)) : Prop :=
    match r with
    | VOk (st', z) => Inv st' /\ Ext st st' /\ chk env (S (ncomp st')) e = Some z
    | VErr _ => forall f, ip_fail st f -> chk env (S f) e = None
    | _ => False
    end.

  (* elements whose validation does not touch the state *)
  Lemma pure_spec st e (x : voutcome Z) (c : option Z) :
    Inv st -> regular x ->
    (forall f, chk env (S f) e = c) -> (forall z, x = VOk z <-> c = Some z) ->
    ElemSpec st e (z <- x ;; VOk (st, z)).
  Proof.
    intros HI R Hc Hx. destruct x as [z| | |]; simpl in *; try contradiction.
    - split; auto. split; [apply Ext_refl|]. rewrite Hc. apply Hx. reflexivity.
    - intros f _. rewrite Hc. destruct c as [z|]; auto.
      assert (X : VErr c0 = VOk z) by (apply Hx; reflexivity). discriminate.
  Qed.

  Lemma is_const_ok m :
    (forall n ty o, m = ERef n ty o -> get_encoding env ty <> None) ->
    v_is_constant_element env m = VOk (takes_no_space env m).
  Proof.
    intros H. destruct m; simpl; auto.
    specialize (H _ _ _ eq_refl). destruct (get_encoding env type); [reflexivity | contradiction].
  Qed.

  Definition v_members (rec : vstate -> element_def -> voutcome vstate) :=
    fix go (st : vstate) (els : list element_def) (cur : Z) : voutcome (vstate * Z) :=
      match els with
      | [] => VOk (st, cur)
      | m :: r =>
        sz <- v_elem true env rec st m ;;
        c <- v_is_constant_element env m ;;
        cur' <- (if c then VOk cur else v_place true (eoffset m) cur (snd sz)) ;;
        go (fst sz) r cur'
      end.

  Lemma v_elem_composite rec st n o els :
    v_elem true env rec st (EComposite n o els) = (v_name n ;;; v_members rec st els 0).
  Proof. reflexivity. Qed.

  (* a successful v_elem on a ref means the target exists *)
  Lemma v_elem_ref_target rec st n ty o r :
    v_elem true env rec st (ERef n ty o) = VOk r -> get_encoding env ty <> None.
  Proof.
    simpl. unfold v_name. destruct (is_symbolic n); simpl; [|discriminate].
    destruct (get_encoding env ty); [discriminate | discriminate].
  Qed.

  Section Elem.
    Variable rec : vstate -> element_def -> voutcome vstate.
    Variable N : nat.
    Hypothesis rec_spec : forall st tgt, Inv st -> nip st = N -> In tgt env -> PubSpec st tgt (rec st tgt).

    Definition ElemOK (m : element_def) : Prop :=
      forall st, Inv st -> nip st = N -> ElemSpec st m (v_elem true env rec st m).

    Lemma v_members_spec els : Forall ElemOK els ->
      forall st acc, Inv st -> nip st = N -> end_of acc <= max_u64 ->
      match v_members rec st els (end_of acc) with
      | VOk (st', z) => Inv st' /\ Ext st st' /\ chk_items env (chk env (S (ncomp st'))) els acc = Some z
      | VErr _ => forall f, ip_fail st f -> chk_items env (chk env (S f)) els acc = None
      | _ => False
      end.
    Proof.
      induction 1 as [|m r Hm _ IH]; intros st acc HI HN Hacc; simpl.
      - split; auto. split; [apply Ext_refl | reflexivity].
      - specialize (Hm st HI HN). unfold ElemSpec in Hm.
        destruct (v_elem true env rec st m) as [[st1 sz]| | |] eqn:EM; simpl; try contradiction.
        2:{ intros f Hf. rewrite (Hm f Hf). reflexivity. }
        destruct Hm as [HI1 [HE1 Hc1]].
        assert (HN1 : nip st1 = N) by (destruct HE1 as [_ [_ [_ E4]]]; congruence).
        rewrite is_const_ok.
        2:{ intros n ty o ->. eapply v_elem_ref_target; eauto. }
        simpl.
        (* what a later, possibly different fuel says about m *)
        assert (Hdet : forall f s, chk env (S f) m = Some s -> s = sz).
        { intros f s Hs. apply chk_esize in Hs. apply chk_esize in Hc1. eapply esize_det; eauto. }
        destruct (takes_no_space env m) eqn:TN; simpl.
        + (* no space *)
          assert (Hit : forall s, item_of env m s = (eoffset m, None)) by (intros; unfold item_of; rewrite TN; auto).
          assert (Hend : end_of ((eoffset m, None) :: acc) = end_of acc) by (destruct (eoffset m); reflexivity).
          specialize (IH st1 ((eoffset m, None) :: acc) HI1 HN1). rewrite Hend in IH. specialize (IH Hacc).
          assert (Hck : item_check acc (eoffset m, None) = true).
          { unfold item_check. rewrite Hend. destruct (eoffset m); simpl; apply Z.leb_le; auto. }
          destruct (v_members rec st1 r (end_of acc)) as [[st2 z]| | |]; try contradiction.
          * destruct IH as [HI2 [HE2 Hc2]]. split; auto. split; [eapply Ext_trans; eauto|].
            assert (L : (S (ncomp st1) <= S (ncomp st2))%nat) by (destruct HE2 as [_ [_ [E3 _]]]; lia).
            rewrite (chk_mono_le _ _ _ _ _ L Hc1). rewrite Hit, Hck. exact Hc2.
          * intros f Hf. destruct (chk env (S f) m) as [s|] eqn:Es; auto.
            rewrite Hit, Hck. apply IH. eapply ip_fail_ext; eauto.
        + (* takes space *)
          assert (Hit : forall s, item_of env m s = (eoffset m, Some s)) by (intros; unfold item_of; rewrite TN; auto).
          pose proof (v_place_spec acc (eoffset m) sz) as HP.
          destruct (v_place true (eoffset m) (end_of acc) sz) as [c| | |]; try contradiction.
          * destruct HP as [Hck ->]. simpl.
            assert (Hacc' : end_of ((eoffset m, Some sz) :: acc) <= max_u64).
            { eapply item_check_end; eauto. }
            specialize (IH st1 ((eoffset m, Some sz) :: acc) HI1 HN1 Hacc').
            destruct (v_members rec st1 r (end_of ((eoffset m, Some sz) :: acc))) as [[st2 z]| | |]; try contradiction.
            -- destruct IH as [HI2 [HE2 Hc2]]. split; auto. split; [eapply Ext_trans; eauto|].
               assert (L : (S (ncomp st1) <= S (ncomp st2))%nat) by (destruct HE2 as [_ [_ [E3 _]]]; lia).
               rewrite (chk_mono_le _ _ _ _ _ L Hc1). rewrite Hit, Hck. exact Hc2.
            -- intros f Hf. destruct (chk env (S f) m) as [s|] eqn:Es; auto.
               rewrite (Hdet _ _ Es), Hit, Hck. apply IH. eapply ip_fail_ext; eauto.
          * simpl. intros f Hf. destruct (chk env (S f) m) as [s|] eqn:Es; auto.
            rewrite (Hdet _ _ Es), Hit, HP. reflexivity.
    Qed.

    Lemma v_elem_spec : forall e, ElemOK e.
    Proof.
      induction e as [t|en|st0|n ty o|n o els IHe] using element_ind'; intros st HI HN.
      - (* type *)
        simpl. apply (pure_spec st (EType t) (v_type env t)
          (if is_symbolic (t_name t) then (if type_sem env t then type_size t else None) else None));
          [exact HI | apply v_type_regular | intros f; rewrite chk_S; simpl; rewrite andb_true_r; reflexivity | ].
        + intros z. rewrite v_type_spec.
          destruct (is_symbolic (t_name t)), (type_sem env t); split; intros H; try discriminate; try tauto;
            destruct H as [? [? ?]]; discriminate.
      - (* enum *)
        simpl. apply (pure_spec st (EEnum en) (v_enum env en)
          (if forallb is_symbolic (own_names (EEnum en))
           then (if enum_sem env en then option_map psize (encoding_prim env (e_type en)) else None) else None));
          [exact HI | apply v_enum_regular | intros f; rewrite chk_S; reflexivity | ].
        + intros z. rewrite v_enum_spec.
          destruct (forallb is_symbolic (own_names (EEnum en))), (enum_sem env en); split; intros H;
            try discriminate; try tauto; destruct H as [? [? ?]]; discriminate.
      - (* set *)
        simpl. apply (pure_spec st (ESet st0) (v_set env st0)
          (if forallb is_symbolic (own_names (ESet st0))
           then (if set_sem env st0 then option_map psize (encoding_prim env (s_type st0)) else None) else None));
          [exact HI | apply v_set_regular | intros f; rewrite chk_S; reflexivity | ].
        + intros z. rewrite v_set_spec.
          destruct (forallb is_symbolic (own_names (ESet st0))), (set_sem env st0); split; intros H;
            try discriminate; try tauto; destruct H as [? [? ?]]; discriminate.
      - (* ref *)
        simpl. unfold v_name, ElemSpec.
        assert (Hn : forall f, chk env (S f) (ERef n ty o) =
                               if is_symbolic n then match get_encoding env ty with
                                                     | Some tgt => chk env f tgt | None => None end else None).
        { intros f. rewrite chk_S. simpl. rewrite andb_true_r. reflexivity. }
        destruct (is_symbolic n); simpl.
        2:{ intros f _. apply Hn. }
        destruct (get_encoding env ty) as [tgt|] eqn:EG; simpl.
        2:{ intros f _. apply Hn. }
        pose proof (rec_spec st tgt HI HN (get_encoding_In _ _ EG)) as HR. unfold PubSpec in HR.
        destruct (rec st tgt) as [st1| | |]; simpl; try contradiction.
        + destruct HR as [HI1 [HE1 [z Hz]]]. unfold ctx_get. rewrite Hz. simpl.
          split; auto. split; auto. rewrite Hn.
          destruct HI1 as [_ [_ K3]]. apply K3; auto. apply (get_encoding_In _ _ EG).
        + intros f Hf. rewrite Hn. apply HR; auto.
      - (* composite *)
        rewrite v_elem_composite. unfold v_name, ElemSpec.
        assert (Hn : forall f, chk env (S f) (EComposite n o els) =
                               if is_symbolic n then chk_items env (chk env (S f)) els [] else None).
        { intros f. rewrite chk_S. simpl. rewrite andb_true_r. reflexivity. }
        destruct (is_symbolic n); simpl.
        2:{ intros f _. apply Hn. }
        pose proof (v_members_spec els IHe st [] HI HN) as HM. change (end_of []) with 0 in HM.
        assert (L0 : 0 <= max_u64) by (unfold max_u64; lia). specialize (HM L0).
        destruct (v_members rec st els 0) as [[st1 z]| | |]; try contradiction.
        + destruct HM as [A [B C]]. split; auto. split; auto. rewrite Hn. exact C.
        + intros f Hf. rewrite Hn. apply HM; auto.
    Qed.
  End Elem.

  Lemma nip_cons_none n st : nip ((n, None) :: st) = S (nip st).
  Proof. reflexivity. Qed.

  Lemma ncomp_cons_none n st : ncomp ((n, None) :: st) = ncomp st.
  Proof. reflexivity. Qed.

  Lemma Inv_cons st e : Inv st -> In e env -> assoc (ename e) st = None -> Inv ((ename e, None) :: st).
  Proof.
    intros [K1 [K2 K3]] He HA. split; [|split].
    - simpl. constructor; auto. apply assoc_None; auto.
    - simpl. intros x [<-|Hx]; [apply in_map; auto | apply K2; auto].
    - intros p z Hp. rewrite assoc_cons, ncomp_cons_none.
      destruct (str_eqb (ename e) (ename p)); [discriminate | apply K3; auto].
  Qed.

  Lemma v_public_spec : forall fuel st e,
    Inv st -> In e env -> (length env + 1 <= fuel + nip st)%nat ->
    PubSpec st e (v_public true env fuel st e).
  Proof.
    induction fuel as [|fuel IH]; intros st e HI He Hf.
    - exfalso. pose proof (Inv_bound st HI). pose proof (ncomp_nip st). lia.
    - simpl. destruct (assoc (ename e) st) as [[z|]|] eqn:EA.
      + simpl. split; auto. split; [apply Ext_refl | eauto].
      + simpl. intros f Hfail. apply Hfail; auto.
      + pose proof (Inv_cons st e HI He EA) as HI1.
        assert (Hrec : forall st' tgt, Inv st' -> nip st' = S (nip st) -> In tgt env ->
                                       PubSpec st' tgt (v_public true env fuel st' tgt)).
        { intros st' tgt A B C. apply IH; auto. lia. }
        pose proof (v_elem_spec (v_public true env fuel) (S (nip st)) Hrec e _ HI1 (nip_cons_none _ _)) as HE.
        unfold ElemSpec in HE.
        assert (Hhead : assoc (ename e) ((ename e, None) :: st) = Some None)
          by (rewrite assoc_cons, str_eqb_refl; reflexivity).
        destruct (v_elem true env (v_public true env fuel) ((ename e, None) :: st) e) as [[st2 z]| | |];
          simpl; try contradiction.
        * destruct HE as [HI2 [HE2 Hc]].
          assert (Hip : assoc (ename e) st2 = Some None) by (apply HE2; auto).
          unfold ctx_create. rewrite Hip. simpl.
          destruct (update_counts (ename e) z st2 Hip) as [C1 C2].
          destruct HI2 as [K1 [K2 K3]]. destruct HE2 as [E1 [E2 [E3 E4]]].
          split; [|split].
          -- (* Inv *)
             split; [|split].
             ++ unfold keys. fold (keys (update (ename e) z st2)). rewrite update_keys. exact K1.
             ++ rewrite update_keys. exact K2.
             ++ intros p zp Hp Hap. rewrite C1.
                destruct (list_eq_dec Z.eq_dec (ename p) (ename e)) as [En|En].
                ** assert (p = e) by (apply env_unique; auto). subst p.
                   rewrite (assoc_update_same _ _ _ _ Hip) in Hap. inversion Hap; subst. exact Hc.
                ** rewrite assoc_update_other in Hap by auto. apply chk_mono. apply K3; auto.
          -- (* Ext *)
             unfold Ext. split; [|split; [|split]].
             ++ intros n zn Hn. assert (n <> ename e) by (intros ->; congruence).
                rewrite assoc_update_other by auto. apply E1. rewrite assoc_cons.
                destruct (str_eqb (ename e) n) eqn:Q; auto. apply str_eqb_eq in Q. congruence.
             ++ intros n. split.
                ** intros Hn. assert (n <> ename e) by (intros ->; congruence).
                   rewrite assoc_update_other by auto. apply E2. rewrite assoc_cons.
                   destruct (str_eqb (ename e) n) eqn:Q; auto.
                ** intros Hn. destruct (list_eq_dec Z.eq_dec n (ename e)) as [->|Q].
                   --- rewrite (assoc_update_same _ _ _ _ Hip) in Hn. discriminate.
                   --- rewrite assoc_update_other in Hn by auto. apply E2 in Hn. rewrite assoc_cons in Hn.
                       destruct (str_eqb (ename e) n) eqn:Q2; auto. apply str_eqb_eq in Q2. congruence.
             ++ rewrite C1. rewrite ncomp_cons_none in E3. lia.
             ++ rewrite nip_cons_none in E4. lia.
          -- exists z. eapply assoc_update_same; eauto.
        * (* error inside e: e fails at every fuel at which the in-progress encodings fail *)
          intros f. induction f as [|g IHg]; intros Hfail; [reflexivity|].
          apply HE. intros p Hp Hap. rewrite assoc_cons in Hap.
          destruct (str_eqb (ename e) (ename p)) eqn:Q.
          -- apply str_eqb_eq in Q. assert (p = e) by (apply env_unique; auto). subst p.
             apply IHg. eapply ip_fail_le; [|exact Hfail]. lia.
          -- eapply chk_none_le; [|apply Hfail; auto]. lia.
  Qed.

  #[local] Arguments v_public : simpl never.

  (* validate_types *)
  Lemma v_types_spec : forall l st,
    Inv st -> nip st = 0%nat -> incl l env ->
    match v_types true env (S (length env)) st l with
    | VOk st' => Inv st' /\ Ext st st' /\ forall e, In e l -> exists z, assoc (ename e) st' = Some (Some z)
    | VErr _ => exists e, In e l /\ forall f, chk env f e = None
    | _ => False
    end.
  Proof.
    induction l as [|e l IH]; intros st HI HN Hl; simpl.
    - split; auto. split; [apply Ext_refl | intros ? []].
    - assert (He : In e env) by (apply Hl; left; auto).
      pose proof (v_public_spec (S (length env)) st e HI He ltac:(lia)) as HP. unfold PubSpec in HP.
      destruct (v_public true env (S (length env)) st e) as [st1| | |]; simpl; try contradiction.
      + destruct HP as [HI1 [HE1 [z Hz]]].
        assert (HN1 : nip st1 = 0%nat) by (destruct HE1 as [_ [_ [_ E4]]]; congruence).
        specialize (IH st1 HI1 HN1 ltac:(intros x Hx; apply Hl; right; auto)).
        destruct (v_types true env (S (length env)) st1 l) as [st2| | |]; try contradiction.
        * destruct IH as [HI2 [HE2 Hall]]. split; auto. split; [eapply Ext_trans; eauto|].
          intros x [<-|Hx]; auto. exists z. apply HE2. exact Hz.
        * destruct IH as [x [Hx Hf]]. exists x. split; auto.
      + exists e. split; auto. intros f. apply HP. intros p Hp Hap.
        (* no encoding is in progress between two public encodings *)
        exfalso. clear - HN Hap. unfold nip in HN. induction st as [|[k w] st IHs]; simpl in *; [discriminate|].
        destruct (str_eqb k (ename p)).
        * inversion Hap; subst. simpl in HN. discriminate.
        * destruct w; simpl in HN; [apply IHs; auto | discriminate].
  Qed.

  Lemma Inv_nil : Inv [].
  Proof. split; [constructor | split; [intros ? [] | intros ? ? ? H; discriminate]]. Qed.
End Types.

(* ------------------------------------------------------------------ *)
(* chk  <->  the per-element rules of Rules.v                          *)
(* ------------------------------------------------------------------ *)

Definition e_sbe (env : list element_def) (m : element_def) : bool :=
  (forallb is_symbolic (own_names m) && sem_ok env m)%bool.

Definition good (env : list element_def) (e : element_def) : Prop :=
  forall m, In m (flatten e) -> e_sbe env m = true.

Lemma in_flatten_list m els : In m (flatten_list els) <-> exists x, In x els /\ In m (flatten x).
Proof.
  induction els as [|y r IH]; simpl.
  - split; [tauto | intros [x [[] _]]].
  - rewrite in_app_iff, IH. split.
    + intros [H|[x [Hx Hm]]]; [exists y; auto | exists x; auto].
    + intros [x [[<-|Hx] Hm]]; [auto | right; exists x; auto].
Qed.

Lemma good_composite env n o els :
  good env (EComposite n o els) <->
  e_sbe env (EComposite n o els) = true /\ Forall (good env) els.
Proof.
  unfold good. rewrite flatten_composite. split.
  - intros H. split; [apply H; left; auto|]. apply Forall_forall. intros x Hx m Hm.
    apply H. right. apply in_flatten_list. eauto.
  - intros [H1 H2] m [<-|Hm]; auto. apply in_flatten_list in Hm. destruct Hm as [x [Hx Hm]].
    rewrite Forall_forall in H2. apply (H2 x Hx m Hm).
Qed.

Lemma good_leaf env e :
  (forall n o els, e <> EComposite n o els) -> (good env e <-> e_sbe env e = true).
Proof.
  intros H. unfold good. destruct e; simpl; try (split; [intros G; apply G; auto | intros G m [<-|[]]; auto]).
  exfalso. eapply H; eauto.
Qed.

Lemma chk_items_cons env sz m r acc :
  chk_items env sz (m :: r) acc =
  match sz m with
  | None => None
  | Some s => if item_check acc (item_of env m s) then chk_items env sz r (item_of env m s :: acc) else None
  end.
Proof. reflexivity. Qed.

Lemma esize_items_cons env sz m r acc :
  esize_items env sz (m :: r) acc =
  match sz m with
  | None => None
  | Some s => esize_items env sz r (item_of env m s :: acc)
  end.
Proof. reflexivity. Qed.

Lemma offsets_ok_from_cons acc it r :
  offsets_ok_from acc (it :: r) = (item_check acc it && offsets_ok_from (it :: acc) r)%bool.
Proof. reflexivity. Qed.

Lemma items_of_cons env m r :
  items_of env (m :: r) =
  match size_of env m, items_of env r with
  | Some s, Some l => Some (item_of env m s :: l)
  | _, _ => None
  end.
Proof. simpl. unfold member_item. destruct (size_of env m); reflexivity. Qed.

(* chk_items vs items_of / offsets_ok_from *)
Lemma chk_items_rules env (sz : element_def -> option Z) els :
  (forall m s, In m els -> sz m = Some s -> size_of env m = Some s) ->
  forall acc z, chk_items env sz els acc = Some z ->
  exists items, items_of env els = Some items /\ offsets_ok_from acc items = true.
Proof.
  induction els as [|m r IH]; intros Hsz acc z.
  - intros _. exists []. auto.
  - rewrite chk_items_cons. destruct (sz m) as [s|] eqn:Es; [|discriminate].
    destruct (item_check acc (item_of env m s)) eqn:Ec; [|discriminate]. intros H.
    destruct (IH (fun x t Hx => Hsz x t (or_intror Hx)) _ _ H) as [items [Hi Ho]].
    rewrite items_of_cons, (Hsz m s (or_introl eq_refl) Es), Hi.
    exists (item_of env m s :: items). split; [reflexivity|].
    rewrite offsets_ok_from_cons, Ec, Ho. reflexivity.
Qed.

Lemma rules_chk_items env (sz : element_def -> option Z) (ez : element_def -> option Z) els :
  (forall m s, In m els -> ez m = Some s -> sz m = Some s /\ size_of env m = Some s) ->
  forall acc items z, items_of env els = Some items -> offsets_ok_from acc items = true ->
  esize_items env ez els acc = Some z -> chk_items env sz els acc = Some z.
Proof.
  induction els as [|m r IH]; intros Hsz acc items z; [simpl; auto|].
  rewrite items_of_cons, esize_items_cons, chk_items_cons.
  destruct (ez m) as [s|] eqn:Es; [|intros _ _; discriminate].
  destruct (Hsz m s (or_introl eq_refl) Es) as [H1 H2]. rewrite H1, H2.
  destruct (items_of env r) as [items'|] eqn:Ei; [|discriminate].
  intros Hit. inversion Hit; subst items.
  rewrite offsets_ok_from_cons. intros Ho. apply andb_true_iff in Ho. destruct Ho as [A C].
  rewrite A. apply (IH (fun x t Hx => Hsz x t (or_intror Hx)) _ _ _ eq_refl C).
Qed.

Lemma chk_good env : forall f e z,
  (f <= S (length env))%nat -> chk env f e = Some z -> good env e.
Proof.
  induction f as [|f IHf]; intros e; [discriminate|].
  induction e as [t|en|st|n ty o|n o els IHe] using element_ind'; intros z Lf; rewrite chk_S;
    destruct (forallb is_symbolic _) eqn:Es; try discriminate; intros H.
  - apply good_leaf; [discriminate|]. unfold e_sbe. rewrite Es. simpl. destruct (type_sem env t); auto; discriminate.
  - apply good_leaf; [discriminate|]. unfold e_sbe. rewrite Es. simpl. destruct (enum_sem env en); auto; discriminate.
  - apply good_leaf; [discriminate|]. unfold e_sbe. rewrite Es. simpl. destruct (set_sem env st); auto; discriminate.
  - apply good_leaf; [discriminate|]. unfold e_sbe. rewrite Es. simpl.
    destruct (get_encoding env ty); auto; discriminate.
  - apply good_composite. split.
    + unfold e_sbe. rewrite Es. simpl.
      destruct (chk_items_rules env (chk env (S f)) els) with (acc := @nil (option Z * option Z)) (z := z)
        as [items [Hi Ho]]; auto.
      * intros m s _ Hm. apply chk_esize in Hm. unfold size_of. eapply esize_mono_le; [|exact Hm]. lia.
      * rewrite Hi. exact Ho.
    + (* members *)
      clear Es. revert H. generalize (@nil (option Z * option Z)) as acc. revert z.
      induction IHe as [|m r Hm _ IHr]; intros z acc H; constructor.
      * simpl in H. destruct (chk env (S f) m) as [s|] eqn:E; [|discriminate]. eapply Hm; eauto.
      * simpl in H. destruct (chk env (S f) m) as [s|]; [|discriminate].
        destruct (item_check acc (item_of env m s)); [|discriminate]. eapply IHr; eauto.
Qed.

Lemma esize_chk env :
  (forall e, In e env -> good env e) ->
  forall f e z, good env e -> esize env f e = Some z -> chk env f e = Some z.
Proof.
  intros Henv. induction f as [|f IHf]; intros e; [discriminate|].
  induction e as [t|en|st|n ty o|n o els IHe] using element_ind'; intros z G; rewrite chk_S, esize_S.
  - apply good_leaf in G; [|discriminate]. unfold e_sbe in G. apply andb_true_iff in G. destruct G as [G1 G2].
    rewrite G1. simpl in G2. rewrite G2. auto.
  - apply good_leaf in G; [|discriminate]. unfold e_sbe in G. apply andb_true_iff in G. destruct G as [G1 G2].
    rewrite G1. simpl in G2. rewrite G2. auto.
  - apply good_leaf in G; [|discriminate]. unfold e_sbe in G. apply andb_true_iff in G. destruct G as [G1 G2].
    rewrite G1. simpl in G2. rewrite G2. auto.
  - apply good_leaf in G; [|discriminate]. unfold e_sbe in G. apply andb_true_iff in G. destruct G as [G1 G2].
    rewrite G1. destruct (get_encoding env ty) as [tgt|] eqn:EG; auto.
    apply IHf. apply Henv. eapply lookup_In; eauto.
  - apply good_composite in G. destruct G as [G0 GM]. unfold e_sbe in G0. apply andb_true_iff in G0.
    destruct G0 as [G1 G2]. rewrite G1. simpl in G2.
    destruct (items_of env els) as [items|] eqn:Ei; [|discriminate]. intros H.
    apply (rules_chk_items env (chk env (S f)) (esize env (S f)) els) with (items := items); auto.
    intros m s Hm Hs. split.
    + rewrite Forall_forall in IHe, GM. apply IHe; auto.
    + (* size_of m is defined (items_of) and equal *)
      assert (exists s', size_of env m = Some s') as [s' Hs'].
      { clear - Ei Hm. revert items Ei. induction els as [|x r IH]; intros items Ei; [destruct Hm|].
        simpl in Ei. unfold member_item in Ei. destruct (size_of env x) as [sx|] eqn:Ex; [|discriminate].
        destruct (items_of env r) as [ir|] eqn:Er; [|discriminate].
        destruct Hm as [<-|Hm]; [eauto | eapply IH; eauto]. }
      rewrite Hs'. f_equal. unfold size_of in Hs'. eapply esize_det; eauto.
Qed.

(* ------------------------------------------------------------------ *)
(* the parser's checks                                                 *)
(* ------------------------------------------------------------------ *)

Lemma forallb_and {A} (P Q : A -> bool) l :
  forallb (fun x => P x && Q x)%bool l = true <-> forallb P l = true /\ forallb Q l = true.
Proof.
  induction l as [|x l IH]; simpl; [tauto|]. rewrite !andb_true_iff, IH. tauto.
Qed.

Lemma forallb_map {A B} (f : A -> B) (P : B -> bool) l : forallb P (map f l) = forallb (fun x => P (f x)) l.
Proof. induction l as [|x l IH]; simpl; auto. rewrite IH. reflexivity. Qed.

Lemma forallb_app_iff {A} (P : A -> bool) l1 l2 :
  forallb P (l1 ++ l2) = true <-> forallb P l1 = true /\ forallb P l2 = true.
Proof. rewrite forallb_app, andb_true_iff. tauto. Qed.

Definition e_parse (m : element_def) : bool := (numbers_ok m && unique_ok m)%bool.

Definition choice_range (nc : str * Z) : bool := ((0 <=? snd nc) && (snd nc <=? 255))%bool.

Definition p_choices :=
  fix ch (seen : list str) (l : list (str * Z)) : voutcome unit :=
    match l with
    | [] => VOk tt
    | (n, i) :: r =>
      check ((0 <=? i) && (i <=? 255))%bool BadNumber ;;;
      if mem_str n seen then VErr DuplicateName else ch (n :: seen) r
    end.

Lemma p_choices_spec l : forall seen,
  match p_choices seen l with
  | VOk _ => forallb choice_range l = true /\ NoDup (map fst l) /\ (forall x, In x (map fst l) -> ~ In x seen)
  | VErr _ => ~ (forallb choice_range l = true /\ NoDup (map fst l) /\ (forall x, In x (map fst l) -> ~ In x seen))
  | _ => False
  end.
Proof.
  induction l as [|[n i] l IH]; intros seen; simpl.
  - split; auto. split; [constructor | tauto].
  - change (choice_range (n, i)) with ((0 <=? i) && (i <=? 255))%bool.
    destruct ((0 <=? i) && (i <=? 255))%bool; simpl.
    2:{ intros [H _]. discriminate. }
    destruct (mem_str n seen) eqn:E.
    + apply mem_str_In in E. intros [_ [_ H]]. apply (H n); auto.
    + apply mem_str_false in E. specialize (IH (n :: seen)).
      destruct (p_choices (n :: seen) l).
      * destruct IH as [A [B C]]. split; auto. split.
        -- constructor; auto. intros HI. apply (C n HI). left; auto.
        -- intros x [<-|Hx]; auto. intros HI. apply (C x Hx). right; auto.
      * intros [A [B C]]. apply IH. split; auto. inversion B; subst. split; auto.
        intros x Hx [<-|HI]; auto. apply (C x); auto.
      * exact IH.
      * exact IH.
Qed.

Definition p_members :=
  fix go (seen : list str) (els : list element_def) : voutcome unit :=
    match els with
    | [] => VOk tt
    | m :: r =>
      p_element m ;;;
      if mem_str (ename m) seen then VErr DuplicateName else go (ename m :: seen) r
    end.

Lemma p_element_composite n o els :
  p_element (EComposite n o els) = (p_onum o ;;; p_members [] els).
Proof. reflexivity. Qed.

Lemma p_element_set st :
  p_element (ESet st) = (p_onum (s_offset st) ;;; p_choices [] (s_choices st)).
Proof. reflexivity. Qed.

Definition PSpec (P : Prop) (r : voutcome unit) : Prop :=
  match r with VOk _ => P | VErr _ => ~ P | _ => False end.

Lemma PSpec_iff (P Q : Prop) r : (P <-> Q) -> PSpec P r -> PSpec Q r.
Proof. intros H. destruct r; simpl; tauto. Qed.

Lemma PSpec_check b c : PSpec (b = true) (check b c).
Proof. destruct b; simpl; auto. Qed.

Lemma PSpec_bind (P Q : Prop) (x : voutcome unit) (y : voutcome unit) :
  PSpec P x -> PSpec Q y -> PSpec (P /\ Q) (x ;;; y).
Proof. destruct x; simpl; try tauto. destruct y; simpl; tauto. Qed.

Lemma PSpec_ok r P : PSpec P r -> (r = VOk tt <-> P).
Proof.
  destruct r as [[]| | |]; simpl; intros H; split; intros G; auto; try discriminate; try contradiction.
Qed.

Lemma PSpec_regular r P : PSpec P r -> regular r.
Proof. destruct r; simpl; auto. Qed.

Lemma p_members_spec els : Forall (fun m => PSpec (forallb e_parse (flatten m) = true) (p_element m)) els ->
  forall seen,
  PSpec (forallb e_parse (flatten_list els) = true /\ NoDup (map ename els) /\
         (forall x, In x (map ename els) -> ~ In x seen)) (p_members seen els).
Proof.
  induction 1 as [|m r Hm _ IH]; intros seen; simpl.
  - split; auto. split; [constructor | tauto].
  - destruct (p_element m); simpl in *; try contradiction.
    2:{ intros [A _]. apply forallb_app_iff in A. tauto. }
    destruct (mem_str (ename m) seen) eqn:E.
    + apply mem_str_In in E. simpl. intros [_ [_ C]]. apply (C (ename m)); auto.
    + apply mem_str_false in E. specialize (IH (ename m :: seen)).
      destruct (p_members (ename m :: seen) r); simpl in *; try contradiction.
      * destruct IH as [A [B C]]. split; [apply forallb_app_iff; auto|]. split.
        -- constructor; auto. intros HI. apply (C _ HI). left; auto.
        -- intros x [<-|Hx]; auto. intros HI. apply (C x Hx). right; auto.
      * intros [A [B C]]. apply IH. apply forallb_app_iff in A. destruct A as [_ A]. split; auto.
        inversion B; subst. split; auto. intros x Hx [<-|HI]; auto. apply (C x); auto.
Qed.

Lemma p_element_spec e : PSpec (forallb e_parse (flatten e) = true) (p_element e).
Proof.
  induction e as [t|en|st|n ty o|n o els IHe] using element_ind'.
  - simpl. unfold e_parse, numbers_ok, unique_ok, p_num, p_onum. simpl.
    rewrite !andb_true_r. eapply PSpec_iff; [|apply PSpec_bind; apply PSpec_check].
    rewrite andb_true_iff. tauto.
  - simpl. unfold e_parse, numbers_ok, unique_ok, p_onum. simpl. rewrite !andb_true_r.
    pose proof (p_unique_spec (map fst (e_values en)) []) as HU.
    destruct (opt_u64_ok (e_offset en)); simpl; [|intros H; discriminate].
    pose proof (p_unique_regular (map fst (e_values en)) []) as HR.
    destruct (p_unique [] (map fst (e_values en))) as [[]| | |]; simpl in *; try contradiction.
    + apply nodup_str_NoDup. apply HU. reflexivity.
    + intros H. apply nodup_str_NoDup in H. assert (X : VErr c = VOk tt) by (apply HU; split; auto). discriminate.
  - rewrite p_element_set. simpl. unfold e_parse, numbers_ok, unique_ok, p_onum. simpl. rewrite !andb_true_r.
    destruct (opt_u64_ok (s_offset st)); simpl; [|intros H; discriminate].
    pose proof (p_choices_spec (s_choices st) []) as HC. fold choice_range.
    destruct (p_choices [] (s_choices st)); simpl in *; try contradiction.
    + destruct HC as [A [B _]]. rewrite A. apply nodup_str_NoDup; auto.
    + intros H. apply HC. apply andb_true_iff in H. destruct H as [A B]. apply nodup_str_NoDup in B.
      split; auto.
  - simpl. unfold e_parse, numbers_ok, unique_ok, p_onum. simpl. rewrite !andb_true_r.
    eapply PSpec_iff; [|apply PSpec_check]. tauto.
  - rewrite p_element_composite, flatten_composite. simpl.
    unfold e_parse at 1, numbers_ok, unique_ok, p_onum. simpl. rewrite andb_true_r.
    destruct (opt_u64_ok o); simpl; [|intros H; discriminate].
    pose proof (p_members_spec els IHe []) as HM.
    destruct (p_members [] els); simpl in *; try contradiction.
    + destruct HM as [A [B _]]. apply nodup_str_NoDup in B. rewrite B, A. reflexivity.
    + intros H. apply HM. apply andb_true_iff in H. destruct H as [B A]. apply nodup_str_NoDup in B. auto.
Qed.

Definition lname (e : element_def) : str := to_lower (ename e).

Lemma p_types_spec env : forall seen,
  PSpec (forallb (fun e => negb (is_ref e)) env = true /\ forallb e_parse (all_elements env) = true /\
         NoDup (map lname env) /\ (forall x, In x (map lname env) -> ~ In x seen)) (p_types seen env).
Proof.
  induction env as [|e env IH]; intros seen; simpl.
  - split; auto. split; auto. split; [constructor | tauto].
  - destruct (negb (is_ref e)); simpl; [|intros [H _]; discriminate].
    pose proof (p_element_spec e) as HE.
    destruct (p_element e); simpl in *; try contradiction.
    2:{ intros [_ [A _]]. unfold all_elements in A. simpl in A. apply forallb_app_iff in A. tauto. }
    fold (lname e). destruct (mem_str (lname e) seen) eqn:E.
    + apply mem_str_In in E. simpl. intros [_ [_ [_ C]]]. apply (C (lname e)); auto.
    + apply mem_str_false in E. specialize (IH (lname e :: seen)).
      destruct (p_types (lname e :: seen) env); simpl in *; try contradiction.
      * destruct IH as [A [B [C D]]]. split; auto. split; [unfold all_elements; simpl; apply forallb_app_iff; auto|].
        split.
        -- constructor; auto. intros HI. apply (D _ HI). left; auto.
        -- intros x [<-|Hx]; auto. intros HI. apply (D x Hx). right; auto.
      * intros [A [B [C D]]]. apply IH. split; auto. unfold all_elements in B. simpl in B.
        apply forallb_app_iff in B. destruct B as [_ B]. split; auto.
        inversion C; subst. split; auto. intros x Hx [<-|HI]; auto. apply (D x); auto.
Qed.

Section GroupInd.
  Variable P : group_def -> Prop.
  Hypothesis HG : forall n dim bl fs gs ds, Forall P gs -> P (GroupDef n dim bl fs gs ds).
  Fixpoint group_ind' (g : group_def) : P g :=
    match g with
    | GroupDef n dim bl fs gs ds =>
      HG n dim bl fs gs ds ((fix go (gs : list group_def) : Forall P gs :=
                               match gs with
                               | [] => Forall_nil P
                               | g' :: r => Forall_cons g' (group_ind' g') (go r)
                               end) gs)
    end.
End GroupInd.

Definition fo_ok (f : field_def) : bool := opt_u64_ok (f_offset f).

Fixpoint g_parse (g : group_def) : bool :=
  match g with
  | GroupDef n dim bl fs gs ds =>
    (opt_u64_ok bl && forallb fo_ok fs && forallb g_parse gs &&
     nodup_str (level_names fs (map gname gs) ds))%bool
  end.

Lemma p_fields_spec fs : PSpec (forallb fo_ok fs = true) (p_fields fs).
Proof.
  unfold p_fields. induction fs as [|f fs IH]; simpl; auto.
  unfold fo_ok at 1, p_onum. destruct (opt_u64_ok (f_offset f)); simpl; auto.
Qed.

Definition p_groups :=
  fix go (gs : list group_def) : voutcome unit :=
    match gs with [] => VOk tt | g' :: r => p_group g' ;;; go r end.

Lemma p_groups_spec gs : Forall (fun g => PSpec (g_parse g = true) (p_group g)) gs ->
  PSpec (forallb g_parse gs = true) (p_groups gs).
Proof.
  induction 1 as [|g r Hg _ IH]; simpl; auto.
  destruct (p_group g); simpl in *; try contradiction.
  - rewrite Hg. exact IH.
  - intros H. apply andb_true_iff in H. tauto.
Qed.

Lemma p_unique_PSpec l : PSpec (nodup_str l = true) (p_unique [] l).
Proof.
  pose proof (p_unique_nil l) as H. pose proof (p_unique_regular l []) as R.
  destruct (p_unique [] l) as [[]| | |]; simpl in *; try contradiction.
  - apply nodup_str_NoDup. apply H. reflexivity.
  - intros G. apply nodup_str_NoDup in G. apply H in G. discriminate.
Qed.

Lemma p_group_unfold n dim bl fs gs ds :
  p_group (GroupDef n dim bl fs gs ds) =
  (p_onum bl ;;; p_fields fs ;;; p_groups gs ;;;
   p_unique [] (map f_name fs ++ map gname gs ++ map d_name ds)).
Proof. reflexivity. Qed.

Lemma p_group_spec g : PSpec (g_parse g = true) (p_group g).
Proof.
  induction g as [n dim bl fs gs ds IH] using group_ind'.
  rewrite p_group_unfold. simpl g_parse.
  eapply PSpec_iff; [|apply PSpec_bind; [apply PSpec_check | apply PSpec_bind; [apply p_fields_spec |
    apply PSpec_bind; [apply p_groups_spec; exact IH | apply p_unique_PSpec]]]].
  unfold level_names. rewrite !andb_true_iff. tauto.
Qed.

Definition m_parse (m : message_def) : bool :=
  ((0 <=? m_id m) && (m_id m <=? 4294967295) && opt_u64_ok (m_bl m) && forallb fo_ok (m_fields m) &&
   forallb g_parse (m_groups m) &&
   nodup_str (level_names (m_fields m) (map gname (m_groups m)) (m_data m)))%bool.

Lemma p_message_spec m : PSpec (m_parse m = true) (p_message m).
Proof.
  unfold p_message, m_parse.
  eapply PSpec_iff; [|apply PSpec_bind; [apply PSpec_check | apply PSpec_bind; [apply PSpec_check |
    apply PSpec_bind; [apply p_fields_spec | apply PSpec_bind; [apply (p_groups_spec (m_groups m)) |
    apply p_unique_PSpec]]]]].
  - unfold level_names. rewrite !andb_true_iff. tauto.
  - apply Forall_forall. intros g _. apply p_group_spec.
Qed.

Lemma p_messages_spec ms : forall names ids,
  PSpec (forallb m_parse ms = true /\
         (NoDup (map m_name ms) /\ (forall x, In x (map m_name ms) -> ~ In x names)) /\
         (NoDup (map m_id ms) /\ (forall x, In x (map m_id ms) -> ~ In x ids)))
        (p_messages names ids ms).
Proof.
  induction ms as [|m ms IH]; intros names ids; simpl.
  - split; auto. split; (split; [constructor | tauto]).
  - pose proof (p_message_spec m) as HM.
    destruct (p_message m); simpl in *; try contradiction.
    2:{ intros [A _]. apply andb_true_iff in A. tauto. }
    rewrite HM. simpl.
    destruct (mem_str (m_name m) names) eqn:E1.
    { apply mem_str_In in E1. simpl. intros [_ [[_ C] _]]. apply (C (m_name m)); auto. }
    apply mem_str_false in E1.
    destruct (mem_z (m_id m) ids) eqn:E2.
    { apply mem_z_In in E2. simpl. intros [_ [_ [_ C]]]. apply (C (m_id m)); auto. }
    assert (E2' : ~ In (m_id m) ids) by (intros HI; apply mem_z_In in HI; congruence).
    specialize (IH (m_name m :: names) (m_id m :: ids)).
    destruct (p_messages (m_name m :: names) (m_id m :: ids) ms); simpl in *; try contradiction.
    + destruct IH as [A [[B1 B2] [C1 C2]]]. split; auto. split; split.
      * constructor; auto. intros HI. apply (B2 _ HI). left; auto.
      * intros x [<-|Hx]; auto. intros HI. apply (B2 x Hx). right; auto.
      * constructor; auto. intros HI. apply (C2 _ HI). left; auto.
      * intros x [<-|Hx]; auto. intros HI. apply (C2 x Hx). right; auto.
    + intros [A [[B1 B2] [C1 C2]]]. apply IH. split; auto. inversion B1; inversion C1; subst. split; split; auto.
      * intros x Hx [<-|HI]; auto. apply (B2 x); auto.
      * intros x Hx [<-|HI]; auto. apply (C2 x); auto.
Qed.

Definition s_parse (s : schema_def) : Prop :=
  forallb (fun e => negb (is_ref e)) (sc_types s) = true /\
  forallb e_parse (all_elements (sc_types s)) = true /\
  nodup_str (map lname (sc_types s)) = true /\
  forallb m_parse (sc_messages s) = true /\
  nodup_str (map m_name (sc_messages s)) = true /\ nodup_z (map m_id (sc_messages s)) = true.

Lemma parse_checks_spec s : PSpec (s_parse s) (parse_checks s).
Proof.
  unfold parse_checks, s_parse.
  eapply PSpec_iff; [|apply PSpec_bind; [apply (p_types_spec (sc_types s) []) | apply (p_messages_spec (sc_messages s) [] [])]].
  rewrite !nodup_str_NoDup, nodup_z_NoDup. split.
  - intros [[A [B [C _]]] [D [[E _] [F _]]]]. tauto.
  - intros [A [B [C [D [E F]]]]]. repeat split; auto.
Qed.

(* ------------------------------------------------------------------ *)
(* the C++ name checks                                                 *)
(* ------------------------------------------------------------------ *)

Definition notkw (n : str) : bool := negb (is_keyword n).
Definition e_cpp (m : element_def) : bool := forallb notkw (own_names m).

Lemma c_name_spec n : PSpec (notkw n = true) (c_name n).
Proof. apply PSpec_check. Qed.

Lemma c_names_spec l : PSpec (forallb notkw l = true) (c_names l).
Proof.
  induction l as [|n l IH]; simpl; auto.
  eapply PSpec_iff; [|apply PSpec_bind; [apply c_name_spec | exact IH]].
  rewrite andb_true_iff. tauto.
Qed.

Definition c_members :=
  fix go (els : list element_def) : voutcome unit :=
    match els with [] => VOk tt | m :: r => c_element m ;;; go r end.

Lemma c_element_composite n o els : c_element (EComposite n o els) = (c_name n ;;; c_members els).
Proof. reflexivity. Qed.

Lemma c_members_spec els : Forall (fun m => PSpec (forallb e_cpp (flatten m) = true) (c_element m)) els ->
  PSpec (forallb e_cpp (flatten_list els) = true) (c_members els).
Proof.
  induction 1 as [|m r Hm _ IH]; simpl; auto.
  eapply PSpec_iff; [|apply PSpec_bind; [exact Hm | exact IH]].
  rewrite forallb_app_iff. tauto.
Qed.

Lemma c_element_spec e : PSpec (forallb e_cpp (flatten e) = true) (c_element e).
Proof.
  induction e as [t|en|st|n ty o|n o els IHe] using element_ind'.
  - simpl. unfold e_cpp. simpl. rewrite !andb_true_r. apply c_name_spec.
  - simpl. unfold e_cpp. simpl. rewrite andb_true_r.
    eapply PSpec_iff; [|apply PSpec_bind; [apply c_name_spec | apply c_names_spec]].
    rewrite andb_true_iff. tauto.
  - simpl. unfold e_cpp. simpl. rewrite andb_true_r.
    eapply PSpec_iff; [|apply PSpec_bind; [apply c_name_spec | apply c_names_spec]].
    rewrite andb_true_iff. tauto.
  - simpl. unfold e_cpp. simpl. rewrite !andb_true_r. apply c_name_spec.
  - rewrite c_element_composite, flatten_composite. simpl. unfold e_cpp at 1. simpl. rewrite andb_true_r.
    eapply PSpec_iff; [|apply PSpec_bind; [apply c_name_spec | apply c_members_spec; exact IHe]].
    rewrite andb_true_iff. tauto.
Qed.

Lemma c_elements_spec l : PSpec (forallb e_cpp (all_elements l) = true) (c_elements l).
Proof.
  induction l as [|e l IH]; simpl; auto.
  eapply PSpec_iff; [|apply PSpec_bind; [apply c_element_spec | exact IH]].
  unfold all_elements. simpl. rewrite forallb_app_iff. tauto.
Qed.

Fixpoint g_cpp (g : group_def) : bool :=
  match g with
  | GroupDef n _ _ fs gs ds =>
    (notkw n && forallb notkw (map f_name fs) && forallb g_cpp gs && forallb notkw (map d_name ds))%bool
  end.

Definition c_groups' :=
  fix go (gs : list group_def) : voutcome unit :=
    match gs with [] => VOk tt | g' :: r => c_group g' ;;; go r end.

Lemma c_group_unfold n dim bl fs gs ds :
  c_group (GroupDef n dim bl fs gs ds) =
  (c_name n ;;; c_names (map f_name fs) ;;; c_groups' gs ;;; c_names (map d_name ds)).
Proof. reflexivity. Qed.

Lemma c_groups'_spec gs : Forall (fun g => PSpec (g_cpp g = true) (c_group g)) gs ->
  PSpec (forallb g_cpp gs = true) (c_groups' gs).
Proof.
  induction 1 as [|g r Hg _ IH]; simpl; auto.
  eapply PSpec_iff; [|apply PSpec_bind; [exact Hg | exact IH]]. rewrite andb_true_iff. tauto.
Qed.

Lemma c_group_spec g : PSpec (g_cpp g = true) (c_group g).
Proof.
  induction g as [n dim bl fs gs ds IH] using group_ind'.
  rewrite c_group_unfold. simpl g_cpp.
  eapply PSpec_iff; [|apply PSpec_bind; [apply c_name_spec | apply PSpec_bind; [apply c_names_spec |
    apply PSpec_bind; [apply c_groups'_spec; exact IH | apply c_names_spec]]]].
  rewrite !andb_true_iff. tauto.
Qed.

Lemma c_groups_spec gs : PSpec (forallb g_cpp gs = true) (c_groups gs).
Proof.
  induction gs as [|g r IH]; simpl; auto.
  eapply PSpec_iff; [|apply PSpec_bind; [apply c_group_spec | exact IH]]. rewrite andb_true_iff. tauto.
Qed.

Definition m_cpp (m : message_def) : bool :=
  (notkw (m_name m) && forallb notkw (map f_name (m_fields m)) && forallb g_cpp (m_groups m) &&
   forallb notkw (map d_name (m_data m)))%bool.

Lemma c_messages_spec ms : PSpec (forallb m_cpp ms = true) (c_messages ms).
Proof.
  induction ms as [|m r IH]; simpl; auto.
  eapply PSpec_iff; [|apply PSpec_bind; [apply c_name_spec | apply PSpec_bind; [apply c_names_spec |
    apply PSpec_bind; [apply c_groups_spec | apply PSpec_bind; [apply c_names_spec | exact IH]]]]].
  unfold m_cpp. rewrite !andb_true_iff. tauto.
Qed.

Definition s_cpp (s : schema_def) : Prop :=
  schema_name_ok (sc_name s) = true /\ forallb e_cpp (all_elements (sc_types s)) = true /\
  forallb m_cpp (sc_messages s) = true.

Lemma cpp_validate_spec s : PSpec (s_cpp s) (cpp_validate s).
Proof.
  unfold cpp_validate, s_cpp.
  apply PSpec_bind; [apply PSpec_check | apply PSpec_bind; [apply c_elements_spec | apply c_messages_spec]].
Qed.

(* ------------------------------------------------------------------ *)
(* level headers and message levels                                    *)
(* ------------------------------------------------------------------ *)

Lemma v_header_element_spec env els name :
  match v_header_element env els name with
  | VOk t => header_member_type env els name = Some t
  | VErr _ => header_member_type env els name = None
  | _ => False
  end.
Proof.
  unfold v_header_element, header_member_type.
  destruct (find_element els name) as [[t|e|s|n ty o|n o l]|]; auto.
  destruct (get_encoding env ty) as [[t|e|s|n' ty' o'|n' o' l]|]; auto.
Qed.

Lemma v_level_header_element_spec env els name :
  PSpec (scalar_member_ok env els name = true) (v_level_header_element env els name).
Proof.
  unfold v_level_header_element, scalar_member_ok.
  pose proof (v_header_element_spec env els name) as H.
  destruct (v_header_element env els name) as [t| | |]; simpl; try contradiction.
  - rewrite H. eapply PSpec_iff; [|apply PSpec_bind; apply PSpec_check]. rewrite andb_true_iff. tauto.
  - rewrite H. discriminate.
Qed.

Definition v_required (env : list element_def) (els : list element_def) :=
  fix go (l : list str) : voutcome unit :=
    match l with
    | [] => VOk tt
    | n :: r => v_level_header_element env els n ;;; go r
    end.

Lemma v_required_spec env els l : PSpec (forallb (scalar_member_ok env els) l = true) (v_required env els l).
Proof.
  induction l as [|n r IH]; simpl; auto.
  eapply PSpec_iff; [|apply PSpec_bind; [apply v_level_header_element_spec | exact IH]].
  rewrite andb_true_iff. tauto.
Qed.

Lemma v_level_header_spec env ty req :
  PSpec (level_header_ok env ty req = true) (v_level_header env ty req).
Proof.
  unfold v_level_header, level_header_ok.
  destruct (get_encoding env ty) as [[t|e|s|n ty' o|n o els]|]; simpl; try discriminate.
  apply (v_required_spec env els req).
Qed.

Lemma v_data_header_spec env ty : PSpec (data_header_ok env ty = true) (v_data_header env ty).
Proof.
  unfold v_data_header, data_header_ok.
  destruct (get_encoding env ty) as [[t|e|s|n ty' o|n o els]|]; simpl; try discriminate.
  pose proof (v_level_header_element_spec env els k_length) as H1.
  destruct (v_level_header_element env els k_length); simpl in *; try contradiction.
  2:{ intros H. apply andb_true_iff in H. tauto. }
  rewrite H1. simpl.
  pose proof (v_header_element_spec env els k_varData) as H2.
  destruct (v_header_element env els k_varData) as [t| | |]; simpl; try contradiction.
  - rewrite H2. apply PSpec_check.
  - rewrite H2. discriminate.
Qed.

Lemma level_header_ok_lower env d d' req :
  to_lower d = to_lower d' -> level_header_ok env d req = level_header_ok env d' req.
Proof. intros H. unfold level_header_ok, get_encoding. rewrite H. reflexivity. Qed.

Lemma data_header_ok_lower env d d' :
  to_lower d = to_lower d' -> data_header_ok env d = data_header_ok env d'.
Proof. intros H. unfold data_header_ok, get_encoding. rewrite H. reflexivity. Qed.

Section Levels.
  Variable env : list element_def.
  Variable st : vstate.
  Hypothesis no_refs : forallb (fun e => negb (is_ref e)) env = true.
  Hypothesis st_ok : forall e, In e env -> exists z, assoc (ename e) st = Some (Some z) /\ size_of env e = Some z.

  Definition Memo (mm : vmemo) : Prop :=
    (forall d, In (to_lower d) (fst mm) -> level_header_ok env d group_header_members = true) /\
    (forall d, In (to_lower d) (snd mm) -> data_header_ok env d = true).

  Definition MSpec (P : Prop) (r : voutcome vmemo) : Prop :=
    match r with VOk mm' => Memo mm' /\ P | VErr _ => ~ P | _ => False end.

  Lemma MSpec_iff (P Q : Prop) r : (P <-> Q) -> MSpec P r -> MSpec Q r.
  Proof. intros H. destruct r; simpl; tauto. Qed.

  Lemma MSpec_pre (P Q : Prop) (x : voutcome unit) (y : voutcome vmemo) :
    PSpec P x -> MSpec Q y -> MSpec (P /\ Q) (x ;;; y).
  Proof. destruct x; simpl; try tauto. destruct y; simpl; tauto. Qed.

  Lemma MSpec_bind (P Q : Prop) (x : voutcome vmemo) (f : vmemo -> voutcome vmemo) :
    MSpec P x -> (forall mm, Memo mm -> MSpec Q (f mm)) -> MSpec (P /\ Q) (mm <- x ;; f mm).
  Proof.
    destruct x as [mm| | |]; simpl; try tauto. intros [HM HP] Hf. specialize (Hf mm HM).
    destruct (f mm); simpl in *; tauto.
  Qed.

  Lemma lookup_not_ref ty e : get_encoding env ty = Some e -> is_ref e = false.
  Proof.
    intros H. apply lookup_In in H. rewrite forallb_forall in no_refs.
    specialize (no_refs e H). apply negb_true_iff in no_refs. exact no_refs.
  Qed.

  Lemma v_group_header_spec mm dim : Memo mm ->
    MSpec (level_header_ok env dim group_header_members = true) (v_group_header env mm dim).
  Proof.
    intros [MG MD]. unfold v_group_header.
    destruct (mem_str (to_lower dim) (fst mm)) eqn:E.
    - apply mem_str_In in E. simpl. split; [split; auto | apply MG; auto].
    - pose proof (v_level_header_spec env dim group_header_members) as H.
      destruct (v_level_header env dim group_header_members); simpl in *; try contradiction; auto.
      split; auto. split; auto. simpl. intros d [Hd|Hd]; auto.
      rewrite (level_header_ok_lower env d dim); auto.
  Qed.

  Definition sym_d (d : data_def) : bool := is_symbolic (d_name d).
  Definition dh_ok (d : data_def) : bool := data_header_ok env (d_type d).

  Lemma v_datas_spec ds : forall mm, Memo mm ->
    MSpec (forallb sym_d ds = true /\ forallb dh_ok ds = true) (v_datas env mm ds).
  Proof.
    induction ds as [|d ds IH]; intros mm HM; simpl; [tauto|].
    unfold v_name. unfold sym_d at 1. destruct (is_symbolic (d_name d)); simpl; [|intros [H _]; discriminate].
    unfold dh_ok at 1.
    destruct (mem_str (to_lower (d_type d)) (snd mm)) eqn:E.
    - apply mem_str_In in E. destruct HM as [MG MD]. rewrite (MD _ E). simpl.
      eapply MSpec_iff; [|apply IH; split; auto]. tauto.
    - pose proof (v_data_header_spec env (d_type d)) as H.
      destruct (v_data_header env (d_type d)); simpl in *; try contradiction.
      + rewrite H. simpl. eapply MSpec_iff; [|apply IH]. tauto.
        destruct HM as [MG MD]. split; auto. simpl. intros x [Hx|Hx]; auto.
        rewrite (data_header_ok_lower env x (d_type d)); auto.
      + intros [_ G]. apply andb_true_iff in G. tauto.
  Qed.

  (* size and actual presence of a field, as validate_members computes them *)
  Definition v_field_sp (f : field_def) : voutcome (Z * presence_kind) :=
    match prim_of_name (f_type f) with
    | Some p => VOk (psize p, f_presence f)
    | None =>
      match get_encoding env (f_type f) with
      | None => VErr UnknownType
      | Some enc => z <- ctx_get st enc ;; VOk (z, v_actual_presence f enc)
      end
    end.

  Lemma v_field_sp_spec f :
    match v_field_sp f with
    | VOk sp => field_size env f = Some (fst sp) /\
                presence_eqb (snd sp) PConstant = field_is_constant env f
    | VErr _ => field_size env f = None
    | _ => False
    end.
  Proof.
    unfold v_field_sp, field_size, field_is_constant.
    destruct (prim_of_name (f_type f)); simpl; auto.
    destruct (get_encoding env (f_type f)) as [enc|] eqn:EG; simpl; auto.
    destruct (st_ok enc (lookup_In _ _ _ EG)) as [z [Hz Hs]]. unfold ctx_get. rewrite Hz. simpl.
    split; auto. destruct enc as [t|e|s|n ty o|n o l]; simpl; auto.
    destruct (f_presence f); reflexivity.
  Qed.

  Lemma v_constant_field_spec f :
    field_is_constant env f = true -> field_size env f <> None ->
    PSpec (constant_field_ok env f = true) (v_constant_field env f).
  Proof.
    unfold field_is_constant, field_size, constant_field_ok, v_constant_field.
    destruct (prim_of_name (f_type f)) as [p|].
    - intros _ _. destruct (f_vref f) as [r|]; simpl; [|discriminate].
      pose proof (find_value_ref_regular env r) as R. pose proof (value_ref_ok_spec env r p) as V.
      destruct (v_find_value_ref env r) as [ev| | |] eqn:EF; simpl in *; try contradiction.
      + destruct (enum_value_fits (fst ev) (snd ev) p) eqn:EV; simpl.
        * apply V. eauto.
        * intros H. apply V in H. destruct H as [ev' [H1 H2]]. inversion H1; subst. congruence.
      + intros H. apply V in H. destruct H as [ev' [H1 _]]. discriminate.
    - destruct (get_encoding env (f_type f)) as [[t|e|s|n ty o|n o l]|] eqn:EG; simpl; intros HC HS;
        try discriminate; try congruence; auto.
      + destruct (f_vref f) as [r|]; simpl; [|discriminate].
        pose proof (find_value_ref_regular env r) as R. pose proof (find_value_ref_spec env r) as V.
        destruct (v_find_value_ref env r) as [ev| | |] eqn:EF; simpl in *; try contradiction.
        * destruct ev as [e' v']. rewrite (proj1 (V (e', v')) eq_refl). simpl. apply PSpec_check.
        * destruct (resolve_value_ref env r) as [ev|] eqn:ER; [|discriminate].
          destruct (V ev) as [_ X]. specialize (X eq_refl). discriminate.
      + apply lookup_not_ref in EG. discriminate.
  Qed.

  Definition sym_f (f : field_def) : bool := is_symbolic (f_name f).

  Lemma field_items_cons f r :
    field_items env (f :: r) =
    match field_item env f, field_items env r with
    | Some i, Some l => Some (i :: l)
    | _, _ => None
    end.
  Proof. reflexivity. Qed.

  Definition FieldsP (fs : list field_def) (acc : list (option Z * option Z)) (c : option Z) : Prop :=
    forallb sym_f fs = true /\ forallb (field_sem env) fs = true /\
    exists items, field_items env fs = Some items /\ offsets_ok_from acc items = true /\
                  match c with Some c => c = end_of (rev items ++ acc) | None => True end.

  Lemma v_fields_unfold f r cur :
    v_fields true env st (f :: r) cur =
    (v_name (f_name f) ;;;
     sp <- v_field_sp f ;;
     cur' <- (if presence_eqb (snd sp) PConstant
              then v_constant_field env f ;;; VOk cur
              else v_place true (f_offset f) cur (fst sp)) ;;
     v_fields true env st r cur').
  Proof. reflexivity. Qed.

  Lemma v_fields_spec fs : forall acc, end_of acc <= max_u64 ->
    match v_fields true env st fs (end_of acc) with
    | VOk c => FieldsP fs acc (Some c)
    | VErr _ => ~ FieldsP fs acc None
    | _ => False
    end.
  Proof.
    induction fs as [|f fs IH]; intros acc Hacc.
    - simpl. unfold FieldsP. split; auto. split; auto. exists []. auto.
    - rewrite v_fields_unfold. unfold v_name, FieldsP. rewrite field_items_cons.
      simpl forallb. unfold sym_f at 1 3.
      destruct (is_symbolic (f_name f)); simpl; [|intros [H _]; discriminate].
      pose proof (v_field_sp_spec f) as HS.
      destruct (v_field_sp f) as [[sz pres]| | |]; simpl in *; try contradiction.
      2:{ intros [_ [H _]]. unfold field_sem in H. rewrite HS in H. discriminate. }
      destruct HS as [HS HP]. unfold field_item, field_sem at 1 3. rewrite HS, HP.
      destruct (field_is_constant env f) eqn:FC; simpl.
      + (* constant *)
        pose proof (v_constant_field_spec f FC ltac:(congruence)) as HC.
        destruct (v_constant_field env f); simpl in *; try contradiction.
        2:{ intros [_ [H _]]. apply andb_true_iff in H. tauto. }
        rewrite HC. simpl.
        assert (Hend : end_of ((f_offset f, None) :: acc) = end_of acc) by (destruct (f_offset f); reflexivity).
        assert (Hck : item_check acc (f_offset f, None) = true).
        { unfold item_check. rewrite Hend. destruct (f_offset f); simpl; apply Z.leb_le; auto. }
        specialize (IH ((f_offset f, None) :: acc)). rewrite Hend in IH. specialize (IH Hacc).
        destruct (v_fields true env st fs (end_of acc)); try contradiction.
        * destruct IH as [A [B [items [C [D E]]]]]. split; auto. split; auto.
          rewrite C. exists ((f_offset f, None) :: items). split; auto.
          rewrite offsets_ok_from_cons, Hck, D. split; auto. simpl. rewrite <- app_assoc. exact E.
        * intros [A [B [items [C [D _]]]]]. apply IH. split; auto. split; auto.
          destruct (field_items env fs) as [items'|]; [|discriminate]. inversion C; subst.
          exists items'. split; auto. rewrite offsets_ok_from_cons in D. apply andb_true_iff in D. tauto.
      + (* takes space *)
        pose proof (v_place_spec acc (f_offset f) sz) as HP'.
        destruct (v_place true (f_offset f) (end_of acc) sz) as [c| | |]; simpl; try contradiction.
        * destruct HP' as [Hck ->].
          specialize (IH ((f_offset f, Some sz) :: acc) (item_check_end _ _ Hck)).
          destruct (v_fields true env st fs (end_of ((f_offset f, Some sz) :: acc))); try contradiction.
          -- destruct IH as [A [B [items [C [D E]]]]]. split; auto. split; auto.
             rewrite C. exists ((f_offset f, Some sz) :: items). split; auto.
             rewrite offsets_ok_from_cons, Hck, D. split; auto. simpl. rewrite <- app_assoc. exact E.
          -- intros [A [B [items [C [D _]]]]]. apply IH. split; auto. split; auto.
             destruct (field_items env fs) as [items'|]; [|discriminate]. inversion C; subst.
             exists items'. split; auto. rewrite offsets_ok_from_cons in D. apply andb_true_iff in D. tauto.
        * intros [A [B [items [C [D _]]]]].
          destruct (field_items env fs) as [items'|]; [|discriminate]. inversion C; subst.
          rewrite offsets_ok_from_cons, HP' in D. discriminate.
  Qed.

  Definition level_fields_ok (fs : list field_def) (bl : option Z) : Prop :=
    forallb sym_f fs = true /\ forallb (field_sem env) fs = true /\ block_ok env fs bl = true.

  Lemma v_block_spec fs bl :
    PSpec (level_fields_ok fs bl)
          (minimal <- v_fields true env st fs 0 ;; v_block_length bl minimal).
  Proof.
    pose proof (v_fields_spec fs []) as HF. change (end_of []) with 0 in HF.
    specialize (HF ltac:(unfold max_u64; lia)). unfold level_fields_ok, block_ok.
    destruct (v_fields true env st fs 0) as [c| | |]; simpl; try contradiction.
    - destruct HF as [A [B [items [C [D E]]]]]. rewrite app_nil_r in E. subst c. rewrite C.
      unfold offsets_ok. rewrite D. simpl. unfold v_block_length. destruct bl as [b|]; simpl; [|auto].
      replace (negb (b <? end_of (rev items))) with (end_of (rev items) <=? b).
      + destruct (end_of (rev items) <=? b); simpl; auto. intros [_ [_ H]]. discriminate.
      + destruct (b <? end_of (rev items)) eqn:X, (end_of (rev items) <=? b) eqn:Y; auto;
          [apply Z.ltb_lt in X; apply Z.leb_le in Y | apply Z.ltb_ge in X; apply Z.leb_gt in Y]; lia.
    - intros [A [B C]]. apply HF. split; auto. split; auto.
      destruct (field_items env fs) as [items|]; [|discriminate]. exists items.
      apply andb_true_iff in C. unfold offsets_ok in C. tauto.
  Qed.

  Definition level_sbe (fs : list field_def) (ds : list data_def) (bl : option Z) : bool :=
    (forallb sym_f fs && forallb (field_sem env) fs && block_ok env fs bl &&
     forallb sym_d ds && forallb dh_ok ds)%bool.

  Fixpoint g_sbe (g : group_def) : bool :=
    match g with
    | GroupDef n dim bl fs gs ds =>
      (is_symbolic n && level_header_ok env dim group_header_members && level_sbe fs ds bl &&
       forallb g_sbe gs)%bool
    end.

  Definition v_subgroups :=
    fix go (mm : vmemo) (gs : list group_def) : voutcome vmemo :=
      match gs with
      | [] => VOk mm
      | g' :: r => mm' <- v_group true env st mm g' ;; go mm' r
      end.

  Lemma v_group_unfold mm n dim bl fs gs ds :
    v_group true env st mm (GroupDef n dim bl fs gs ds) =
    (v_name n ;;;
     mm1 <- v_group_header env mm dim ;;
     minimal <- v_fields true env st fs 0 ;;
     v_block_length bl minimal ;;;
     mm2 <- v_subgroups mm1 gs ;;
     v_datas env mm2 ds).
  Proof. reflexivity. Qed.

  Lemma v_subgroups_spec gs :
    Forall (fun g => forall mm, Memo mm -> MSpec (g_sbe g = true) (v_group true env st mm g)) gs ->
    forall mm, Memo mm -> MSpec (forallb g_sbe gs = true) (v_subgroups mm gs).
  Proof.
    induction 1 as [|g r Hg _ IH]; intros mm HM; simpl; [tauto|].
    eapply MSpec_iff; [|apply MSpec_bind; [apply Hg; auto | intros mm' HM'; apply IH; auto]].
    rewrite andb_true_iff. tauto.
  Qed.

  Lemma bind_assoc_block {B} (x : voutcome Z) (f : Z -> voutcome unit) (k : voutcome B) :
    (minimal <- x ;; f minimal ;;; k) = ((minimal <- x ;; f minimal) ;;; k).
  Proof. destruct x; reflexivity. Qed.

  Lemma v_group_spec g : forall mm, Memo mm -> MSpec (g_sbe g = true) (v_group true env st mm g).
  Proof.
    induction g as [n dim bl fs gs ds IH] using group_ind'. intros mm HM.
    rewrite v_group_unfold. simpl g_sbe.
    eapply MSpec_iff; [|apply MSpec_pre; [apply PSpec_check|];
      apply MSpec_bind; [apply v_group_header_spec; auto|]; intros mm1 HM1;
      rewrite bind_assoc_block; apply MSpec_pre; [apply v_block_spec|];
      apply MSpec_bind; [apply v_subgroups_spec; auto|]; intros mm2 HM2; apply v_datas_spec; auto].
    unfold level_sbe, level_fields_ok, v_name. rewrite !andb_true_iff. tauto.
  Qed.

  Lemma v_groups_spec gs : forall mm, Memo mm -> MSpec (forallb g_sbe gs = true) (v_groups true env st mm gs).
  Proof.
    induction gs as [|g r IH]; intros mm HM; simpl; [tauto|].
    eapply MSpec_iff; [|apply MSpec_bind; [apply v_group_spec; auto | intros mm' HM'; apply IH; auto]].
    rewrite andb_true_iff. tauto.
  Qed.

  Definition m_sbe (m : message_def) : bool :=
    (is_symbolic (m_name m) && level_sbe (m_fields m) (m_data m) (m_bl m) && forallb g_sbe (m_groups m))%bool.

  Lemma v_message_spec m : forall mm, Memo mm -> MSpec (m_sbe m = true) (v_message true env st mm m).
  Proof.
    intros mm HM. unfold v_message, m_sbe.
    eapply MSpec_iff; [|apply MSpec_pre; [apply PSpec_check|];
      rewrite bind_assoc_block; apply MSpec_pre; [apply v_block_spec|];
      apply MSpec_bind; [apply v_groups_spec; auto|]; intros mm2 HM2; apply v_datas_spec; auto].
    unfold level_sbe, level_fields_ok, v_name. rewrite !andb_true_iff. tauto.
  Qed.

  Lemma v_messages_spec ms : forall mm, Memo mm -> MSpec (forallb m_sbe ms = true) (v_messages true env st mm ms).
  Proof.
    induction ms as [|m r IH]; intros mm HM; simpl; [tauto|].
    eapply MSpec_iff; [|apply MSpec_bind; [apply v_message_spec; auto | intros mm' HM'; apply IH; auto]].
    rewrite andb_true_iff. tauto.
  Qed.

  Lemma Memo_nil : Memo ([], []).
  Proof. split; intros d []. Qed.
End Levels.

(* ------------------------------------------------------------------ *)
(* rules_ok split by the pass that enforces each rule                  *)
(* ------------------------------------------------------------------ *)

Lemma forallb_name_ok l :
  forallb name_ok l = true <-> forallb is_symbolic l = true /\ forallb notkw l = true.
Proof. apply (forallb_and is_symbolic notkw). Qed.

Lemma element_rule_split env m :
  element_rule env m = true <-> e_parse m = true /\ e_sbe env m = true /\ e_cpp m = true.
Proof.
  unfold element_rule, e_parse, e_sbe, e_cpp. rewrite !andb_true_iff, forallb_name_ok. tauto.
Qed.

Lemma forallb_iff3 {A} (R P Q S : A -> bool) l :
  (forall x, R x = true <-> P x = true /\ Q x = true /\ S x = true) ->
  (forallb R l = true <-> forallb P l = true /\ forallb Q l = true /\ forallb S l = true).
Proof.
  intros H. induction l as [|x l IH]; simpl; [tauto|].
  rewrite !andb_true_iff, IH, H. tauto.
Qed.

Lemma forallb_fix_groups (P : group_def -> bool) gs :
  (fix all (gs : list group_def) : bool := match gs with [] => true | g' :: r => (P g' && all r)%bool end) gs
  = forallb P gs.
Proof. reflexivity. Qed.

Lemma level_rule_split env fs gnames ds bl :
  level_rule env fs gnames ds bl = true <->
  (forallb fo_ok fs = true /\ opt_u64_ok bl = true /\ nodup_str (level_names fs gnames ds) = true) /\
  level_sbe env fs ds bl = true /\
  (forallb notkw (map f_name fs) = true /\ forallb notkw (map d_name ds) = true).
Proof.
  unfold level_rule, level_sbe.
  rewrite !andb_true_iff, !forallb_map.
  rewrite (forallb_and (fun f => is_symbolic (f_name f)) (fun f => notkw (f_name f)) fs).
  rewrite (forallb_and (fun d => is_symbolic (d_name d)) (fun d => notkw (d_name d)) ds).
  unfold sym_f, sym_d, dh_ok, fo_ok. tauto.
Qed.

Lemma group_rule_split env g :
  group_rule env g = true <-> g_parse g = true /\ g_sbe env g = true /\ g_cpp g = true.
Proof.
  induction g as [n dim bl fs gs ds IH] using group_ind'.
  simpl group_rule. rewrite forallb_fix_groups. simpl g_parse. simpl g_sbe. simpl g_cpp.
  rewrite !andb_true_iff, level_rule_split.
  assert (HG : forallb (group_rule env) gs = true <->
               forallb g_parse gs = true /\ forallb (g_sbe env) gs = true /\ forallb g_cpp gs = true).
  { clear - IH. induction IH as [|g r Hg _ IHr]; simpl; [tauto|]. rewrite !andb_true_iff, Hg, IHr. tauto. }
  rewrite HG. unfold name_ok, notkw. rewrite !andb_true_iff. tauto.
Qed.

Lemma message_rule_split env m :
  message_rule env m = true <-> m_parse m = true /\ m_sbe env m = true /\ m_cpp m = true.
Proof.
  unfold message_rule, m_parse, m_sbe, m_cpp.
  rewrite !andb_true_iff, level_rule_split, (forallb_iff3 _ _ _ _ _ (group_rule_split env)).
  unfold name_ok, notkw. rewrite !andb_true_iff. tauto.
Qed.

Definition s_sbe (s : schema_def) : Prop :=
  let env := sc_types s in
  forallb (e_sbe env) (all_elements env) = true /\
  forallb (fun e => match size_of env e with Some _ => true | None => false end) env = true /\
  level_header_ok env (sc_header s) message_header_members = true /\
  forallb (m_sbe env) (sc_messages s) = true.

Lemma rules_ok_split s : rules_ok s = true <-> s_parse s /\ s_sbe s /\ s_cpp s.
Proof.
  unfold rules_ok, s_parse, s_sbe, s_cpp. cbv zeta.
  rewrite !andb_true_iff, (forallb_iff3 _ _ _ _ _ (element_rule_split (sc_types s))),
    (forallb_iff3 _ _ _ _ _ (message_rule_split (sc_types s))).
  fold lname. unfold lname. tauto.
Qed.

(* ------------------------------------------------------------------ *)
(* validate_iff_rules                                                  *)
(* ------------------------------------------------------------------ *)

Lemma NoDup_map_inv' {A B C} (f : A -> B) (g : B -> C) l : NoDup (map (fun x => g (f x)) l) -> NoDup (map f l).
Proof.
  induction l as [|x l IH]; simpl; intros H; [constructor|]. inversion H; subst. constructor; auto.
  intros HI. apply H2. apply in_map_iff in HI. destruct HI as [y [Hy Hin]].
  apply in_map_iff. exists y. split; auto. rewrite Hy. reflexivity.
Qed.

Lemma in_all_elements env m : In m (all_elements env) <-> exists e, In e env /\ In m (flatten e).
Proof. unfold all_elements. rewrite in_flat_map. tauto. Qed.

(* what validate_types establishes *)
Definition types_ok (env : list element_def) (st : vstate) : Prop :=
  forall e, In e env -> exists z, assoc (ename e) st = Some (Some z) /\
                                  chk env (S (length env)) e = Some z.

Lemma v_types_run env :
  NoDup (map ename env) ->
  match v_types true env (S (length env)) [] env with
  | VOk st => types_ok env st
  | VErr _ => exists e, In e env /\ forall f, chk env f e = None
  | _ => False
  end.
Proof.
  intros ND.
  pose proof (v_types_spec env ND env [] (Inv_nil env) eq_refl (incl_refl env)) as H.
  destruct (v_types true env (S (length env)) [] env) as [st| | |]; auto.
  destruct H as [HI [_ Hall]]. intros e He. destruct (Hall e He) as [z Hz]. exists z. split; auto.
  pose proof (Inv_bound env st HI) as HB. pose proof (ncomp_nip st) as HC.
  destruct HI as [_ [_ K3]]. eapply chk_mono_le; [|apply K3; eauto]. lia.
Qed.

Lemma types_ok_sbe env st :
  types_ok env st ->
  forallb (e_sbe env) (all_elements env) = true /\
  forallb (fun e => match size_of env e with Some _ => true | None => false end) env = true /\
  (forall e, In e env -> exists z, assoc (ename e) st = Some (Some z) /\ size_of env e = Some z).
Proof.
  intros H. split; [|split].
  - apply forallb_forall. intros m Hm. apply in_all_elements in Hm. destruct Hm as [e [He Hm]].
    destruct (H e He) as [z [_ Hc]]. eapply chk_good; eauto.
  - apply forallb_forall. intros e He. destruct (H e He) as [z [_ Hc]].
    apply chk_esize in Hc. unfold size_of. rewrite Hc. reflexivity.
  - intros e He. destruct (H e He) as [z [Ha Hc]]. exists z. split; auto. apply chk_esize; auto.
Qed.

Lemma sbe_chk env :
  forallb (e_sbe env) (all_elements env) = true ->
  forallb (fun e => match size_of env e with Some _ => true | None => false end) env = true ->
  forall e, In e env -> exists z, chk env (S (length env)) e = Some z.
Proof.
  intros H1 H2 e He.
  assert (G : forall x, In x env -> good env x).
  { intros x Hx m Hm. rewrite forallb_forall in H1. apply H1. apply in_all_elements. eauto. }
  rewrite forallb_forall in H2. specialize (H2 e He).
  destruct (size_of env e) as [z|] eqn:E; [|discriminate]. exists z.
  apply esize_chk; auto.
Qed.

Theorem validate_spec s :
  match validate s with
  | VOk _ => rules_ok s = true
  | VErr _ => rules_ok s = false
  | _ => False
  end.
Proof.
  unfold validate, validate_gen. cbv zeta.
  assert (F : forall b : bool, ~ (b = true) -> b = false) by (intros []; [intros X; exfalso; apply X; auto | auto]).
  pose proof (parse_checks_spec s) as HP.
  destruct (parse_checks s) as [[]| | |]; simpl in *; try contradiction.
  2:{ apply F. intros R. apply rules_ok_split in R. tauto. }
  assert (ND : NoDup (map ename (sc_types s))).
  { destruct HP as [_ [_ [ND _]]]. apply nodup_str_NoDup in ND. unfold lname in ND.
    apply (NoDup_map_inv' ename to_lower). exact ND. }
  pose proof (v_types_run (sc_types s) ND) as HT.
  destruct (v_types true (sc_types s) (S (length (sc_types s))) [] (sc_types s)) as [st| | |]; simpl;
    try contradiction.
  2:{ apply F. intros R. apply rules_ok_split in R. destruct R as [_ [[A [B _]] _]].
      destruct HT as [e [He Hf]]. destruct (sbe_chk _ A B e He) as [z Hz]. rewrite Hf in Hz. discriminate. }
  destruct (types_ok_sbe _ _ HT) as [A [B Hst]].
  pose proof (v_level_header_spec (sc_types s) (sc_header s) message_header_members) as HH.
  destruct (v_level_header (sc_types s) (sc_header s) message_header_members) as [[]| | |]; simpl in *;
    try contradiction.
  2:{ apply F. intros R. apply rules_ok_split in R. unfold s_sbe in R. tauto. }
  assert (NR : forallb (fun e => negb (is_ref e)) (sc_types s) = true) by (destruct HP; auto).
  pose proof (v_messages_spec (sc_types s) st NR Hst (sc_messages s) ([], []) (Memo_nil _)) as HM.
  destruct (v_messages true (sc_types s) st ([], []) (sc_messages s)) as [mm| | |]; simpl in *;
    try contradiction.
  2:{ apply F. intros R. apply rules_ok_split in R. unfold s_sbe in R. tauto. }
  destruct HM as [_ HM].
  pose proof (cpp_validate_spec s) as HC.
  destruct (cpp_validate s) as [[]| | |]; simpl in *; try contradiction.
  - apply rules_ok_split. unfold s_sbe. tauto.
  - apply F. intros R. apply rules_ok_split in R. tauto.
Qed.

Theorem validate_iff_rules s : (exists st, validate s = VOk st) <-> rules_ok s = true.
Proof.
  pose proof (validate_spec s) as H. destruct (validate s) as [st| | |]; try contradiction.
  - split; eauto.
  - split; [intros [st X]; discriminate | intros X; congruence].
Qed.

Theorem accepts_iff_rules s : accepts s = rules_ok s.
Proof.
  unfold accepts. pose proof (validate_spec s) as H. destruct (validate s); try contradiction; auto.
Qed.

(* the validator never crashes and never runs out of fuel *)
Theorem validate_total s : (exists st, validate s = VOk st) \/ (exists c, validate s = VErr c).
Proof.
  pose proof (validate_spec s) as H. destruct (validate s) as [st|c| |]; try contradiction; eauto.
Qed.

(* a rejected schema is rejected with a rule class, an accepted one satisfies every rule *)
Theorem rejected_has_class s : rules_ok s = false -> exists c, validate s = VErr c.
Proof.
  intros R. pose proof (validate_spec s) as H. destruct (validate s) as [st|c| |]; try contradiction; eauto.
  congruence.
Qed.

(* ------------------------------------------------------------------ *)
(* accepted_no_overlap                                                 *)
(* ------------------------------------------------------------------ *)

(* (offset, size) pairs in declaration order: each starts at or after the end
   of the previous one *)
Fixpoint in_order (cur : Z) (lay : list (Z * Z)) : Prop :=
  match lay with
  | [] => True
  | (off, sz) :: r => cur <= off /\ 0 <= sz /\ in_order (off + sz) r
  end.

Fixpoint lay_end (cur : Z) (lay : list (Z * Z)) : Z :=
  match lay with [] => cur | (off, sz) :: r => lay_end (off + sz) r end.

Definition item_nonneg (it : option Z * option Z) : Prop :=
  (match fst it with Some o => 0 <= o | None => True end) /\
  (match snd it with Some s => 0 <= s | None => True end).

Lemma end_of_cons_some o s acc :
  end_of ((o, Some s) :: acc) = (match o with Some x => x | None => end_of acc end) + s.
Proof. destruct o; reflexivity. Qed.

Lemma end_of_cons_none o acc : end_of ((o, None) :: acc) = end_of acc.
Proof. destruct o; reflexivity. Qed.

Lemma layout_in_order items : forall acc,
  offsets_ok_from acc items = true -> Forall item_nonneg items ->
  in_order (end_of acc) (assign (end_of acc) items) /\
  lay_end (end_of acc) (assign (end_of acc) items) = end_of (rev items ++ acc) /\
  (items <> [] -> end_of (rev items ++ acc) <= max_u64).
Proof.
  induction items as [|[o [s|]] items IH]; intros acc Hok Hnn.
  - simpl. split; auto. split; auto. intros H; contradiction.
  - rewrite offsets_ok_from_cons in Hok. apply andb_true_iff in Hok. destruct Hok as [Hc Hok].
    inversion Hnn as [|? ? [Ho Hs] Hnn']; subst. simpl in Ho, Hs.
    specialize (IH ((o, Some s) :: acc) Hok Hnn').
    pose proof (item_check_end _ _ Hc) as Hend.
    rewrite end_of_cons_some in IH, Hend.
    assert (Hrev : rev ((o, Some s) :: items) ++ acc = rev items ++ ((o, Some s) :: acc))
      by (simpl; rewrite <- app_assoc; reflexivity).
    rewrite Hrev.
    destruct o as [o|]; simpl assign.
    + unfold item_check in Hc. apply andb_true_iff in Hc. destruct Hc as [Hc _]. apply Z.leb_le in Hc.
      destruct IH as [A [B C]]. split; [simpl; auto|]. split; [exact B|].
      intros _. destruct items as [|x r]; [simpl; rewrite end_of_cons_some; exact Hend | apply C; discriminate].
    + destruct IH as [A [B C]]. split; [simpl; split; [lia | auto]|]. split; [exact B|].
      intros _. destruct items as [|x r]; [simpl; rewrite end_of_cons_some; exact Hend | apply C; discriminate].
  - rewrite offsets_ok_from_cons in Hok. apply andb_true_iff in Hok. destruct Hok as [Hc Hok].
    inversion Hnn as [|? ? _ Hnn']; subst.
    specialize (IH ((o, None) :: acc) Hok Hnn').
    pose proof (item_check_end _ _ Hc) as Hend.
    rewrite end_of_cons_none in IH, Hend.
    assert (Hrev : rev ((o, None) :: items) ++ acc = rev items ++ ((o, None) :: acc))
      by (simpl; rewrite <- app_assoc; reflexivity).
    rewrite Hrev.
    assert (Has : assign (end_of acc) ((o, None) :: items) = assign (end_of acc) items) by (destruct o; reflexivity).
    rewrite Has. destruct IH as [A [B C]]. split; auto. split; auto.
    intros _. destruct items as [|x r]; [simpl; rewrite end_of_cons_none; exact Hend | apply C; discriminate].
Qed.

Lemma in_order_bounds lay : forall cur, in_order cur lay ->
  cur <= lay_end cur lay /\ forall a, In a lay -> cur <= fst a /\ 0 <= snd a /\ fst a + snd a <= lay_end cur lay.
Proof.
  induction lay as [|[off sz] r IH]; intros cur H; simpl in *.
  - split; [lia | intros a []].
  - destruct H as [H1 [H2 H3]]. destruct (IH _ H3) as [A B]. split; [lia|].
    intros a [<-|Ha]; simpl; [lia|]. destruct (B a Ha) as [B1 [B2 B3]]. lia.
Qed.

Lemma in_order_pairwise lay : forall cur, in_order cur lay ->
  forall i j a b, (i < j)%nat -> nth_error lay i = Some a -> nth_error lay j = Some b ->
  fst a + snd a <= fst b.
Proof.
  induction lay as [|[off sz] r IH]; intros cur H i j a b Hij Ha Hb.
  - destruct i; discriminate.
  - simpl in H. destruct H as [H1 [H2 H3]]. destruct j as [|j]; [lia|].
    destruct i as [|i]; simpl in Ha, Hb.
    + inversion Ha; subst. simpl. apply nth_error_In in Hb.
      destruct (in_order_bounds _ _ H3) as [_ B]. destruct (B b Hb) as [B1 _]. exact B1.
    + apply (IH _ H3 i j a b); auto. lia.
Qed.

(* a layout: members in declaration order, pairwise disjoint, inside [0,total] *)
Definition disjoint_layout (lay : list (Z * Z)) (total : Z) : Prop :=
  (forall i j a b, (i < j)%nat -> nth_error lay i = Some a -> nth_error lay j = Some b ->
                   fst a + snd a <= fst b) /\
  (forall a, In a lay -> 0 <= fst a /\ 0 <= snd a /\ fst a + snd a <= total).

Lemma offsets_ok_layout items :
  offsets_ok items = true -> Forall item_nonneg items ->
  disjoint_layout (assign 0 items) (end_of (rev items)) /\ end_of (rev items) <= max_u64.
Proof.
  intros Hok Hnn. destruct (layout_in_order items [] Hok Hnn) as [A [B C]].
  change (end_of []) with 0 in *. rewrite app_nil_r in *.
  destruct (in_order_bounds _ _ A) as [D E]. rewrite B in *. split; [split|].
  - eapply in_order_pairwise; eauto.
  - intros a Ha. destruct (E a Ha) as [E1 [E2 E3]]. lia.
  - destruct items as [|x r]; [simpl; change (end_of []) with 0; unfold max_u64; lia | apply C; discriminate].
Qed.

Definition numok (e : element_def) : Prop := forall m, In m (flatten e) -> numbers_ok m = true.

Lemma numok_composite n o els :
  numok (EComposite n o els) <-> numbers_ok (EComposite n o els) = true /\ Forall numok els.
Proof.
  unfold numok. rewrite flatten_composite. split.
  - intros H. split; [apply H; left; auto|]. apply Forall_forall. intros x Hx m Hm.
    apply H. right. apply in_flatten_list. eauto.
  - intros [H1 H2] m [<-|Hm]; auto. apply in_flatten_list in Hm. destruct Hm as [x [Hx Hm]].
    rewrite Forall_forall in H2. apply (H2 x Hx m Hm).
Qed.

Lemma psize_pos p : 0 < psize p.
Proof. destruct p; unfold psize; simpl; lia. Qed.

Lemma opt_u64_nonneg o : opt_u64_ok o = true -> match o with Some x => 0 <= x | None => True end.
Proof.
  destruct o as [x|]; simpl; auto. unfold u64_ok. intros H. apply andb_true_iff in H.
  destruct H as [H _]. apply Z.leb_le in H. exact H.
Qed.

Lemma numbers_ok_offset m : numbers_ok m = true -> match eoffset m with Some x => 0 <= x | None => True end.
Proof. unfold numbers_ok. intros H. apply andb_true_iff in H. destruct H as [H _]. apply opt_u64_nonneg; auto. Qed.

Lemma esize_items_nonneg env (sz : element_def -> option Z) els :
  Forall (fun m => numbers_ok m = true /\ forall s, sz m = Some s -> 0 <= s) els ->
  forall acc z, 0 <= end_of acc -> esize_items env sz els acc = Some z -> 0 <= z.
Proof.
  induction 1 as [|m r [Hn Hm] _ IH]; intros acc z Hacc.
  - simpl. intros H. inversion H; subst; auto.
  - rewrite esize_items_cons. destruct (sz m) as [s|] eqn:Es; [|discriminate].
    apply IH. unfold item_of. specialize (Hm s eq_refl). apply numbers_ok_offset in Hn.
    destruct (takes_no_space env m).
    + rewrite end_of_cons_none. auto.
    + rewrite end_of_cons_some. destruct (eoffset m); lia.
Qed.

Lemma esize_nonneg env :
  (forall e, In e env -> numok e) ->
  forall f e z, numok e -> esize env f e = Some z -> 0 <= z.
Proof.
  intros Henv. induction f as [|f IHf]; intros e; [discriminate|].
  induction e as [t|en|st|n ty o|n o els IHe] using element_ind'; intros z Hn; rewrite esize_S.
  - unfold type_size. destruct (prim_of_name (t_prim t)) as [p|]; [|discriminate]. intros H. inversion H; subst.
    assert (N : numbers_ok (EType t) = true) by (apply Hn; left; auto).
    unfold numbers_ok in N. apply andb_true_iff in N. destruct N as [_ N]. unfold u64_ok in N.
    apply andb_true_iff in N. destruct N as [N _]. apply Z.leb_le in N. pose proof (psize_pos p). nia.
  - destruct (encoding_prim env (e_type en)) as [p|]; simpl; [|discriminate]. intros H; inversion H.
    pose proof (psize_pos p). lia.
  - destruct (encoding_prim env (s_type st)) as [p|]; simpl; [|discriminate]. intros H; inversion H.
    pose proof (psize_pos p). lia.
  - destruct (get_encoding env ty) as [tgt|] eqn:EG; [|discriminate]. apply IHf. apply Henv.
    eapply lookup_In; eauto.
  - apply numok_composite in Hn. destruct Hn as [_ Hm].
    apply esize_items_nonneg; [|change (end_of []) with 0; lia].
    rewrite Forall_forall in *. intros m Hin. split.
    + apply (Hm m Hin). apply flatten_self.
    + intros s Hs. eapply IHe; eauto.
Qed.

Lemma esize_items_items env els : forall acc,
  esize_items env (size_of env) els acc =
  match items_of env els with Some items => Some (end_of (rev items ++ acc)) | None => None end.
Proof.
  induction els as [|m r IH]; intros acc.
  - reflexivity.
  - rewrite esize_items_cons, items_of_cons. destruct (size_of env m) as [s|]; auto.
    rewrite IH. destruct (items_of env r) as [items|]; auto. simpl. rewrite <- app_assoc. reflexivity.
Qed.

(* size of a composite = end of its last member *)
Lemma composite_size env n o els :
  size_of env (EComposite n o els) =
  match items_of env els with Some items => Some (end_of (rev items)) | None => None end.
Proof.
  unfold size_of at 1. rewrite esize_S. fold (size_of env). rewrite esize_items_items.
  destruct (items_of env els); auto. rewrite app_nil_r. reflexivity.
Qed.

Lemma items_nonneg env els items :
  (forall e, In e env -> numok e) -> Forall numok els ->
  items_of env els = Some items -> Forall item_nonneg items.
Proof.
  intros Henv Hm. revert items. induction Hm as [|m r Hn _ IH]; intros items.
  - simpl. intros H; inversion H; constructor.
  - rewrite items_of_cons. destruct (size_of env m) as [s|] eqn:Es; [|discriminate].
    destruct (items_of env r) as [l|]; [|discriminate]. intros H; inversion H; subst. constructor; auto.
    unfold item_of, item_nonneg. simpl. split.
    + apply numbers_ok_offset. apply Hn. apply flatten_self.
    + destruct (takes_no_space env m); auto. eapply esize_nonneg; eauto.
Qed.

Fixpoint glevels (g : group_def) : list (list field_def * option Z) :=
  match g with GroupDef _ _ bl fs gs _ => (fs, bl) :: flat_map glevels gs end.

Definition schema_levels (s : schema_def) : list (list field_def * option Z) :=
  flat_map (fun m => (m_fields m, m_bl m) :: flat_map glevels (m_groups m)) (sc_messages s).

Definition block_total (items : list (option Z * option Z)) (bl : option Z) : Z :=
  match bl with Some b => b | None => end_of (rev items) end.

Definition level_layout_ok (env : list element_def) (fs : list field_def) (bl : option Z) : Prop :=
  exists items, field_items env fs = Some items /\
                disjoint_layout (assign 0 items) (block_total items bl) /\
                block_total items bl <= max_u64.

Lemma field_items_nonneg env fs items :
  (forall e, In e env -> numok e) -> forallb fo_ok fs = true ->
  field_items env fs = Some items -> Forall item_nonneg items.
Proof.
  intros Henv. revert items. induction fs as [|f fs IH]; intros items Hfo.
  - simpl. intros H; inversion H; constructor.
  - simpl in Hfo. apply andb_true_iff in Hfo. destruct Hfo as [Hf Hfo].
    simpl. unfold field_item. destruct (field_size env f) as [s|] eqn:Es; [|discriminate].
    destruct (field_items env fs) as [l|]; [|discriminate]. intros H; inversion H; subst. constructor; auto.
    unfold item_nonneg. simpl. split; [apply opt_u64_nonneg; exact Hf|].
    destruct (field_is_constant env f); auto.
    unfold field_size in Es. destruct (prim_of_name (f_type f)) as [p|].
    + inversion Es. pose proof (psize_pos p). lia.
    + destruct (get_encoding env (f_type f)) as [e|] eqn:EG; [|discriminate].
      eapply esize_nonneg; eauto. apply Henv. eapply lookup_In; eauto.
Qed.

Lemma level_rule_layout env fs gnames ds bl :
  (forall e, In e env -> numok e) ->
  level_rule env fs gnames ds bl = true -> level_layout_ok env fs bl.
Proof.
  intros Henv H. apply level_rule_split in H. destruct H as [[Hfo [Hbl _]] [Hs _]].
  unfold level_sbe in Hs. rewrite !andb_true_iff in Hs. destruct Hs as [[[[_ _] Hb] _] _].
  unfold block_ok in Hb. destruct (field_items env fs) as [items|] eqn:Ei; [|discriminate].
  apply andb_true_iff in Hb. destruct Hb as [Hok Hbl'].
  destruct (offsets_ok_layout items Hok (field_items_nonneg env fs items Henv Hfo Ei)) as [[L1 L2] L3].
  exists items. split; auto. unfold block_total. destruct bl as [b|].
  - apply Z.leb_le in Hbl'. simpl in Hbl. unfold u64_ok in Hbl. apply andb_true_iff in Hbl.
    destruct Hbl as [_ Hbl]. apply Z.leb_le in Hbl. split; auto. split; auto.
    intros a Ha. destruct (L2 a Ha) as [A [B C]]. lia.
  - split; auto. split; auto.
Qed.

Lemma group_rule_layout env g :
  (forall e, In e env -> numok e) -> group_rule env g = true ->
  forall fs bl, In (fs, bl) (glevels g) -> level_layout_ok env fs bl.
Proof.
  intros Henv. induction g as [n dim bl0 fs0 gs ds IH] using group_ind'. intros H fs bl Hin.
  simpl in H. rewrite forallb_fix_groups in H. rewrite !andb_true_iff in H. destruct H as [[[_ _] HL] HG].
  simpl in Hin. destruct Hin as [Heq|Hin].
  - inversion Heq; subst. eapply level_rule_layout; eauto.
  - apply in_flat_map in Hin. destruct Hin as [g [Hg Hin]].
    rewrite Forall_forall in IH. rewrite forallb_forall in HG. eapply IH; eauto.
Qed.

Lemma flatten_trans e : forall x m, In x (flatten e) -> In m (flatten x) -> In m (flatten e).
Proof.
  induction e as [t|en|st|n ty o|n o els IHe] using element_ind'; intros x m Hx Hm;
    try (destruct Hx as [<-|[]]; exact Hm).
  rewrite flatten_composite in Hx. destruct Hx as [<-|Hx]; [exact Hm|].
  rewrite flatten_composite. right.
  apply in_flatten_list in Hx. destruct Hx as [y [Hy Hx]]. apply in_flatten_list. exists y. split; auto.
  rewrite Forall_forall in IHe. eapply IHe; eauto.
Qed.

Theorem accepted_no_overlap s :
  rules_ok s = true ->
  (forall n o els, In (EComposite n o els) (all_elements (sc_types s)) ->
     exists items, items_of (sc_types s) els = Some items /\
                   size_of (sc_types s) (EComposite n o els) = Some (end_of (rev items)) /\
                   disjoint_layout (assign 0 items) (end_of (rev items)) /\
                   end_of (rev items) <= max_u64) /\
  (forall fs bl, In (fs, bl) (schema_levels s) -> level_layout_ok (sc_types s) fs bl).
Proof.
  intros R. unfold rules_ok in R. cbv zeta in R. rewrite !andb_true_iff in R.
  destruct R as [[[[[[[[_ _] _] HE] _] _] _] _] HM].
  set (env := sc_types s) in *.
  assert (Henv : forall e, In e env -> numok e).
  { intros e He m Hm. rewrite forallb_forall in HE.
    assert (X : element_rule env m = true) by (apply HE; apply in_all_elements; eauto).
    apply element_rule_split in X. destruct X as [X _]. unfold e_parse in X. apply andb_true_iff in X. tauto. }
  split.
  - intros n o els Hin. rewrite forallb_forall in HE. pose proof (HE _ Hin) as X.
    unfold element_rule in X. rewrite !andb_true_iff in X. destruct X as [_ X]. simpl in X.
    destruct (items_of env els) as [items|] eqn:Ei; [|discriminate].
    assert (Hnum : Forall numok els).
    { apply in_all_elements in Hin. destruct Hin as [e [He Hm]].
      assert (N : numok (EComposite n o els)).
      { intros m Hm'.
        assert (Y : element_rule env m = true).
        { apply HE. apply in_all_elements. exists e. split; auto.
          eapply flatten_trans; eauto. }
        apply element_rule_split in Y. destruct Y as [Y _]. unfold e_parse in Y. apply andb_true_iff in Y. tauto. }
      apply numok_composite in N. tauto. }
    destruct (offsets_ok_layout items X (items_nonneg env els items Henv Hnum Ei)) as [L1 L2].
    exists items. split; auto. split; [rewrite composite_size, Ei; reflexivity | auto].
  - intros fs bl Hin. unfold schema_levels in Hin. apply in_flat_map in Hin. destruct Hin as [m [Hm Hin]].
    rewrite forallb_forall in HM. specialize (HM m Hm). unfold message_rule in HM. rewrite !andb_true_iff in HM.
    destruct HM as [[_ HL] HG]. destruct Hin as [Heq|Hin].
    + inversion Heq; subst. eapply level_rule_layout; eauto.
    + apply in_flat_map in Hin. destruct Hin as [g [Hg Hin]]. rewrite forallb_forall in HG.
      eapply group_rule_layout; eauto.
Qed.

