(* CursorStop.v — the complete traversal of Cursor.v ([trav_message]) with a
   visitor that asks to stop: callbacks number 1..k proceed (recording their
   event and, for groups and entries, descending through visit_children),
   callback number k+1 returns true at once without recording anything, and
   every enclosing visit_children chain / cursor_range loop then returns true,
   so that no later callback happens (rec_visitor with stop_at = k).

   The generated chain is
     v.on_field(this->f1(c), tag) || ... || v.on_group(this->g(c), tag) || ...
       || v.on_data(this->d(c), tag)
   so the cursor accessor of a member runs BEFORE its callback: an accessor
   failure is reported even when the budget is exhausted.  What the callback
   itself reads (numInGroup / blockLength of a group through g.size() and
   cursor_range, the length of a data member through d.size()) is read only
   when the callback proceeds.

   Definitions only (extracted). *)
From Coq Require Import ZArith List Bool.
From Sbepp Require Import CInt Bytes Msg Layout Cursor.
Import ListNotations.
Local Open Scope Z_scope.

(* result of a sub-traversal: events so far (reversed), cursor, callbacks still
   allowed | a callback returned true | assertion handler | out of buffer *)
Inductive sres :=
| SOk (acc : list event) (c : Z) (budget : nat)
| SStop (acc : list event)
| SAssert
| SOob.

Fixpoint strav_fields (v : lview) (fs : list cacc) (k : nat) (c : Z) (acc : list event)
  (bud : nat) : sres :=
  match fs with
  | [] => SOk acc c bud
  | a :: r =>
    match cur_field WPlain v a c with
    | COk addr c' =>
      match bud with
      | O => SStop acc
      | S bud' => strav_fields v r (S k) c' (EField k addr :: acc) bud'
      end
    | CAssert => SAssert
    | COob => SOob
    end
  end.

Fixpoint strav_datas (be : bool) (b : list Z) (v : lview) (ds : list ity) (k : nat)
  (first : bool) (p : option Z) (c : Z) (acc : list event) (bud : nat) : sres :=
  match ds with
  | [] => SOk acc c bud
  | t :: r =>
    match cur_data WPlain first v p (data_size_at be b t) c with
    | COk s c' =>
      match bud with
      | O => SStop acc
      | S bud' =>
        match rd be b s t with
        | None => SOob
        | Some n =>
          let p' := obind p (fun p0 => obind (data_size_at be b t p0) (fun z => Some (p0 + z))) in
          let p'' := if first then Some c' else p' in
          strav_datas be b v r (S k) false p'' c' (EData k s n :: acc) bud'
        end
      end
    | CAssert => SAssert
    | COob => SOob
    end
  end.

Fixpoint strav_level (be : bool) (b : list Z) (fuel : nat) (l : level) (cl : clevel)
  (v : lview) (c : Z) (acc : list event) (bud : nat) {struct l} : sres :=
  match l with
  | Level _ gs ds =>
    match strav_fields v (clevel_fields cl) 0 c acc bud with
    | SOk acc1 c1 bud1 =>
      match strav_groups be b fuel gs (clevel_groups cl) v 0 true (Some (block_end v)) c1 acc1 bud1 with
      | SOk acc2 c2 bud2 =>
        let p := groups_end be b fuel gs (block_end v) in
        strav_datas be b v ds 0 (groups_empty gs) p c2 acc2 bud2
      | SStop a => SStop a
      | SAssert => SAssert
      | SOob => SOob
      end
    | SStop a => SStop a
    | SAssert => SAssert
    | SOob => SOob
    end
  end
with strav_groups (be : bool) (b : list Z) (fuel : nat) (gs : groups) (cgs : cgroups)
  (v : lview) (k : nat) (first : bool) (p : option Z) (c : Z) (acc : list event) (bud : nat)
  {struct gs} : sres :=
  match gs, cgs with
  | GNil, _ => SOk acc c bud
  | GCons d cbl l rest, CGCons cl crest =>
    match cur_group WPlain first v p (d_size d) (fun _ => None) c with
    | COk s c1 =>
      match bud with
      | O => SStop acc                      (* on_group returns true *)
      | S bud0 =>
        match rd be b (s + d_bl_off d) (d_bl_t d), rd be b (s + d_n_off d) (d_n_t d) with
        | Some bl, Some n =>
          match
            (fix loop (j : nat) (n c : Z) (acc : list event) (bud : nat) {struct j} : sres :=
               if n <=? 0 then SOk acc c bud else
               match j with
               | O => SOob
               | S j' =>
                 let ev := {| lv_start := c; lv_level := c; lv_bl := bl; lv_end := lv_end v |} in
                 (* the entry is constructed by the iterator (empty entries
                    advance the cursor there), then on_entry is called *)
                 let c0 := if is_empty_level l cl then c + bl else c in
                 match bud with
                 | O => SStop acc            (* on_entry returns true *)
                 | S bud' =>
                   match strav_level be b fuel l cl ev c0 (EEntry c :: acc) bud' with
                   | SOk acc' c' bud'' => loop j' (n - 1) c' acc' bud''
                   | SStop a => SStop a
                   | SAssert => SAssert
                   | SOob => SOob
                   end
                 end
               end) fuel n c1 (EGroup k s n :: acc) bud0
          with
          | SOk acc' c' bud' =>
            let p' := obind p (fun p0 => groups_end be b fuel (GCons d cbl l GNil) p0) in
            strav_groups be b fuel rest crest v (S k) false p' c' acc' bud'
          | SStop a => SStop a
          | SAssert => SAssert
          | SOob => SOob
          end
        | _, _ => SOob
        end
      end
    | CAssert => SAssert
    | COob => SOob
    end
  | GCons _ _ _ _, CGNil => SOob
  end.

(* outcome of sbepp::visit(message, cursor, rec_visitor{stop_at = k}):
   events in callback order *)
Inductive sfinal :=
| FDone (evs : list event) (c : Z)    (* every callback returned false; final cursor *)
| FStopped (evs : list event)         (* callback number (length evs + 1) returned true *)
| FAssert
| FOob.

Definition trav_message_stop (be : bool) (b : list Z) (m : message) (cl : clevel) (base : Z)
  (k : nat) : sfinal :=
  match msg_block_length be b m base with
  | None => FOob
  | Some bl =>
    let v := {| lv_start := base; lv_level := base + m_hdr_size m; lv_bl := bl;
                lv_end := len b |} in
    let c0 := if is_empty_level (m_level m) cl then base + m_hdr_size m + bl
              else base + m_hdr_size m in
    match strav_level be b (default_fuel b) (m_level m) cl v c0 [] k with
    | SOk acc c _ => FDone (rev acc) c
    | SStop acc => FStopped (rev acc)
    | SAssert => FAssert
    | SOob => FOob
    end
  end.

(* events reported by a run, if it did not fail *)
Definition sfinal_events (r : sfinal) : option (list event) :=
  match r with
  | FDone evs _ | FStopped evs => Some evs
  | FAssert | FOob => None
  end.
