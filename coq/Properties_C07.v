(* Properties_C07.v — C07 (partial): what is logic in "accepted schemas yield
   compilable, name-preserving headers".  Only statements closed by [exact];
   proofs are in LiteralsProofs.v and NamesProofs.v.  "g++/clang++ accept the
   generated text" itself is sampled by the correspondence (harness/props/c07.py).

   Full statement (not expressible in the model): for every schema sbeppc
   accepts, each generated header compiles on its own under C++11..C++23 with
   gcc and clang, instantiating every accessor, trait and visitor entry point
   compiles too, and every schema entity is reachable under its unmodified
   schema name in the documented namespaces and tag paths. *)
From Coq Require Import ZArith List Bool String.
From Sbepp Require Import CInt Bytes Literals LiteralsProofs Names NamesProofs.
Import ListNotations.
Local Open Scope Z_scope.

(* (1) numbers: every integer value the validator accepts for a primitive type
   is emitted as a constant expression of that value which is not a narrowing
   initialiser of the representation type *)
Theorem C07_literals_ok : forall p s v,
  is_fp p = false ->
  string_to_number (prim_cty p) s = Some v ->
  exists txt, to_integer_literal s = Some txt /\ literal_denotes txt p v = true.
Proof. exact literals_ok. Qed.
Print Assumptions C07_literals_ok.

(* the 33 built-in min/max/null entries denote the SBE defaults *)
Theorem C07_builtin_table_ok : forall w p,
  if is_fp p then builtin_text w p = fp_default_text w p
  else literal_denotes (builtin_text w p) p (sbe_default w p) = true.
Proof. exact builtin_table_ok. Qed.
Print Assumptions C07_builtin_table_ok.

(* float/double text is always a floating literal *)
Theorem C07_fp_literal_is_floating : forall s,
  xml_decimal_ok s = true -> cpp_number_kind (strip_sign (fp_literal s)) = KFloating.
Proof. exact fp_literal_is_floating. Qed.
Print Assumptions C07_fp_literal_is_floating.

(* (3) strings: every byte string pasted between quotes stays inside the
   literal and denotes itself; the strings that reach the header unchanged are
   exactly the plain ones *)
Theorem C07_strings_ok : forall s, string_literal_denotes (escape_literal s) = Some s.
Proof. exact strings_ok. Qed.
Print Assumptions C07_strings_ok.

Theorem C07_strings_survive_iff : forall s,
  escape_literal s = s <-> survives_unchanged s = true.
Proof. exact survives_iff. Qed.
Print Assumptions C07_strings_survive_iff.

Theorem C07_string_constant_ok : forall v len txt,
  make_string_constant v len = Some txt ->
  string_literal_denotes txt = Some (v ++ nul_string (len - String.length v))%string /\
  String.length (v ++ nul_string (len - String.length v)) = len.
Proof. exact string_constant_ok. Qed.
Print Assumptions C07_string_constant_ok.

(* (2) names, for every iteration order of the public encodings.  Scopes
   covered: namespace detail::types (pairwise distinct), every class against
   its own members, mangled names against the public names, namespace types
   (= the schema names), struct schema::types against its members *)
Theorem C07_mangled_type_names_distinct : forall types,
  let r := generate_type_names types in
  let names := map enc_name types in
  NoDup (detail_type_names (tn_assigns r)) /\
  (forall a, In a (tn_assigns r) -> ~ In (a_impl a) (a_members a)) /\
  (forall a, In a (tn_assigns r) -> a_mangled a = true ->
     ~ In (a_impl a) names /\ exists n, a_impl a = suffixed (a_name a) n) /\
  (forall a, In a (tn_assigns r) -> a_mangled a = false -> a_impl a = a_name a) /\
  public_type_names (tn_assigns r) = names /\
  match tn_tag_types r with
  | Some t => In "types"%string names /\ ~ In t names /\ t <> "types"%string
  | None => ~ In "types"%string names
  end.
Proof. exact type_names_ok. Qed.
Print Assumptions C07_mangled_type_names_distinct.

(* same for namespace detail::messages (groups, entries, mangled messages),
   entry classes against the entry members, struct schema::messages *)
Theorem C07_mangled_message_names_distinct : forall msgs,
  let r := generate_message_names msgs in
  let names := map m_name msgs in
  NoDup (detail_message_names (mn_assigns r)) /\
  (forall a, In a (mn_assigns r) ->
     ~ In (g_impl a) (g_members a) /\
     (g_is_message a = false -> ~ In (g_entry a) (g_members a) /\ g_entry a = entry_of (g_impl a))) /\
  (forall a, In a (mn_assigns r) -> g_mangled a = true ->
     ~ In (g_impl a) names /\ (g_is_message a = false -> ~ In (g_entry a) names) /\
     exists n, g_impl a = suffixed (g_name a) n) /\
  (forall a, In a (mn_assigns r) -> g_mangled a = false -> g_impl a = g_name a) /\
  public_message_names (mn_assigns r) = names /\
  match mn_tag_messages r with
  | Some t => In "messages"%string names /\ ~ In t names /\ t <> "messages"%string
  | None => ~ In "messages"%string names
  end.
Proof. exact message_names_ok. Qed.
Print Assumptions C07_mangled_message_names_distinct.

(* a group class is never named like a public member of its base class *)
Theorem C07_group_names_not_base : forall msgs a,
  In a (mn_assigns (generate_message_names msgs)) -> g_is_message a = false ->
  ~ In (g_impl a) group_base_names.
Proof. exact group_names_not_base. Qed.
Print Assumptions C07_group_names_not_base.

(* size_bytes parameter lists never repeat a name *)
Theorem C07_message_size_params_distinct : forall m,
  NoDup (message_size_params make_unique_param_name m).
Proof. exact message_size_params_distinct. Qed.
Print Assumptions C07_message_size_params_distinct.

Theorem C07_group_size_params_distinct : forall g,
  NoDup (group_size_params make_unique_param_name g).
Proof. exact group_size_params_distinct. Qed.
Print Assumptions C07_group_size_params_distinct.
