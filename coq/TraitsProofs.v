(* TraitsProofs.v — proofs about Traits.v (C18, derived traits). *)
From Coq Require Import ZArith List Bool String Lia FinFun.
From Sbepp Require Import CInt Bytes Msg Layout Traits.
Import ListNotations.
Local Open Scope Z_scope.

(* ------------------------------------------------------------------ *)
(* the SBE placement rule, declaratively                                *)
(* ------------------------------------------------------------------ *)
(* [Placed ms cur offs e]: starting at [cur], the members [ms] get the offsets
   [offs] (None = constant, takes no space) and end at [e]:
     - a constant member is skipped,
     - a member with an explicit offset sits there, and the offset is not
       below the end of what precedes it,
     - a member without one is packed right after what precedes it. *)
Inductive Placed : list smember -> Z -> list (option Z) -> Z -> Prop :=
| P_nil cur : Placed [] cur [] cur
| P_const o t r cur offs e sz :
    type_size t = Some sz -> Placed r cur offs e ->
    Placed (SMember o true t :: r) cur (None :: offs) e
| P_explicit o t r cur offs e sz :
    type_size t = Some sz -> cur <= o -> Placed r (o + sz) offs e ->
    Placed (SMember (Some o) false t :: r) cur (Some o :: offs) e
| P_packed t r cur offs e sz :
    type_size t = Some sz -> Placed r (cur + sz) offs e ->
    Placed (SMember None false t :: r) cur (Some cur :: offs) e.

Fixpoint size_go (ms : list smember) (cur : Z) : option Z :=
  match ms with
  | [] => Some cur
  | SMember o c t :: rest =>
    match type_size t with
    | None => None
    | Some sz =>
      if c then size_go rest cur
      else match place o cur sz with
           | None => None
           | Some (_, cur') => size_go rest cur'
           end
    end
  end.

Lemma type_size_composite ms : type_size (TComposite ms) = size_go ms 0.
Proof.
  cbn [type_size]. generalize 0. induction ms as [|[o c t] r IH]; intros cur; [reflexivity|].
  cbn [size_go]. destruct (type_size t) as [sz|]; [|reflexivity].
  destruct c; [apply IH|]. destruct (place o cur sz) as [[a b]|]; [apply IH|reflexivity].
Qed.

Lemma place_spec o cur sz off cur' : place o cur sz = Some (off, cur') ->
  cur' = off + sz /\ cur <= off /\
  match o with Some x => off = x | None => off = cur end.
Proof.
  unfold place. destruct o as [x|].
  - destruct (x <? cur) eqn:E; [discriminate|]. intros [= <- <-]. apply Z.ltb_ge in E. lia.
  - intros [= <- <-]. lia.
Qed.

Lemma member_offsets_placed ms : forall cur offs,
  member_offsets ms cur = Some offs -> exists e, Placed ms cur offs e /\ size_go ms cur = Some e.
Proof.
  induction ms as [|[o c t] r IH]; intros cur offs H; cbn [member_offsets size_go] in *.
  - injection H as <-. exists cur. split; [constructor|reflexivity].
  - destruct (type_size t) as [sz|] eqn:Et; [|discriminate]. destruct c.
    + destruct (member_offsets r cur) as [offs'|] eqn:Er; [|discriminate]. injection H as <-.
      destruct (IH _ _ Er) as (e & Hp & Hs). exists e. split; [econstructor; eassumption|exact Hs].
    + destruct (place o cur sz) as [[off cur']|] eqn:Ep; [|discriminate].
      destruct (member_offsets r cur') as [offs'|] eqn:Er; [|discriminate]. injection H as <-.
      destruct (IH _ _ Er) as (e & Hp & Hs). exists e. split; [|exact Hs].
      destruct (place_spec _ _ _ _ _ Ep) as (-> & Hle & Ho). destruct o as [x|]; subst off.
      * econstructor; eassumption.
      * econstructor; eassumption.
Qed.

Lemma placed_member_offsets ms cur offs e :
  Placed ms cur offs e -> member_offsets ms cur = Some offs /\ size_go ms cur = Some e.
Proof.
  induction 1 as [cur|o t r cur offs e sz Ht _ [IH1 IH2]|o t r cur offs e sz Ht Hle _ [IH1 IH2]
                 |t r cur offs e sz Ht _ [IH1 IH2]]; cbn [member_offsets size_go].
  - auto.
  - rewrite Ht, IH1, IH2. auto.
  - rewrite Ht. unfold place. replace (o <? cur) with false by (symmetry; apply Z.ltb_ge; exact Hle).
    rewrite IH1, IH2. auto.
  - rewrite Ht. cbn [place]. rewrite IH1, IH2. auto.
Qed.

(* sizes of the members that are given are not negative *)
Definition sizes_nonneg (ms : list smember) : Prop :=
  Forall (fun m => forall sz, type_size (sm_type m) = Some sz -> 0 <= sz) ms.

Lemma placed_bounds ms cur offs e : Placed ms cur offs e -> sizes_nonneg ms ->
  cur <= e /\
  forall k o m sz, nth_error offs k = Some (Some o) -> nth_error ms k = Some m ->
    type_size (sm_type m) = Some sz -> cur <= o /\ o + sz <= e.
Proof.
  induction 1 as [cur|o t r cur offs e sz Ht _ IH|o t r cur offs e sz Ht Hle _ IH
                 |t r cur offs e sz Ht _ IH]; intros Hn.
  - split; [lia|]. intros [|k]; discriminate.
  - inversion Hn as [|? ? _ Hn']; subst. destruct (IH Hn') as [I1 I2]. split; [exact I1|].
    intros [|k] o' m sz' Ho Hm Hs; [discriminate|]. cbn in Ho, Hm. eapply I2; eassumption.
  - inversion Hn as [|? ? Hsz Hn']; subst. destruct (IH Hn') as [I1 I2].
    pose proof (Hsz _ Ht) as Hp. cbn in Hp. split; [lia|].
    intros [|k] o' m sz' Ho Hm Hs; cbn in Ho, Hm.
    + injection Ho as <-. injection Hm as <-. cbn in Hs. rewrite Ht in Hs. injection Hs as <-. lia.
    + destruct (I2 _ _ _ _ Ho Hm Hs). lia.
  - inversion Hn as [|? ? Hsz Hn']; subst. destruct (IH Hn') as [I1 I2].
    pose proof (Hsz _ Ht) as Hp. cbn in Hp. split; [lia|].
    intros [|k] o' m sz' Ho Hm Hs; cbn in Ho, Hm.
    + injection Ho as <-. injection Hm as <-. cbn in Hs. rewrite Ht in Hs. injection Hs as <-. lia.
    + destruct (I2 _ _ _ _ Ho Hm Hs). lia.
Qed.

(* members never overlap and appear in schema order *)
Lemma placed_disjoint ms cur offs e : Placed ms cur offs e -> sizes_nonneg ms ->
  forall i j oi oj mi szi, (i < j)%nat ->
    nth_error offs i = Some (Some oi) -> nth_error offs j = Some (Some oj) ->
    nth_error ms i = Some mi -> type_size (sm_type mi) = Some szi -> oi + szi <= oj.
Proof.
  induction 1 as [cur|o t r cur offs e sz Ht Hp IH|o t r cur offs e sz Ht Hle Hp IH
                 |t r cur offs e sz Ht Hp IH]; intros Hn i j oi oj mi szi Hij Hi Hj Hm Hs.
  - destruct i; discriminate.
  - inversion Hn as [|? ? _ Hn']; subst. destruct i as [|i]; [discriminate|]. destruct j as [|j]; [lia|].
    cbn in Hi, Hj, Hm. eapply (IH Hn' i j); try eassumption. lia.
  - inversion Hn as [|? ? Hsz Hn']; subst. destruct j as [|j]; [lia|]. cbn in Hj.
    destruct i as [|i]; cbn in Hi, Hm.
    + injection Hi as <-. injection Hm as <-. cbn in Hs. rewrite Ht in Hs. injection Hs as <-.
      destruct (placed_bounds _ _ _ _ Hp Hn') as [_ Hb].
      destruct (nth_error r j) as [mj|] eqn:Emj.
      * destruct (type_size (sm_type mj)) as [szj|] eqn:Esj.
        -- destruct (Hb _ _ _ _ Hj Emj Esj). lia.
        -- exfalso. clear - Hp Emj Esj Hj. revert j Emj Hj.
           induction Hp; intros [|j] Emj Hj; cbn in *; try discriminate;
             try (injection Emj as <-; cbn in Esj; congruence); eauto.
      * exfalso. clear - Hp Emj Hj. revert j Emj Hj.
        induction Hp; intros [|j] Emj Hj; cbn in *; try discriminate; eauto.
    + eapply (IH Hn' i j); try eassumption. lia.
  - inversion Hn as [|? ? Hsz Hn']; subst. destruct j as [|j]; [lia|]. cbn in Hj.
    destruct i as [|i]; cbn in Hi, Hm.
    + injection Hi as <-. injection Hm as <-. cbn in Hs. rewrite Ht in Hs. injection Hs as <-.
      destruct (placed_bounds _ _ _ _ Hp Hn') as [_ Hb].
      destruct (nth_error r j) as [mj|] eqn:Emj.
      * destruct (type_size (sm_type mj)) as [szj|] eqn:Esj.
        -- destruct (Hb _ _ _ _ Hj Emj Esj). lia.
        -- exfalso. clear - Hp Emj Esj Hj. revert j Emj Hj.
           induction Hp; intros [|j] Emj Hj; cbn in *; try discriminate;
             try (injection Emj as <-; cbn in Esj; congruence); eauto.
      * exfalso. clear - Hp Emj Hj. revert j Emj Hj.
        induction Hp; intros [|j] Emj Hj; cbn in *; try discriminate; eauto.
    + eapply (IH Hn' i j); try eassumption. lia.
Qed.

(* ------------------------------------------------------------------ *)
(* composites                                                           *)
(* ------------------------------------------------------------------ *)
Lemma to_stype_composite n off es :
  to_stype (TyComposite n off es) = TComposite (map to_smember es).
Proof.
  cbn [to_stype]. f_equal. induction es as [|x r IH]; [reflexivity|].
  destruct x; cbn [map to_smember telem_off telem_const telem_stype]; rewrite IH; reflexivity.
Qed.

Lemma placed_nonconst ms cur offs e : Placed ms cur offs e ->
  forall k m, nth_error ms k = Some m ->
    (sm_const m = true -> nth_error offs k = Some None) /\
    (sm_const m = false -> exists o, nth_error offs k = Some (Some o) /\
       match sm_off m with Some x => o = x | None => True end).
Proof.
  induction 1 as [cur|o t r cur offs e sz Ht _ IH|o t r cur offs e sz Ht Hle _ IH
                 |t r cur offs e sz Ht _ IH]; intros k m Hk.
  - destruct k; discriminate.
  - destruct k as [|k]; cbn in Hk; [injection Hk as <-; cbn; split; [reflexivity|discriminate]|].
    apply IH. exact Hk.
  - destruct k as [|k]; cbn in Hk; [injection Hk as <-; cbn; split; [discriminate|]|apply IH; exact Hk].
    intros _. exists o. auto.
  - destruct k as [|k]; cbn in Hk; [injection Hk as <-; cbn; split; [discriminate|]|apply IH; exact Hk].
    intros _. exists cur. auto.
Qed.

Lemma placed_sizes ms cur offs e : Placed ms cur offs e ->
  forall k m, nth_error ms k = Some m -> exists sz, type_size (sm_type m) = Some sz.
Proof.
  induction 1 as [cur|o t r cur offs e sz Ht _ IH|o t r cur offs e sz Ht Hle _ IH
                 |t r cur offs e sz Ht _ IH]; intros k m Hk.
  - destruct k; discriminate.
  - destruct k as [|k]; cbn in Hk; [injection Hk as <-; exists sz; exact Ht|eapply IH; exact Hk].
  - destruct k as [|k]; cbn in Hk; [injection Hk as <-; exists sz; exact Ht|eapply IH; exact Hk].
  - destruct k as [|k]; cbn in Hk; [injection Hk as <-; exists sz; exact Ht|eapply IH; exact Hk].
Qed.

(* C18: composite_traits<C>::size_bytes() and the offset() trait of every
   element obey the SBE placement rule, elements do not overlap, and the size
   is where the last one ends *)
Theorem composite_traits_ok : forall n off es offs,
  elem_offsets es = Some offs ->
  sizes_nonneg (map to_smember es) ->
  exists size,
    enc_size (TyComposite n off es) = Some size /\
    Placed (map to_smember es) 0 offs size /\
    (forall k x, nth_error es k = Some x ->
       if telem_const x
       then nth_error offs k = Some None
       else exists o, nth_error offs k = Some (Some o) /\ elem_offset_trait x (Some o) = Some o /\
                      0 <= o /\ forall sz, type_size (telem_stype x) = Some sz -> o + sz <= size) /\
    (forall i j xi oi oj szi, (i < j)%nat -> nth_error es i = Some xi ->
       nth_error offs i = Some (Some oi) -> nth_error offs j = Some (Some oj) ->
       type_size (telem_stype xi) = Some szi -> oi + szi <= oj).
Proof.
  intros n off es offs H Hn. unfold elem_offsets in H.
  destruct (member_offsets_placed _ _ _ H) as (e & Hp & Hs).
  exists e. unfold enc_size. rewrite to_stype_composite, type_size_composite.
  split; [exact Hs|]. split; [exact Hp|]. split.
  - intros k x Hx. assert (Hm : nth_error (map to_smember es) k = Some (to_smember x))
      by (rewrite nth_error_map, Hx; reflexivity).
    destruct (placed_nonconst _ _ _ _ Hp _ _ Hm) as [Hc Hnc]. cbn [to_smember sm_const sm_off] in Hc, Hnc.
    destruct (telem_const x) eqn:Ec; [apply Hc; reflexivity|].
    destruct (Hnc eq_refl) as (o & Ho & Hexp). exists o. split; [exact Ho|]. split.
    + destruct x as [nm ro t|x]; cbn [elem_offset_trait]; [reflexivity|].
      cbn [telem_off] in Hexp. destruct (tenc_off x); [subst; reflexivity|reflexivity].
    + destruct (placed_bounds _ _ _ _ Hp Hn) as [_ Hb]. split.
      * destruct (placed_sizes _ _ _ _ Hp _ _ Hm) as (sz & Es). cbn [to_smember sm_type] in Es.
        destruct (Hb _ _ _ _ Ho Hm Es). lia.
      * intros sz Es. destruct (Hb _ _ _ _ Ho Hm Es). lia.
  - intros i j xi oi oj szi Hij Hxi Hoi Hoj Hsz.
    apply (placed_disjoint _ _ _ _ Hp Hn i j oi oj (to_smember xi) szi Hij Hoi Hoj).
    + rewrite nth_error_map, Hxi. reflexivity.
    + exact Hsz.
Qed.

(* ------------------------------------------------------------------ *)
(* message / group levels                                               *)
(* ------------------------------------------------------------------ *)
Definition field_smember (f : tfield) : smember :=
  SMember (tf_off f) (is_constant (actual_presence f)) (ftype_stype (tf_type f)).

Definition dflt0 (o : option Z) : Z := match o with Some x => x | None => 0 end.

Lemma layout_fields_offsets fs : forall cur fl e,
  layout_fields (map to_sfield fs) cur = Some (fl, e) ->
  exists offs, member_offsets (map field_smember fs) cur = Some offs /\
               size_go (map field_smember fs) cur = Some e /\
               field_offset_traits fs fl = map dflt0 offs.
Proof.
  induction fs as [|f r IH]; intros cur fl e H; cbn [map layout_fields member_offsets size_go field_offset_traits] in *.
  - injection H as <- <-. exists []. auto.
  - change (sf_type (to_sfield f)) with (ftype_stype (tf_type f)) in H.
    change (sf_const (to_sfield f)) with (is_constant (actual_presence f)) in H.
    change (sf_off (to_sfield f)) with (tf_off f) in H.
    change (field_smember f) with (SMember (tf_off f) (is_constant (actual_presence f)) (ftype_stype (tf_type f))).
    cbn beta iota.
    destruct (type_size (ftype_stype (tf_type f))) as [sz|] eqn:Et; [|discriminate].
    destruct (is_constant (actual_presence f)).
    + destruct (IH _ _ _ H) as (offs & H1 & H2 & H3). exists (None :: offs).
      rewrite H1, H2, H3. auto.
    + destruct (place (tf_off f) cur sz) as [[off cur']|]; [|discriminate].
      destruct (layout_fields (map to_sfield r) cur') as [[fl' e']|] eqn:Er; [|discriminate].
      injection H as <- <-. destruct (IH _ _ _ Er) as (offs & H1 & H2 & H3).
      exists (Some off :: offs). rewrite H1, H2. cbn [f_off map dflt0]. rewrite H3. auto.
Qed.

Lemma block_length_spec bl minimal b : block_length bl minimal = Some b ->
  match bl with Some x => b = x /\ minimal <= x | None => b = minimal end.
Proof.
  unfold block_length. destruct bl as [x|].
  - destruct (x <? minimal) eqn:E; [discriminate|]. intros [= <-]. apply Z.ltb_ge in E. auto.
  - intros [= <-]. reflexivity.
Qed.

(* C18: field_traits<F>::offset() obeys the SBE placement rule inside the
   block, constants take no space (and report 0), block_length() is the
   blockLength attribute when there is one (never below the end of the last
   field) and the end of the last field otherwise; presence() is the actual
   presence *)
Theorem level_traits_ok : forall bl fs lt,
  level_traits_of bl fs = Some lt ->
  exists offs minimal,
    Placed (map field_smember fs) 0 offs minimal /\
    lt_offsets lt = map dflt0 offs /\
    lt_presence lt = map actual_presence fs /\
    minimal <= lt_block_length lt /\
    match bl with Some x => lt_block_length lt = x | None => lt_block_length lt = minimal end /\
    (forall k f, nth_error fs k = Some f ->
       if is_constant (actual_presence f) then nth_error offs k = Some None
       else exists o, nth_error offs k = Some (Some o) /\
                      match tf_off f with Some x => o = x | None => True end).
Proof.
  intros bl fs lt H. unfold level_traits_of, level_layout in H.
  destruct (layout_fields (map to_sfield fs) 0) as [[fl minimal]|] eqn:El; [|discriminate].
  destruct (block_length bl minimal) as [b|] eqn:Eb; [|discriminate]. injection H as <-.
  destruct (layout_fields_offsets _ _ _ _ El) as (offs & H1 & H2 & H3).
  destruct (member_offsets_placed _ _ _ H1) as (e & Hp & Hs). rewrite H2 in Hs. injection Hs as <-.
  exists offs, minimal. cbn [lt_offsets lt_presence lt_block_length].
  pose proof (block_length_spec _ _ _ Eb) as Hb.
  split; [exact Hp|]. split; [exact H3|]. split; [reflexivity|]. split; [destruct bl; lia|].
  split; [destruct bl; [tauto|exact Hb]|].
  intros k f Hk.
  assert (Hm : nth_error (map field_smember fs) k = Some (field_smember f))
    by (rewrite nth_error_map, Hk; reflexivity).
  destruct (placed_nonconst _ _ _ _ Hp _ _ Hm) as [Hc Hnc]. cbn [field_smember sm_const sm_off] in Hc, Hnc.
  destruct (is_constant (actual_presence f)); [apply Hc; reflexivity|apply Hnc; reflexivity].
Qed.

(* C18: the actual presence rule (sbe_schema_validator.hpp, get_actual_presence) *)
Theorem actual_presence_rule : forall f,
  (forall p, tf_type f = FPrim p -> actual_presence f = tf_pres f) /\
  (forall n p pres len off, tf_type f = FEnc (TyType n p pres len off) -> actual_presence f = pres) /\
  (forall n off es, tf_type f = FEnc (TyComposite n off es) -> actual_presence f = tf_pres f) /\
  (forall n p vs off, tf_type f = FEnc (TyEnum n p vs off) ->
     actual_presence f <> POptional /\
     (actual_presence f = PConstant <-> tf_pres f = PConstant)) /\
  (forall n p cs off, tf_type f = FEnc (TySet n p cs off) -> actual_presence f = PRequired).
Proof.
  intros f. unfold actual_presence. repeat split; intros; try (rewrite H; reflexivity).
  - rewrite H. destruct (tf_pres f); discriminate.
  - rewrite H in H0. destruct (tf_pres f); try discriminate; reflexivity.
  - rewrite H, H0. reflexivity.
Qed.

Example level_traits_nonvacuous :
  level_traits_of (Some 20)
    [ {| tf_name := "a"; tf_off := None; tf_pres := POptional; tf_type := FPrim PU32 |};
      {| tf_name := "k"; tf_off := None; tf_pres := PConstant;
         tf_type := FEnc (TyEnum "E" PU8 ["A"%string] None) |};
      {| tf_name := "s"; tf_off := Some 6; tf_pres := POptional;
         tf_type := FEnc (TySet "S" PU16 [] None) |} ]
  = Some {| lt_offsets := [0; 0; 6]; lt_presence := [POptional; PConstant; PRequired];
            lt_block_length := 20 |}.
Proof. vm_compute. reflexivity. Qed.

Example composite_traits_nonvacuous :
  elem_offsets [ElEnc (TyType "a" PU16 PRequired 1 None);
                ElEnc (TyType "k" PU8 PConstant 1 None);
                ElRef "r" (Some 4) (TyType "T" PChar PRequired 3 None);
                ElEnc (TyComposite "in" None [ElEnc (TyType "x" PU64 PRequired 1 None)])]
  = Some [Some 0; None; Some 4; Some 7] /\
  enc_size (TyComposite "C" None
               [ElEnc (TyType "a" PU16 PRequired 1 None);
                ElEnc (TyType "k" PU8 PConstant 1 None);
                ElRef "r" (Some 4) (TyType "T" PChar PRequired 3 None);
                ElEnc (TyComposite "in" None [ElEnc (TyType "x" PU64 PRequired 1 None)])]) = Some 15.
Proof. vm_compute. split; reflexivity. Qed.

(* ------------------------------------------------------------------ *)
(* children tag lists                                                   *)
(* ------------------------------------------------------------------ *)
Lemma app_inj_tail_single {A} (p : list A) a b : p ++ [a] = p ++ [b] -> a = b.
Proof. intros H. apply app_inv_head in H. injection H. auto. Qed.

(* C18: a children tag list names exactly the children, in schema order, each
   directly below the parent's tag; distinct children have distinct tags *)
Theorem children_tags_ok : forall parent names,
  List.length (child_tags parent names) = List.length names /\
  (forall k n, nth_error names k = Some n -> nth_error (child_tags parent names) k = Some (parent ++ [n])) /\
  map (fun t => last t ""%string) (child_tags parent names) = names /\
  Forall (fun t => removelast t = parent) (child_tags parent names) /\
  (NoDup names -> NoDup (child_tags parent names)).
Proof.
  intros parent names. unfold child_tags. repeat split.
  - apply map_length.
  - intros k n Hk. rewrite nth_error_map, Hk. reflexivity.
  - rewrite map_map. rewrite <- (map_id names) at 2. apply map_ext. intros n. apply last_last.
  - apply Forall_forall. intros t Ht. apply in_map_iff in Ht as (n & <- & _). apply removelast_last.
  - intros Hn. apply FinFun.Injective_map_NoDup; [|exact Hn]. intros a b. apply app_inj_tail_single.
Qed.

(* ------------------------------------------------------------------ *)
(* tag kinds are exclusive: every tag path is emitted once              *)
(* ------------------------------------------------------------------ *)
Definition telemP (P : tenc -> Prop) (x : telem) : Prop :=
  match x with ElRef _ _ _ => True | ElEnc e => P e end.

Section TencInd.
  Variable P : tenc -> Prop.
  Hypothesis HT : forall n p pr l o, P (TyType n p pr l o).
  Hypothesis HE : forall n p v o, P (TyEnum n p v o).
  Hypothesis HS : forall n p c o, P (TySet n p c o).
  Hypothesis HC : forall n o es, Forall (telemP P) es -> P (TyComposite n o es).
  Fixpoint tenc_ind' (e : tenc) : P e :=
    match e with
    | TyType n p pr l o => HT n p pr l o
    | TyEnum n p v o => HE n p v o
    | TySet n p c o => HS n p c o
    | TyComposite n o es =>
      HC n o es ((fix go (es : list telem) : Forall (telemP P) es :=
                    match es with
                    | [] => @Forall_nil _ (telemP P)
                    | x :: r => @Forall_cons _ (telemP P) x r
                        (match x return telemP P x with
                         | ElRef _ _ _ => I
                         | ElEnc e => tenc_ind' e
                         end) (go r)
                    end) es)
    end.
End TencInd.

Section TgroupInd.
  Variable P : tgroup -> Prop.
  Hypothesis HG : forall n bl fs gs ds, Forall P gs -> P (TGroup n bl fs gs ds).
  Fixpoint tgroup_ind' (g : tgroup) : P g :=
    match g with
    | TGroup n bl fs gs ds =>
      HG n bl fs gs ds ((fix go (gs : list tgroup) : Forall P gs :=
                           match gs with
                           | [] => @Forall_nil _ P
                           | x :: r => @Forall_cons _ P x r (tgroup_ind' x) (go r)
                           end) gs)
    end.
End TgroupInd.

Definition below (p : tag) (n : string) (t : tag) : Prop := exists rest, t = p ++ n :: rest.

Lemma below_neq p n t : below p n t -> t <> p.
Proof.
  intros (rest & ->) H. apply (f_equal (@List.length string)) in H.
  rewrite app_length in H. cbn in H. lia.
Qed.

Lemma below_name p n m t : below p n t -> below p m t -> n = m.
Proof.
  intros (r1 & ->) (r2 & H). apply app_inv_head in H. injection H. auto.
Qed.

Lemma below_step p n m t : below (p ++ [n]) m t -> below p n t.
Proof. intros (rest & ->). exists (m :: rest). rewrite <- app_assoc. reflexivity. Qed.

Lemma NoDup_app2 {A} (l l' : list A) :
  NoDup l -> NoDup l' -> (forall x, In x l -> ~ In x l') -> NoDup (l ++ l').
Proof.
  induction l as [|a l IH]; intros H1 H2 H3; [exact H2|]. cbn. inversion H1; subst.
  constructor.
  - rewrite in_app_iff. intros [H|H]; [contradiction|]. apply (H3 a); [left; reflexivity|exact H].
  - apply IH; auto. intros x Hx. apply H3. right. exact Hx.
Qed.

(* blocks of tags under distinct child names are disjoint *)
Lemma nodup_blocks (me : tag) (blocks : list (string * list tag)) :
  NoDup (map fst blocks) ->
  (forall n l, In (n, l) blocks -> NoDup l /\ forall t, In t l -> below me n t) ->
  NoDup (List.concat (map snd blocks)).
Proof.
  induction blocks as [|[n l] r IH]; intros Hn Hb; [constructor|]. cbn [map List.concat fst snd] in *.
  inversion Hn as [|? ? Hnotin Hn']; subst.
  destruct (Hb n l (or_introl eq_refl)) as [Hl Hbelow].
  apply NoDup_app2; [exact Hl|apply IH; [exact Hn'|intros; apply Hb; right; assumption]|].
  intros t Ht Hin. apply in_concat in Hin as (l' & Hl' & Ht').
  apply in_map_iff in Hl' as ([m l''] & <- & Hm). cbn in Ht'.
  destruct (Hb m l'' (or_intror Hm)) as [_ Hb'].
  pose proof (below_name _ _ _ _ (Hbelow t Ht) (Hb' t Ht')) as ->.
  apply Hnotin. apply in_map_iff. exists (m, l''). auto.
Qed.

Definition elem_block (me : tag) (x : telem) : string * list tag :=
  match x with
  | ElRef n _ _ => (n, [me ++ [n]])
  | ElEnc e => (tenc_name e, map fst (enc_tags me e))
  end.

Lemma enc_tags_unfold parent e :
  map fst (enc_tags parent e) =
  (parent ++ [tenc_name e]) ::
  match e with
  | TyType _ _ _ _ _ => []
  | TyEnum _ _ vs _ => map (fun v => (parent ++ [tenc_name e]) ++ [v]) vs
  | TySet _ _ cs _ => map (fun v => (parent ++ [tenc_name e]) ++ [v]) cs
  | TyComposite _ _ es => List.concat (map snd (map (elem_block (parent ++ [tenc_name e])) es))
  end.
Proof.
  destruct e as [n p pr l o|n p vs o|n p cs o|n o es]; cbn [enc_tags map fst tenc_name].
  - reflexivity.
  - rewrite map_map. reflexivity.
  - rewrite map_map. reflexivity.
  - f_equal. induction es as [|x r IH]; [reflexivity|].
    destruct x as [m ro t|x]; cbn [map List.concat snd elem_block fst].
    + cbn. f_equal. exact IH.
    + rewrite map_app. f_equal. exact IH.
Qed.

Lemma single_below p n : below p n (p ++ [n]).
Proof. exists []. reflexivity. Qed.

Lemma child_below p n v : below p n ((p ++ [n]) ++ [v]).
Proof. exists [v]. rewrite <- app_assoc. reflexivity. Qed.

Lemma enc_tags_below e : forall parent t, In t (map fst (enc_tags parent e)) -> below parent (tenc_name e) t.
Proof.
  induction e as [n p pr l o|n p vs o|n p cs o|n o es IH] using tenc_ind'; intros parent t Ht;
    rewrite enc_tags_unfold in Ht; cbn [tenc_name] in *; destruct Ht as [<-|Ht]; try apply single_below.
  - destruct Ht.
  - apply in_map_iff in Ht as (v & <- & _). apply child_below.
  - apply in_map_iff in Ht as (v & <- & _). apply child_below.
  - apply in_concat in Ht as (l & Hl & Ht). rewrite map_map in Hl.
    apply in_map_iff in Hl as (x & <- & Hx). rewrite Forall_forall in IH. specialize (IH x Hx).
    destruct x as [m ro tt|x]; cbn [elem_block snd] in Ht.
    + destruct Ht as [<-|[]]. apply child_below.
    + cbn [telemP] in IH. eapply below_step. apply IH. exact Ht.
Qed.

Lemma map_child_nodup (me : tag) vs : NoDup vs -> NoDup (map (fun v => me ++ [v]) vs).
Proof. intros H. apply Injective_map_NoDup; [|exact H]. intros a b. apply app_inj_tail_single. Qed.

Lemma enc_wf_composite n o es : enc_wf (TyComposite n o es) ->
  NoDup (map telem_name es) /\ Forall (telemP enc_wf) es.
Proof.
  cbn [enc_wf]. intros [H1 H2]. split; [exact H1|]. clear H1.
  induction es as [|x r IH]; [constructor|]. destruct x as [m ro t|x].
  - constructor; [exact I|apply IH; exact H2].
  - destruct H2 as [Hx Hr]. constructor; [exact Hx|apply IH; exact Hr].
Qed.

Lemma enc_tags_nodup e : enc_wf e -> forall parent, NoDup (map fst (enc_tags parent e)).
Proof.
  induction e as [n p pr l o|n p vs o|n p cs o|n o es IH] using tenc_ind'; intros Hwf parent;
    rewrite enc_tags_unfold; cbn [tenc_name].
  - constructor; [intros []|constructor].
  - constructor; [|apply map_child_nodup; exact Hwf].
    intros H. apply in_map_iff in H as (v & H & _). apply (f_equal (@List.length string)) in H.
    rewrite app_length in H. cbn in H. lia.
  - constructor; [|apply map_child_nodup; exact Hwf].
    intros H. apply in_map_iff in H as (v & H & _). apply (f_equal (@List.length string)) in H.
    rewrite app_length in H. cbn in H. lia.
  - destruct (enc_wf_composite _ _ _ Hwf) as [Hn Hall].
    set (me := parent ++ [n]).
    assert (Hblocks : forall m l, In (m, l) (map (elem_block me) es) -> NoDup l /\ forall t, In t l -> below me m t).
    { intros m l Hin. apply in_map_iff in Hin as (x & Hx & Hxin).
      rewrite Forall_forall in IH, Hall. specialize (IH x Hxin). specialize (Hall x Hxin).
      destruct x as [m' ro t|x]; cbn [elem_block] in Hx; injection Hx as <- <-.
      - split; [constructor; [intros []|constructor]|]. intros t' [<-|[]]. apply single_below.
      - cbn [telemP] in IH, Hall. split; [apply IH; exact Hall|]. intros t' Ht'. apply enc_tags_below. exact Ht'. }
    constructor.
    + intros Hin. apply in_concat in Hin as (l & Hl & Ht). apply in_map_iff in Hl as ([m l'] & <- & Hm).
      destruct (Hblocks m l' Hm) as [_ Hb]. exact (below_neq _ _ _ (Hb _ Ht) eq_refl).
    + apply nodup_blocks with (me := me); [|exact Hblocks].
      rewrite map_map. replace (map (fun x => fst (elem_block me x)) es) with (map telem_name es); [exact Hn|].
      apply map_ext. intros [m ro t|x]; reflexivity.
Qed.

(* ---- message side ---- *)
Definition level_blocks (me : tag) (fs : list tfield) (gs : list tgroup) (ds : list string)
  : list (string * list tag) :=
  map (fun f => (tf_name f, [me ++ [tf_name f]])) fs ++
  map (fun g => (tgroup_name g, map fst (group_tags me g))) gs ++
  map (fun d => (d, [me ++ [d]])) ds.

Lemma concat_singletons {A B} (f : A -> B) (l : list A) :
  List.concat (map (fun x => [f x]) l) = map f l.
Proof. induction l as [|a l IH]; [reflexivity|]. cbn. now rewrite IH. Qed.

Lemma level_blocks_names me fs gs ds :
  map fst (level_blocks me fs gs ds) = level_member_names fs gs ds.
Proof.
  unfold level_blocks, level_member_names. rewrite !map_app, !map_map. cbn [fst].
  f_equal. f_equal. apply map_id.
Qed.

Lemma group_tags_unfold parent g :
  map fst (group_tags parent g) =
  match g with TGroup n _ fs gs ds =>
    (parent ++ [n]) :: List.concat (map snd (level_blocks (parent ++ [n]) fs gs ds))
  end.
Proof.
  destruct g as [n bl fs gs ds]. cbn [group_tags map fst]. f_equal.
  unfold level_blocks. rewrite !map_app, !concat_app, !map_map. cbn [snd].
  rewrite (concat_singletons (fun f => (parent ++ [n]) ++ [tf_name f])).
  rewrite (concat_singletons (fun d => (parent ++ [n]) ++ [d])).
  f_equal. f_equal.
  induction gs as [|x r IH]; [reflexivity|]. cbn [map List.concat]. rewrite map_app. f_equal. exact IH.
Qed.

Lemma group_tags_below g : forall parent t, In t (map fst (group_tags parent g)) -> below parent (tgroup_name g) t.
Proof.
  induction g as [n bl fs gs ds IH] using tgroup_ind'. intros parent t Ht. rewrite group_tags_unfold in Ht.
  cbn [tgroup_name]. destruct Ht as [<-|Ht]; [apply single_below|].
  apply in_concat in Ht as (l & Hl & Ht). apply in_map_iff in Hl as ([m l'] & <- & Hm). cbn [snd] in Ht.
  unfold level_blocks in Hm. rewrite !in_app_iff, !in_map_iff in Hm.
  destruct Hm as [(f & [= <- <-] & _)|[(g & [= <- <-] & Hg)|(d & [= <- <-] & _)]].
  - destruct Ht as [<-|[]]. apply child_below.
  - rewrite Forall_forall in IH. eapply below_step. apply (IH g Hg). exact Ht.
  - destruct Ht as [<-|[]]. apply child_below.
Qed.

Lemma group_wf_inv n bl fs gs ds : group_wf (TGroup n bl fs gs ds) ->
  NoDup (level_member_names fs gs ds) /\ Forall group_wf gs.
Proof.
  cbn [group_wf]. intros [H1 H2]. split; [exact H1|]. clear H1.
  induction gs as [|x r IH]; [constructor|]. destruct H2 as [Hx Hr]. constructor; [exact Hx|apply IH; exact Hr].
Qed.

Lemma level_blocks_ok me fs gs ds :
  NoDup (level_member_names fs gs ds) ->
  Forall (fun g => forall parent, NoDup (map fst (group_tags parent g))) gs ->
  NoDup (List.concat (map snd (level_blocks me fs gs ds))) /\
  forall t, In t (List.concat (map snd (level_blocks me fs gs ds))) -> exists n, below me n t.
Proof.
  intros Hn Hg.
  assert (Hb : forall m l, In (m, l) (level_blocks me fs gs ds) -> NoDup l /\ forall t, In t l -> below me m t).
  { intros m l Hm. unfold level_blocks in Hm. rewrite !in_app_iff, !in_map_iff in Hm.
    destruct Hm as [(f & [= <- <-] & _)|[(g & [= <- <-] & Hgin)|(d & [= <- <-] & _)]].
    - split; [constructor; [intros []|constructor]|]. intros t [<-|[]]. apply single_below.
    - rewrite Forall_forall in Hg. split; [apply Hg; exact Hgin|]. intros t Ht. apply group_tags_below. exact Ht.
    - split; [constructor; [intros []|constructor]|]. intros t [<-|[]]. apply single_below. }
  split.
  - apply nodup_blocks with (me := me); [rewrite level_blocks_names; exact Hn|exact Hb].
  - intros t Ht. apply in_concat in Ht as (l & Hl & Ht). apply in_map_iff in Hl as ([m l'] & <- & Hm).
    exists m. apply (Hb m l' Hm). exact Ht.
Qed.

Lemma group_tags_nodup g : group_wf g -> forall parent, NoDup (map fst (group_tags parent g)).
Proof.
  induction g as [n bl fs gs ds IH] using tgroup_ind'. intros Hwf parent. rewrite group_tags_unfold.
  destruct (group_wf_inv _ _ _ _ _ Hwf) as [Hn Hall].
  assert (Hg : Forall (fun g => forall parent, NoDup (map fst (group_tags parent g))) gs).
  { rewrite Forall_forall in *. intros g Hgin. apply IH; [exact Hgin|apply Hall; exact Hgin]. }
  destruct (level_blocks_ok (parent ++ [n]) fs gs ds Hn Hg) as [Hnd Hbel].
  constructor; [|exact Hnd]. intros Hin. destruct (Hbel _ Hin) as (m & Hm). exact (below_neq _ _ _ Hm eq_refl).
Qed.

Lemma message_tags_unfold m :
  map fst (message_tags m) =
  (["messages"%string] ++ [tm_name m]) ::
  List.concat (map snd (level_blocks (["messages"%string] ++ [tm_name m]) (tm_fields m) (tm_groups m) (tm_data m))).
Proof.
  unfold message_tags. cbn [map fst app]. f_equal.
  unfold level_blocks. rewrite !map_app, !concat_app, !map_map. cbn [snd].
  rewrite (concat_singletons (fun f => ["messages"%string; tm_name m] ++ [tf_name f])).
  rewrite (concat_singletons (fun d => ["messages"%string; tm_name m] ++ [d])).
  f_equal. f_equal. rewrite flat_map_concat_map.
  induction (tm_groups m) as [|x r IH]; [reflexivity|]. cbn [map List.concat]. rewrite map_app. f_equal. exact IH.
Qed.

Lemma message_tags_below m t : In t (map fst (message_tags m)) -> below ["messages"%string] (tm_name m) t.
Proof.
  rewrite message_tags_unfold. intros [<-|Ht]; [first [apply single_below | eexists; reflexivity]|].
  apply in_concat in Ht as (l & Hl & Ht). apply in_map_iff in Hl as ([k l'] & <- & Hm). cbn [snd] in Ht.
  unfold level_blocks in Hm. rewrite !in_app_iff, !in_map_iff in Hm.
  destruct Hm as [(f & [= <- <-] & _)|[(g & [= <- <-] & Hg)|(d & [= <- <-] & _)]].
  - destruct Ht as [<-|[]]. first [apply child_below | eexists; reflexivity].
  - eapply below_step. apply group_tags_below. exact Ht.
  - destruct Ht as [<-|[]]. first [apply child_below | eexists; reflexivity].
Qed.

Lemma message_tags_nodup m : message_wf m -> NoDup (map fst (message_tags m)).
Proof.
  intros [Hn Hall]. rewrite message_tags_unfold.
  assert (Hg : Forall (fun g => forall parent, NoDup (map fst (group_tags parent g))) (tm_groups m)).
  { rewrite Forall_forall in *. intros g Hgin. apply group_tags_nodup, Hall, Hgin. }
  destruct (level_blocks_ok (["messages"%string] ++ [tm_name m]) _ _ _ Hn Hg) as [Hnd Hbel].
  constructor; [|exact Hnd]. intros Hin. destruct (Hbel _ Hin) as (k & Hk). exact (below_neq _ _ _ Hk eq_refl).
Qed.

Lemma flat_map_fst_concat {A B C} (f : A -> list (B * C)) l :
  map fst (flat_map f l) = List.concat (map (fun x => map fst (f x)) l).
Proof. induction l as [|a l IH]; [reflexivity|]. cbn [flat_map map List.concat]. rewrite map_app, IH. reflexivity. Qed.

Theorem schema_tags_nodup : forall s, schema_wf s -> NoDup (map fst (schema_tags s)).
Proof.
  intros s (Htn & Htw & Hmn & Hmw). unfold schema_tags. cbn [map fst]. rewrite map_app.
  set (TB := map (fun e => (tenc_name e, map fst (enc_tags ["types"%string] e))) (ts_types s)).
  set (MB := map (fun m => (tm_name m, map fst (message_tags m))) (ts_messages s)).
  assert (HT : map fst (flat_map (enc_tags ["types"%string]) (ts_types s)) = List.concat (map snd TB)).
  { unfold TB. rewrite map_map. cbn [snd]. apply flat_map_fst_concat. }
  assert (HM : map fst (flat_map message_tags (ts_messages s)) = List.concat (map snd MB)).
  { unfold MB. rewrite map_map. cbn [snd]. apply flat_map_fst_concat. }
  rewrite HT, HM.
  assert (HTB : forall n l, In (n, l) TB -> NoDup l /\ forall t, In t l -> below ["types"%string] n t).
  { intros n l Hin. unfold TB in Hin. apply in_map_iff in Hin as (e & [= <- <-] & He).
    rewrite Forall_forall in Htw. split; [apply enc_tags_nodup, Htw, He|]. intros t Ht. apply enc_tags_below. exact Ht. }
  assert (HMB : forall n l, In (n, l) MB -> NoDup l /\ forall t, In t l -> below ["messages"%string] n t).
  { intros n l Hin. unfold MB in Hin. apply in_map_iff in Hin as (m & [= <- <-] & Hm).
    rewrite Forall_forall in Hmw. split; [apply message_tags_nodup, Hmw, Hm|]. intros t Ht. apply message_tags_below. exact Ht. }
  assert (HbT : forall t, In t (List.concat (map snd TB)) -> exists n, below ["types"%string] n t).
  { intros t Ht. apply in_concat in Ht as (l & Hl & Ht). apply in_map_iff in Hl as ([n l'] & <- & Hn).
    exists n. apply (HTB n l' Hn). exact Ht. }
  assert (HbM : forall t, In t (List.concat (map snd MB)) -> exists n, below ["messages"%string] n t).
  { intros t Ht. apply in_concat in Ht as (l & Hl & Ht). apply in_map_iff in Hl as ([n l'] & <- & Hn).
    exists n. apply (HMB n l' Hn). exact Ht. }
  constructor.
  - rewrite in_app_iff. intros [H|H]; [destruct (HbT _ H) as (n & r & Hr)|destruct (HbM _ H) as (n & r & Hr)]; discriminate.
  - apply NoDup_app2.
    + apply nodup_blocks with (me := ["types"%string]); [|exact HTB]. unfold TB. rewrite map_map. exact Htn.
    + apply nodup_blocks with (me := ["messages"%string]); [|exact HMB]. unfold MB. rewrite map_map. exact Hmn.
    + intros t Ht Hm. destruct (HbT _ Ht) as (n & r & ->). destruct (HbM _ Hm) as (n' & r' & Hr). discriminate.
Qed.

Lemma tag_eqb_eq a b : tag_eqb a b = true -> a = b.
Proof.
  unfold tag_eqb. rewrite andb_true_iff, Nat.eqb_eq. revert b.
  induction a as [|x a IH]; intros [|y b] [Hl H]; try discriminate; [reflexivity|].
  cbn in H. apply andb_true_iff in H as [H1 H2]. apply String.eqb_eq in H1. subst.
  f_equal. apply IH. split; [cbn in Hl; lia|exact H2].
Qed.

Lemma tag_kind_eqb_eq a b : tag_kind_eqb a b = true -> a = b.
Proof. destruct a, b; cbn; intros H; try discriminate; reflexivity. Qed.

Lemma nodup_fst_functional {A B} (l : list (A * B)) a b b' :
  NoDup (map fst l) -> In (a, b) l -> In (a, b') l -> b = b'.
Proof.
  induction l as [|[x y] l IH]; intros Hn H1 H2; [destruct H1|]. cbn in Hn. inversion Hn; subst.
  destruct H1 as [E|H1], H2 as [E'|H2].
  - congruence.
  - injection E as -> ->. exfalso. apply H3. apply in_map_iff. exists (a, b'). auto.
  - injection E' as -> ->. exfalso. apply H3. apply in_map_iff. exists (a, b). auto.
  - auto.
Qed.

(* C18: for a schema that obeys the parser's uniqueness rules every tag has
   exactly one kind: at most one is_<kind>_tag predicate holds for it, and one
   does for every tag of the schema *)
Theorem tag_kind_exclusive : forall s k k' t,
  schema_wf s -> is_kind_tag s k t = true -> is_kind_tag s k' t = true -> k = k'.
Proof.
  intros s k k' t Hwf H1 H2. unfold is_kind_tag in *. rewrite existsb_exists in H1, H2.
  destruct H1 as ([t1 k1] & Hin1 & E1), H2 as ([t2 k2] & Hin2 & E2). cbn [fst snd] in *.
  apply andb_true_iff in E1 as [Ea Eb], E2 as [Ec Ed].
  apply tag_eqb_eq in Ea, Ec. apply tag_kind_eqb_eq in Eb, Ed. subst.
  exact (nodup_fst_functional _ _ _ _ (schema_tags_nodup s Hwf) Hin1 Hin2).
Qed.

Lemma tag_eqb_refl a : tag_eqb a a = true.
Proof.
  unfold tag_eqb. rewrite Nat.eqb_refl. cbn [andb]. induction a as [|x a IH]; [reflexivity|].
  cbn. rewrite String.eqb_refl, IH. reflexivity.
Qed.

Theorem tag_kind_total : forall s t k, In (t, k) (schema_tags s) -> is_kind_tag s k t = true.
Proof.
  intros s t k H. unfold is_kind_tag. rewrite existsb_exists. exists (t, k). split; [exact H|].
  cbn [fst snd]. rewrite tag_eqb_refl. destruct k; reflexivity.
Qed.

Example tag_kind_nonvacuous :
  let s := {| ts_types := [TyEnum "E" PU8 ["A"%string] None;
                           TyComposite "A" None [ElRef "E" None (TyEnum "E" PU8 ["A"%string] None);
                                                 ElEnc (TySet "A" PU8 ["E"%string] None)]];
              ts_messages := [{| tm_name := "E"; tm_bl := None;
                                 tm_fields := [{| tf_name := "A"; tf_off := None; tf_pres := PRequired; tf_type := FPrim PU8 |}];
                                 tm_groups := [TGroup "E" None [] [] ["A"%string]]; tm_data := ["d"%string] |}] |} in
  is_kind_tag s KEnumValue ["types"; "E"; "A"]%string = true /\
  is_kind_tag s KSet ["types"; "A"; "A"]%string = true /\
  is_kind_tag s KEnum ["types"; "A"; "E"]%string = true /\
  is_kind_tag s KField ["messages"; "E"; "A"]%string = true /\
  is_kind_tag s KData ["messages"; "E"; "E"; "A"]%string = true /\
  is_kind_tag s KGroup ["messages"; "E"; "A"]%string = false.
Proof. vm_compute. repeat split. Qed.
