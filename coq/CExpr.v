(* CExpr.v — a deep embedding of the integer expressions of C++ as clang's
   typed AST presents them, with an evaluator through CInt.

   harness/srcexprs.py regenerates coq/SrcExprs.v from /repo's CURRENT
   sbepp.hpp on every run: it asks clang for the AST of a handful of small
   integer functions (instantiated at every relevant type) and prints each
   function body as a [cexpr].  In that AST every integral promotion, usual
   arithmetic conversion and implicit conversion is an explicit cast node that
   carries its type, so the translator decides nothing about C++ semantics: it
   copies node kinds, operators, literal values and the types clang computed.
   The meaning of a node is given HERE, through the same CInt operations the
   hand-written models use ([None] = undefined behaviour).

   [EBin o t a b]: both operands already have type [t] (clang inserted the
   casts); [EShl/EShr t a n]: [t] is the (promoted) type of the left operand,
   which is the type of the result.                                         *)
From Coq Require Import ZArith Bool String List.
From Sbepp Require Import CInt Bytes.
Local Open Scope Z_scope.

Inductive binop := OAdd | OSub | OMul | OAnd | OOr | OXor.
Inductive cmpop := CLt | CLe | CGt | CGe | CEq | CNe.

Inductive cexpr :=
| EVar (x : string)
| ELit (v : Z)
| ECast (t : ity) (e : cexpr)          (* IntegralCast / static_cast to an integer type *)
| EToBool (e : cexpr)                  (* IntegralToBoolean: 0 -> 0, anything else -> 1 *)
| EBin (o : binop) (t : ity) (a b : cexpr)
| EShl (t : ity) (a n : cexpr)
| EShr (t : ity) (a n : cexpr)
| ENot (t : ity) (a : cexpr)           (* ~a, a of the promoted type t *)
| ENeg (t : ity) (a : cexpr)           (* -a *)
| ECmp (o : cmpop) (a b : cexpr)       (* operands of a common type; result 0/1 *)
| ECond (c a b : cexpr)                (* c ? a : b *)
| EBswap (w : Z) (a : cexpr).          (* __builtin_bswap16/32/64: reverses the w-byte object representation (Bytes.byteswap) *)

Fixpoint lookup (env : list (string * Z)) (x : string) : option Z :=
  match env with
  | nil => None
  | (y, v) :: r => if String.eqb x y then Some v else lookup r x
  end.

Definition cshr (t : ity) (a n : Z) : option Z :=
  if (n <? 0) || (bits t <=? n) then None else Some (Z.shiftr a n).

Definition ebin (o : binop) (t : ity) (x y : Z) : option Z :=
  match o with
  | OAdd => cadd t t x y
  | OSub => csub t t x y
  | OMul => cmul t t x y
  | OAnd => Some (cand t t x y)
  | OOr => Some (cor t t x y)
  | OXor => Some (cbit Z.lxor t t x y)
  end.

Definition ecmp (o : cmpop) (x y : Z) : bool :=
  match o with
  | CLt => x <? y | CLe => x <=? y | CGt => y <? x | CGe => y <=? x
  | CEq => x =? y | CNe => negb (x =? y)
  end.

Definition zb (b : bool) : Z := if b then 1 else 0.

Fixpoint ceval (env : list (string * Z)) (e : cexpr) : option Z :=
  match e with
  | EVar x => lookup env x
  | ELit v => Some v
  | ECast t a => obind (ceval env a) (fun x => Some (ccast t x))
  | EToBool a => obind (ceval env a) (fun x => Some (zb (negb (x =? 0))))
  | EBin o t a b => obind (ceval env a) (fun x => obind (ceval env b) (fun y => ebin o t x y))
  | EShl t a n => obind (ceval env a) (fun x => obind (ceval env n) (fun y => cshl t x y))
  | EShr t a n => obind (ceval env a) (fun x => obind (ceval env n) (fun y => cshr t x y))
  | ENot t a => obind (ceval env a) (fun x => Some (cnot t x))
  | ENeg t a => obind (ceval env a) (fun x => cneg t x)
  | ECmp o a b => obind (ceval env a) (fun x => obind (ceval env b) (fun y => Some (zb (ecmp o x y))))
  | ECond c a b => obind (ceval env c) (fun x => if x =? 0 then ceval env b else ceval env a)
  | EBswap w a => obind (ceval env a) (fun x => Some (byteswap (Z.to_nat w) x))
  end.

(* a translated function: what it returns / what it stores into which object *)
Inductive effect :=
| Return (e : cexpr)
| Store (target : string) (e : cexpr)        (* target = e, e already converted to the target's type *)
| PtrAdd (target : string) (e : cexpr)       (* pointer += e (e converted to ptrdiff_t) *)
| PtrSub (target : string) (e : cexpr)       (* pointer -= e *)
| Local (x : string) (e : cexpr)             (* T x = e; a local integer object *)
| Assert (e : cexpr).                        (* SBEPP_ASSERT(e): the handler is called iff e is 0 *)

Definition eff_target (f : effect) : string :=
  match f with
  | Return _ => "return"
  | Store t _ => t ++ "="
  | PtrAdd t _ => t ++ "+="
  | PtrSub t _ => t ++ "-="
  | Local x _ => x ++ ":="
  | Assert _ => "assert"
  end.

(* statements run in order; a store is visible to the statements after it
   (pointers are not integer objects: an expression that read one would not
   evaluate) *)
Fixpoint effs_eval (env : list (string * Z)) (fs : list effect) : option (list Z) :=
  match fs with
  | nil => Some nil
  | Return e :: r => obind (ceval env e) (fun v => obind (effs_eval env r) (fun vs => Some (v :: vs)))
  | Store t e :: r => obind (ceval env e) (fun v => obind (effs_eval ((t, v) :: env) r) (fun vs => Some (v :: vs)))
  | PtrAdd t e :: r => obind (ceval env e) (fun v => obind (effs_eval env r) (fun vs => Some (v :: vs)))
  | PtrSub t e :: r => obind (ceval env e) (fun v => obind (effs_eval env r) (fun vs => Some (v :: vs)))
  | Local x e :: r => obind (ceval env e) (fun v => obind (effs_eval ((x, v) :: env) r) (fun vs => Some (v :: vs)))
  | Assert e :: r => obind (ceval env e) (fun v => if v =? 0 then Some (0 :: nil) else
                     obind (effs_eval env r) (fun vs => Some (v :: vs)))
  end.
