(* Literals.v — model of the text sbeppc pastes into generated headers for
   numbers and strings, together with a small semantics of the C++ tokens that
   text is made of.

   Generator side (sbeppc/utils.hpp, types_compiler.hpp):
     [string_to_number]        utils::string_to_number<T> (std::from_chars)
     [to_integer_literal]      utils::to_integer_literal           (FIXED code)
     [Legacy.to_integer_literal]  the code before the fix: echoes the schema text
     [builtin_min/max/null]    the three built-in tables of types_compiler.hpp
     [escape_literal]          utils::escape_literal               (FIXED code)
     [Legacy.escape_literal]   the code before the fix: pastes the text verbatim
     [fp_literal]              non-symbolic branch of numeric_literal_to_value
                               for float/double                    (FIXED code)
   C++ side (what a compiler makes of the text):
     [eval_expr]               value and type of an expression built from
                               integer literals, unary and binary minus
                               ([lex.icon] typing table, LP64)
     [narrowing]               list-initialisation of an integer type from a
                               constant expression ([dcl.init.list])
     [string_literal_denotes]  characters denoted by the body of a narrow
                               string / character literal (escape sequences,
                               raw quote / newline / trigraph = rejected)
     [cpp_number_kind]         is a pp-number an integer or a floating literal

   Definitions only (extracted).  Proofs: LiteralsProofs.v. *)
From Coq Require Import ZArith NArith List Bool Ascii String.
From Coq Require Import DecimalString.
From Sbepp Require Import CInt Bytes.
Import ListNotations.
Local Open Scope Z_scope.

(* ------------------------------------------------------------------ *)
(* characters                                                           *)
(* ------------------------------------------------------------------ *)
Definition code (c : ascii) : Z := Z.of_N (N_of_ascii c).
Definition chr (z : Z) : ascii := ascii_of_N (Z.to_N z).

Definition is_digit (c : ascii) : bool := (48 <=? code c) && (code c <=? 57).
Definition is_octal_digit (c : ascii) : bool := (48 <=? code c) && (code c <=? 55).
Definition is_alpha (c : ascii) : bool :=
  ((65 <=? code c) && (code c <=? 90)) || ((97 <=? code c) && (code c <=? 122)).
Definition is_alnum (c : ascii) : bool := is_digit c || is_alpha c.
Definition hex_value (c : ascii) : option Z :=
  let n := code c in
  if (48 <=? n) && (n <=? 57) then Some (n - 48)
  else if (65 <=? n) && (n <=? 70) then Some (n - 55)
  else if (97 <=? n) && (n <=? 102) then Some (n - 87)
  else None.

Fixpoint all_chars (f : ascii -> bool) (s : string) : bool :=
  match s with EmptyString => true | String c r => f c && all_chars f r end.

Fixpoint string_rev_app (s acc : string) : string :=
  match s with EmptyString => acc | String c r => string_rev_app r (String c acc) end.

(* ------------------------------------------------------------------ *)
(* decimal text <-> numbers (std::from_chars / fmt "{}")                *)
(* ------------------------------------------------------------------ *)

(* [0-9]+ -> value; no sign, no blanks, leading zeros allowed (from_chars) *)
Definition parse_digits (s : string) : option Z :=
  match NilZero.uint_of_string s with
  | Some d => Some (Z.of_N (N.of_uint d))
  | None => None
  end.

(* std::from_chars(first, last, T&) base 10: "-" only for signed T, no "+" *)
Definition starts_with_minus (s : string) : bool :=
  match s with String c _ => Ascii.eqb c "-" | EmptyString => false end.

Definition from_chars (signed : bool) (s : string) : option Z :=
  match s with
  | String c r =>
    if Ascii.eqb c "-" then (if signed then option_map Z.opp (parse_digits r) else None)
    else parse_digits s
  | EmptyString => None
  end.

(* utils::string_to_number<T>: fully parsed and representable *)
Definition string_to_number (t : ity) (s : string) : option Z :=
  match from_chars (is_signed t) s with
  | Some v => if in_range t v then Some v else None
  | None => None
  end.

(* fmt::format("{}", n) for a non-negative / any integer *)
Definition render_N (n : N) : string := NilZero.string_of_uint (N.to_uint n).
Definition render_Z (z : Z) : string :=
  match z with
  | Zneg p => String "-"%char (render_N (Npos p))
  | _ => render_N (Z.to_N z)
  end.

(* ------------------------------------------------------------------ *)
(* primitive types                                                      *)
(* ------------------------------------------------------------------ *)
Definition is_fp (p : prim) : bool := match p with PF32 | PF64 => true | _ => false end.

(* C++ type of the representation on x86-64 (char is signed) *)
Definition prim_cty (p : prim) : ity :=
  match p with
  | PChar | PI8 => I8 | PU8 => U8 | PI16 => I16 | PU16 => U16
  | PI32 => I32 | PU32 => U32 | PI64 => I64 | PU64 => U64
  | PF32 => I32 | PF64 => I64      (* unused: guarded by [is_fp] *)
  end.

Definition INT64_MAX : Z := 9223372036854775807.

(* utils::to_integer_literal after the fix: the parsed number is rendered
   again instead of echoing the schema text.

     if(value[0] == '-') {
         v = *string_to_number<int64_t>(value);
         if(v < -9223372036854775807) return format("{} {}", min_signed_literal, v - min_signed_literal);
         return format("{}", v);
     }
     v = *string_to_number<uint64_t>(value);
     if(v > 9223372036854775807) return format("{}UL", v);
     return format("{}", v);                                            *)
Definition to_integer_literal (value : string) : option string :=
  if starts_with_minus value then
    match string_to_number I64 value with
    | Some v =>
      if v <? - INT64_MAX
      then Some (render_Z (- INT64_MAX) ++ " " ++ render_Z (v - (- INT64_MAX)))%string
      else Some (render_Z v)
    | None => None       (* assert(v) *)
    end
  else
    match string_to_number U64 value with
    | Some v =>
      if INT64_MAX <? v then Some (render_Z v ++ "UL")%string else Some (render_Z v)
    | None => None       (* assert(v) *)
    end.

Module Legacy.
  (* the code before the fix: only int64 minimum and large uint64 are
     rewritten, everything else is the schema text itself *)
  Definition to_integer_literal (value : string) (p : prim) : option string :=
    match p with
    | PI64 =>
      if starts_with_minus value then
        match string_to_number I64 value with
        | Some v =>
          if v <? - INT64_MAX
          then Some (render_Z (- INT64_MAX) ++ " " ++ render_Z (v - (- INT64_MAX)))%string
          else Some value
        | None => None
        end
      else Some value
    | PU64 =>
      match string_to_number U64 value with
      | Some v => if INT64_MAX <? v then Some (value ++ "UL")%string else Some value
      | None => None
      end
    | _ => Some value
    end.

  (* strings were pasted between the quotes unchanged *)
  Definition escape_literal (s : string) : string := s.

  (* float/double text was pasted unchanged *)
  Definition fp_literal (s : string) : string := s.
End Legacy.

(* ------------------------------------------------------------------ *)
(* C++ integer literals and constant expressions                        *)
(* ------------------------------------------------------------------ *)
Inductive token := TLit (text : string) | TMinus | TPlus.

(* pp-number characters are collected, blanks separate, + and - are
   operators; anything else is outside this fragment *)
Definition flush (cur : string) (acc : list token) : list token :=
  match cur with EmptyString => acc | _ => TLit (string_rev_app cur EmptyString) :: acc end.

Fixpoint lex_go (s : string) (cur : string) (acc : list token) : option (list token) :=
  match s with
  | EmptyString => Some (List.rev (flush cur acc))
  | String c r =>
    if is_alnum c then lex_go r (String c cur) acc
    else if Ascii.eqb c " " then lex_go r EmptyString (flush cur acc)
    else if Ascii.eqb c "-" then lex_go r EmptyString (TMinus :: flush cur acc)
    else if Ascii.eqb c "+" then lex_go r EmptyString (TPlus :: flush cur acc)
    else None
  end.
Definition lex (s : string) : option (list token) := lex_go s EmptyString [].

(* split a literal into its digit part and the suffix *)
Fixpoint span (f : ascii -> bool) (s : string) : string * string :=
  match s with
  | EmptyString => (EmptyString, EmptyString)
  | String c r => if f c then let (a, b) := span f r in (String c a, b)
                  else (EmptyString, s)
  end.

Fixpoint digits_value (base : Z) (s : string) (acc : Z) : option Z :=
  match s with
  | EmptyString => Some acc
  | String c r =>
    match hex_value c with
    | Some d => if d <? base then digits_value base r (acc * base + d) else None
    | None => None
    end
  end.

(* suffix -> (unsigned, long) *)
Definition suffix_kind (s : string) : option (bool * bool) :=
  if existsb (String.eqb s) [""%string] then Some (false, false)
  else if existsb (String.eqb s) ["u"; "U"]%string then Some (true, false)
  else if existsb (String.eqb s) ["l"; "L"; "ll"; "LL"]%string then Some (false, true)
  else if existsb (String.eqb s)
       ["ul"; "uL"; "Ul"; "UL"; "lu"; "lU"; "Lu"; "LU";
        "ull"; "uLL"; "Ull"; "ULL"; "llu"; "llU"; "LLu"; "LLU"]%string then Some (true, true)
  else None.

(* [lex.icon] table 5 on LP64 (long = long long = 64 bit): first type of the
   list in which the value fits; none -> ill-formed *)
Definition first_fit (v : Z) (ts : list ity) : option ity :=
  find (fun t => in_range t v) ts.

Definition literal_types (decimal uns lng : bool) : list ity :=
  match uns, lng with
  | false, false => if decimal then [I32; I64] else [I32; U32; I64; U64]
  | true, false => [U32; U64]
  | false, true => if decimal then [I64] else [I64; U64]
  | true, true => [U64]
  end.

Definition is_hex_digit (c : ascii) : bool :=
  match hex_value c with Some _ => true | None => false end.

Definition classify_literal (text : string) : option (Z * ity) :=
  let '(base, body) :=
    match text with
    | String c (String x r) =>
      if Ascii.eqb c "0"
      then (if Ascii.eqb x "x" || Ascii.eqb x "X" then (16, r) else (8, String x r))
      else (10, text)
    | _ => (10, text)
    end in
  let '(ds, suf) := span (if base =? 16 then is_hex_digit else is_digit) body in
  match ds with
  | EmptyString => None
  | _ =>
    match (if base =? 10 then parse_digits ds else digits_value base ds 0), suffix_kind suf with
    | Some v, Some (uns, lng) =>
      match first_fit v (literal_types (base =? 10) uns lng) with
      | Some t => Some (v, t)
      | None => None
      end
    | _, _ => None
    end
  end.

(* unary-expression: '-'* literal *)
Fixpoint eval_unary (ts : list token) (fuel : nat) : option (Z * ity * list token) :=
  match fuel with
  | O => None
  | S f =>
    match ts with
    | TLit x :: r => match classify_literal x with Some (v, t) => Some (v, t, r) | None => None end
    | TMinus :: r =>
      match eval_unary r f with
      | Some (v, t, r') => match cneg t v with Some v' => Some (v', promote t, r') | None => None end
      | None => None
      end
    | TPlus :: r =>
      match eval_unary r f with
      | Some (v, t, r') => Some (v, promote t, r')
      | None => None
      end
    | [] => None
    end
  end.

(* additive-expression, left associative; None = ill-formed or not a
   constant expression (signed overflow) *)
Fixpoint eval_additive (v : Z) (t : ity) (ts : list token) (fuel : nat) : option (Z * ity) :=
  match fuel with
  | O => None
  | S f =>
    match ts with
    | [] => Some (v, t)
    | TMinus :: r =>
      match eval_unary r (List.length r) with
      | Some (w, u, r') =>
        match csub t u v w with Some x => eval_additive x (uac t u) r' f | None => None end
      | None => None
      end
    | TPlus :: r =>
      match eval_unary r (List.length r) with
      | Some (w, u, r') =>
        match cadd t u v w with Some x => eval_additive x (uac t u) r' f | None => None end
      | None => None
      end
    | TLit _ :: _ => None
    end
  end.

Definition eval_expr (s : string) : option (Z * ity) :=
  match lex s with
  | Some ts =>
    match eval_unary ts (List.length ts) with
    | Some (v, t, r) => eval_additive v t r (S (List.length r))
    | None => None
    end
  | None => None
  end.

(* [dcl.init.list]: T{e} / return {e}; / enumerator = e with fixed underlying
   type T, e an integer constant expression of value v: narrowing unless v is
   representable in T *)
Definition narrowing (target : ity) (v : Z) : bool := negb (in_range target v).

(* the literal [s] may initialise a [p] object with value [v] *)
Definition literal_denotes (s : string) (p : prim) (v : Z) : bool :=
  match eval_expr s with
  | Some (w, _) => (w =? v) && negb (narrowing (prim_cty p) w)
  | None => false
  end.

(* ------------------------------------------------------------------ *)
(* built-in min / max / null tables (types_compiler.hpp)                *)
(* ------------------------------------------------------------------ *)
Inductive which := WMin | WMax | WNull.

Definition builtin_text (w : which) (p : prim) : string :=
  match w, p with
  | WMin, PChar => "0x20" | WMin, PI8 => "-127" | WMin, PI16 => "-32767"
  | WMin, PI32 => "-2147483647" | WMin, PI64 => "-9223372036854775807"
  | WMin, PU8 => "0" | WMin, PU16 => "0" | WMin, PU32 => "0" | WMin, PU64 => "0"
  | WMin, PF32 => "::std::numeric_limits<float>::min()"
  | WMin, PF64 => "::std::numeric_limits<double>::min()"
  | WMax, PChar => "0x7e" | WMax, PI8 => "127" | WMax, PI16 => "32767"
  | WMax, PI32 => "2147483647" | WMax, PI64 => "9223372036854775807"
  | WMax, PU8 => "254" | WMax, PU16 => "65534" | WMax, PU32 => "4294967294"
  | WMax, PU64 => "18446744073709551614UL"
  | WMax, PF32 => "::std::numeric_limits<float>::max()"
  | WMax, PF64 => "::std::numeric_limits<double>::max()"
  | WNull, PChar => "0" | WNull, PI8 => "-128" | WNull, PI16 => "-32768"
  | WNull, PI32 => "-2147483648" | WNull, PI64 => "-9223372036854775807 - 1"
  | WNull, PU8 => "255" | WNull, PU16 => "65535" | WNull, PU32 => "4294967295"
  | WNull, PU64 => "18446744073709551615UL"
  | WNull, PF32 => "::std::numeric_limits<float>::quiet_NaN()"
  | WNull, PF64 => "::std::numeric_limits<double>::quiet_NaN()"
  end%string.

(* SBE 1.0 "primitive type" table: default min / max / null of the integer
   types, written as formulas of the width, not as a second table *)
Definition sbe_default (w : which) (p : prim) : Z :=
  let b := 8 * Z.of_nat (prim_size p) in
  match p with
  | PChar => match w with WMin => 32 | WMax => 126 | WNull => 0 end
  | PI8 | PI16 | PI32 | PI64 =>
    match w with WMin => - (2 ^ (b - 1) - 1) | WMax => 2 ^ (b - 1) - 1 | WNull => - 2 ^ (b - 1) end
  | _ =>
    match w with WMin => 0 | WMax => 2 ^ b - 2 | WNull => 2 ^ b - 1 end
  end.

(* the floating defaults are library expressions, not literals: the model only
   fixes which one is named *)
Definition fp_default_text (w : which) (p : prim) : string :=
  ("::std::numeric_limits<" ++ (match p with PF32 => "float" | _ => "double" end) ++ ">::" ++
   (match w with WMin => "min()" | WMax => "max()" | WNull => "quiet_NaN()" end))%string.

Definition all_prims : list prim :=
  [PChar; PI8; PU8; PI16; PU16; PI32; PU32; PI64; PU64; PF32; PF64].
Definition all_which : list which := [WMin; WMax; WNull].
Definition table_entries : list (which * prim) :=
  flat_map (fun w => map (fun p => (w, p)) all_prims) all_which.

Definition entry_ok (e : which * prim) : bool :=
  let '(w, p) := e in
  if is_fp p then String.eqb (builtin_text w p) (fp_default_text w p)
  else literal_denotes (builtin_text w p) p (sbe_default w p).

(* get_min_value / get_max_value / get_null_value for integer types *)
Definition value_text (w : which) (p : prim) (explicit : option string) : option string :=
  match explicit with
  | Some s => to_integer_literal s
  | None => Some (builtin_text w p)
  end.

(* ------------------------------------------------------------------ *)
(* strings                                                              *)
(* ------------------------------------------------------------------ *)
Definition octal3 (n : Z) : string :=
  String (chr (48 + n / 64)) (String (chr (48 + (n / 8) mod 8)) (String (chr (48 + n mod 8)) EmptyString)).

(* utils::escape_literal (new with the fix): [prevq] = the last character
   emitted was '?' *)
Fixpoint escape_go (s : string) (prevq : bool) : string :=
  match s with
  | EmptyString => EmptyString
  | String c r =>
    let n := code c in
    if (n =? 34) || (n =? 92) || (n =? 39)              (* double quote, backslash, single quote *)
    then String "\"%char (String c (escape_go r false))
    else if (n =? 63) && prevq                         (* second of two question marks *)
    then String "\"%char (String c (escape_go r true))
    else if (n <? 32) || (n =? 127)
    then (String "\"%char (octal3 n) ++ escape_go r false)%string
    else String c (escape_go r (n =? 63))
  end.
Definition escape_literal (s : string) : string := escape_go s false.

Definition simple_escape (c : ascii) : option ascii :=
  let n := code c in
  if n =? 39 then Some c else if n =? 34 then Some c else if n =? 63 then Some c
  else if n =? 92 then Some c
  else if n =? 97 then Some (chr 7) else if n =? 98 then Some (chr 8)
  else if n =? 102 then Some (chr 12) else if n =? 110 then Some (chr 10)
  else if n =? 114 then Some (chr 13) else if n =? 116 then Some (chr 9)
  else if n =? 118 then Some (chr 11) else None.

Definition is_trigraph_char (c : ascii) : bool :=
  existsb (Ascii.eqb c) ["="; "/"; "'"; "("; ")"; "!"; "<"; ">"; "-"]%char.

Definition oct_digit (c : ascii) : option Z :=
  if is_octal_digit c then Some (code c - 48) else None.

(* characters denoted by the text between the quotes of a narrow string
   literal (the same text between single quotes, when it denotes exactly one
   character, is a character literal).  None: the text does not stay inside
   the literal in every language level C++11..C++23 (raw quote, raw new-line,
   trigraph, unknown or unfinished escape) *)
Fixpoint string_literal_denotes (s : string) : option string :=
  match s with
  | EmptyString => Some EmptyString
  | String c r =>
    let n := code c in
    if (n =? 34) || (n =? 39) || (n =? 10) || (n =? 13) then None
    else if n =? 92 then
      match r with
      | EmptyString => None
      | String e r1 =>
        match oct_digit e with
        | Some d1 =>
          (* up to three octal digits *)
          match r1 with
          | String e2 r2 =>
            match oct_digit e2 with
            | Some d2 =>
              match r2 with
              | String e3 r3 =>
                match oct_digit e3 with
                | Some d3 =>
                  let v := d1 * 64 + d2 * 8 + d3 in
                  if v <? 256 then option_map (String (chr v)) (string_literal_denotes r3) else None
                | None => option_map (String (chr (d1 * 8 + d2))) (string_literal_denotes r2)
                end
              | EmptyString => Some (String (chr (d1 * 8 + d2)) EmptyString)
              end
            | None => option_map (String (chr d1)) (string_literal_denotes r1)
            end
          | EmptyString => Some (String (chr d1) EmptyString)
          end
        | None =>
          match simple_escape e with
          | Some x => option_map (String x) (string_literal_denotes r1)
          | None => None                       (* \x.., \u.., unknown: not produced *)
          end
        end
      end
    else if n =? 63 then
      match r with
      | String q (String t _) =>
        if (code q =? 63) && is_trigraph_char t then None
        else option_map (String c) (string_literal_denotes r)
      | _ => option_map (String c) (string_literal_denotes r)
      end
    else option_map (String c) (string_literal_denotes r)
  end.

(* characters that reach the header unchanged and mean themselves there *)
Definition plain_char (c : ascii) : bool :=
  let n := code c in
  negb ((n =? 34) || (n =? 92) || (n =? 39) || (n <? 32) || (n =? 127)).
Fixpoint no_double_question (s : string) : bool :=
  match s with
  | String a ((String b _) as r) => negb ((code a =? 63) && (code b =? 63)) && no_double_question r
  | _ => true
  end.
Definition survives_unchanged (s : string) : bool :=
  all_chars plain_char s && no_double_question s.

(* utils::make_string_constant: "<escaped value><\0 padding>", length *)
Fixpoint pad_zeros (n : nat) : string :=
  match n with O => EmptyString | S k => ("\0" ++ pad_zeros k)%string end.
Definition make_string_constant (v : string) (len : nat) : option string :=
  if Nat.ltb len (String.length v) then None
  else Some (escape_literal v ++ pad_zeros (len - String.length v))%string.
Fixpoint nul_string (n : nat) : string :=
  match n with O => EmptyString | S k => String (chr 0) (nul_string k) end.

(* ------------------------------------------------------------------ *)
(* float / double literals                                              *)
(* ------------------------------------------------------------------ *)

(* the non-symbolic strings can_be_parsed_as_fp lets through (apart from the
   range check done by strtof/strtod): [+-]? (D+ ('.' D* )? | '.' D+) ([eE] [+-]? D+)? *)
Definition strip_sign (s : string) : string :=
  match s with
  | String c r => if Ascii.eqb c "+" || Ascii.eqb c "-" then r else s
  | _ => s
  end.

Definition nonempty (s : string) : bool := match s with EmptyString => false | _ => true end.

Definition exponent_ok (s : string) : bool :=
  match s with
  | EmptyString => true
  | String e r =>
    (Ascii.eqb e "e" || Ascii.eqb e "E") &&
    (let d := strip_sign r in nonempty d && all_chars is_digit d)
  end.

Definition has_exponent (s : string) : bool := nonempty s.

(* (integer digits, has '.', fraction digits, exponent part) *)
Definition split_fp (s : string) : string * bool * string * string :=
  let '(i, r) := span is_digit s in
  match r with
  | String "."%char r1 => let '(fr, r2) := span is_digit r1 in (i, true, fr, r2)
  | _ => (i, false, EmptyString, r)
  end.

Definition xml_decimal_ok (s : string) : bool :=
  let '(i, dot, fr, ex) := split_fp (strip_sign s) in
  (nonempty i || (dot && nonempty fr)) && exponent_ok ex.

(* what a C++ compiler makes of an unsigned pp-number without suffix:
   [lex.fcon] needs a '.' or an exponent, otherwise it is an integer literal *)
Inductive number_kind := KInteger | KFloating | KInvalid.
Definition cpp_number_kind (s : string) : number_kind :=
  let '(i, dot, fr, ex) := split_fp s in
  if negb (exponent_ok ex) then KInvalid
  else if dot then (if nonempty i || nonempty fr then KFloating else KInvalid)
  else if has_exponent ex then (if nonempty i then KFloating else KInvalid)
  else if nonempty i then KInteger else KInvalid.

Definition mentions_point_or_exp (s : string) : bool :=
  negb (all_chars (fun c => negb (Ascii.eqb c "." || Ascii.eqb c "e" || Ascii.eqb c "E")) s).

(* numeric_literal_to_value, float/double, value not NaN/INF (FIXED): text
   without '.', 'e', 'E' gets ".0" appended so that it is a floating literal
   (an integer literal would be octal with a leading zero and a narrowing
   initialiser when it is not exactly representable) *)
Definition fp_literal (s : string) : string :=
  if mentions_point_or_exp s then s else (s ++ ".0")%string.

(* an integer literal of value [v] used as a {}-initialiser of a float /
   double is a narrowing conversion unless it is exactly representable
   ([dcl.init.list]: from an integer type to a floating-point type, except
   where the source is a constant expression whose value can be represented
   exactly): 24 / 53 significant bits *)
Definition fp_exact (p : prim) (v : Z) : bool :=
  let m := match p with PF32 => 24 | _ => 53 end in
  let a := Z.abs v in
  (a =? 0) || (a mod 2 ^ (Z.max 0 (Z.log2 a + 1 - m)) =? 0).

(* ------------------------------------------------------------------ *)
(* entry points of the extracted driver (unique names: flat extraction   *)
(* renames clashing identifiers, these never clash)                      *)
(* ------------------------------------------------------------------ *)
Definition c07_string_to_number := string_to_number.
Definition c07_to_integer_literal := to_integer_literal.
Definition c07_legacy_to_integer_literal := Legacy.to_integer_literal.
Definition c07_eval_expr := eval_expr.
Definition c07_literal_denotes := literal_denotes.
Definition c07_builtin_text := builtin_text.
Definition c07_sbe_default := sbe_default.
Definition c07_escape_literal := escape_literal.
Definition c07_legacy_escape_literal := Legacy.escape_literal.
Definition c07_string_literal_denotes := string_literal_denotes.
Definition c07_survives_unchanged := survives_unchanged.
Definition c07_make_string_constant := make_string_constant.
Definition c07_fp_literal := fp_literal.
Definition c07_legacy_fp_literal := Legacy.fp_literal.
Definition c07_cpp_number_kind := cpp_number_kind.
Definition c07_xml_decimal_ok := xml_decimal_ok.
Definition c07_strip_sign := strip_sign.
Definition c07_fp_exact := fp_exact.
Definition c07_prim_cty := prim_cty.
