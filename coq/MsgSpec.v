(* MsgSpec.v — well-formedness predicates and the *statements* of the
   message-level theorems (as Props).  Proofs are in LayoutProofs.v and
   MsgProofs.v; Properties_C*.v close them with [exact]. *)
From Coq Require Import ZArith List Bool.
From Sbepp Require Import CInt Bytes Msg Layout Wire.
Import ListNotations.
Local Open Scope Z_scope.

(* ================================================================== *)
(* Layout                                                              *)
(* ================================================================== *)

(* schema types sbeppc can represent: lengths and explicit offsets are unsigned *)
Fixpoint stype_ok (t : stype) : Prop :=
  match t with
  | TScalar _ => True
  | TArray _ n => 0 <= n
  | TComposite ms =>
    (fix go (ms : list smember) : Prop :=
       match ms with
       | [] => True
       | SMember o _ t :: r =>
         (match o with Some x => 0 <= x | None => True end) /\ stype_ok t /\ go r
       end) ms
  end.

Definition sfield_ok (f : sfield) : Prop :=
  (match sf_off f with Some x => 0 <= x | None => True end) /\ stype_ok (sf_type f).

(* fields lie one after another from [cur] without overlap *)
Fixpoint fields_in_order (cur : Z) (fl : list fld) : Prop :=
  match fl with
  | [] => True
  | f :: r => cur <= f_off f /\ 0 <= f_size f /\ fields_in_order (f_off f + f_size f) r
  end.

Fixpoint fields_end (cur : Z) (fl : list fld) : Z :=
  match fl with [] => cur | f :: r => fields_end (f_off f + f_size f) r end.

(* the SBE offset rule, declaratively: a constant takes no space; a
   non-constant field sits at its explicit offset when one is given (which must
   not be below the end of its predecessor), otherwise at the end of its
   predecessor; its size is the size of its encoding *)
Fixpoint sbe_offsets (fs : list sfield) (cur : Z) (fl : list fld) : Prop :=
  match fs with
  | [] => fl = []
  | f :: rest =>
    if sf_const f then sbe_offsets rest cur fl
    else match fl with
         | [] => False
         | x :: fl' =>
           type_size (sf_type f) = Some (f_size x) /\
           f_off x = (match sf_off f with Some o => o | None => cur end) /\
           cur <= f_off x /\
           sbe_offsets rest (f_off x + f_size x) fl'
         end
  end.

(* a schema level is rejected exactly when some explicit offset is below the
   minimum *)
Fixpoint offsets_admissible (fs : list sfield) (cur : Z) : Prop :=
  match fs with
  | [] => True
  | f :: rest =>
    match type_size (sf_type f) with
    | None => False
    | Some sz =>
      if sf_const f then offsets_admissible rest cur
      else match sf_off f with
           | Some o => cur <= o /\ offsets_admissible rest (o + sz)
           | None => offsets_admissible rest (cur + sz)
           end
    end
  end.

Definition stmt_layout_sbe_offsets : Prop :=
  forall fs cur fl e, layout_fields fs cur = Some (fl, e) ->
    sbe_offsets fs cur fl /\ e = fields_end cur fl.

Definition stmt_layout_accepts_iff : Prop :=
  forall fs cur, (exists r, layout_fields fs cur = Some r) <-> offsets_admissible fs cur.

Definition stmt_layout_no_overlap : Prop :=
  forall fs cur fl e, Forall sfield_ok fs -> 0 <= cur ->
    layout_fields fs cur = Some (fl, e) ->
    fields_in_order cur fl /\ cur <= e /\
    (forall f, In f fl -> cur <= f_off f /\ f_off f + f_size f <= e).

Definition stmt_block_length_covers : Prop :=
  forall explicit minimal b, block_length explicit minimal = Some b ->
    minimal <= b /\ (explicit = None -> b = minimal) /\
    (forall x, explicit = Some x -> b = x).

(* the generator's independent cursor offsets agree with the validator's *)
Fixpoint cursor_walk_ok (hdr pos : Z) (fl : list fld) (cl : list cfld) : Prop :=
  match fl, cl with
  | [], [] => True
  | f :: fl', c :: cl' =>
    pos + c_rel c = f_off f /\ 0 <= c_rel c /\
    c_abs c = f_off f + hdr /\ c_size c = f_size f /\
    c_last c = (match fl' with [] => true | _ => false end) /\
    cursor_walk_ok hdr (f_off f + f_size f) fl' cl'
  | _, _ => False
  end.

Definition stmt_cursor_offsets_agree : Prop :=
  forall fs hdr cur fl e, layout_fields fs cur = Some (fl, e) ->
    exists cl, cursor_fields fs hdr cur = Some cl /\ cursor_walk_ok hdr cur fl cl.

Definition stmt_cursor_rejects_iff : Prop :=
  forall fs hdr cur, cursor_fields fs hdr cur = None <-> layout_fields fs cur = None.

(* composite members obey the same rule (validate_element_offset) *)
Definition stmt_member_offsets_in_order : Prop :=
  forall ms offs sz, stype_ok (TComposite ms) ->
    member_offsets ms 0 = Some offs -> type_size (TComposite ms) = Some sz ->
    length offs = length ms /\
    forall k o m msz, nth_error offs k = Some (Some o) -> nth_error ms k = Some m ->
      type_size (sm_type m) = Some msz -> 0 <= o /\ o + msz <= sz.

(* ================================================================== *)
(* Wire / Rt                                                           *)
(* ================================================================== *)

Definition fits (t : ity) (z : Z) : Prop := 0 <= z < 2 ^ bits t.

Definition is_unsigned_ity (t : ity) : Prop := is_signed t = false.

(* dimension geometry: both members inside the composite, not overlapping *)
Definition wf_dim (d : dim) : Prop :=
  is_unsigned_ity (d_bl_t d) /\ is_unsigned_ity (d_n_t d) /\
  0 <= d_bl_off d /\ d_bl_off d + tbytes (d_bl_t d) <= d_size d /\
  0 <= d_n_off d /\ d_n_off d + tbytes (d_n_t d) <= d_size d /\
  (d_bl_off d + tbytes (d_bl_t d) <= d_n_off d \/ d_n_off d + tbytes (d_n_t d) <= d_bl_off d).

Fixpoint all_blocks_len (es : ventries) (bl : Z) : Prop :=
  match es with
  | VENil => True
  | VECons e r => len (vblock e) = bl /\ all_blocks_len r bl
  end.

Fixpoint datas_fit (ds : list ity) (vds : list (list Z)) : Prop :=
  match ds, vds with
  | [], [] => True
  | t :: ds', p :: vds' => is_unsigned_ity t /\ fits t (len p) /\ datas_fit ds' vds'
  | _, _ => False
  end.

(* value tree [v] has the shape of level [l] and every header value is
   representable; [wbl] is the wire blockLength of this level *)
Fixpoint wf_level (be : bool) (l : level) (v : vlevel) {struct v} : Prop :=
  match v with
  | VLevel block vgs vds =>
    wf_groups be (level_groups l) vgs /\ datas_fit (level_datas l) vds
  end
with wf_groups (be : bool) (gs : groups) (vgs : vgroups) {struct vgs} : Prop :=
  match vgs, gs with
  | VGNil, GNil => True
  | VGCons bg es vrest, GCons d cbl l rest =>
    let bl := first_block_len es (dec be (slice bg (d_bl_off d) (tbytes (d_bl_t d)))) in
    wf_dim d /\ len bg = d_size d /\ bytes_ok bg = true /\
    fits (d_bl_t d) bl /\ fits (d_n_t d) (ecount es) /\
    all_blocks_len es bl /\
    (is_flat l = true -> d_size d + ecount es * bl < 2 ^ 64) /\
    (* a nested entry always contains at least one header byte *)
    wf_entries be l es /\ wf_groups be rest vrest
  | _, _ => False
  end
with wf_entries (be : bool) (l : level) (es : ventries) {struct es} : Prop :=
  match es with
  | VENil => True
  | VECons e r => wf_level be l e /\ wf_entries be l r
  end.

(* number of entries walked by the nested-group loops (flat groups are sized
   by arithmetic and consume no fuel): fuel needed *)
Fixpoint fuel_needed (l : level) (v : vlevel) {struct v} : Z :=
  match v with
  | VLevel _ vgs _ => fuel_needed_gs (level_groups l) vgs
  end
with fuel_needed_gs (gs : groups) (vgs : vgroups) {struct vgs} : Z :=
  match vgs, gs with
  | VGCons _ es vrest, GCons d cbl l rest =>
    Z.max (if is_flat l then 0 else Z.max (ecount es) (fuel_needed_es l es))
          (fuel_needed_gs rest vrest)
  | _, _ => 0
  end
with fuel_needed_es (l : level) (es : ventries) {struct es} : Z :=
  match es with
  | VENil => 0
  | VECons e r => Z.max (fuel_needed l e) (fuel_needed_es l r)
  end.

(* THE navigation theorem: walking the image of a level with the library's
   pointer arithmetic ends exactly at the end of the image, wherever the image
   sits in a larger buffer *)
Definition stmt_level_end_enc : Prop :=
  forall be l v pre post fuel,
    wf_level be l v -> fuel_needed l v <= Z.of_nat fuel ->
    level_end be (pre ++ enc_level be l v ++ post) fuel l (len pre) (len (vblock v))
    = Some (len pre + len (enc_level be l v)).

Definition stmt_groups_end_enc : Prop :=
  forall be gs vgs pre post fuel,
    wf_groups be gs vgs -> fuel_needed_gs gs vgs <= Z.of_nat fuel ->
    groups_end be (pre ++ enc_groups be gs vgs ++ post) fuel gs (len pre)
    = Some (len pre + len (enc_groups be gs vgs)).

(* every nested entry occupies at least one byte, so the default fuel
   (buffer length + 1) always suffices *)
Definition stmt_default_fuel_suffices : Prop :=
  forall be l v pre post,
    wf_level be l v ->
    fuel_needed l v <= Z.of_nat (default_fuel (pre ++ enc_level be l v ++ post)).

(* message header *)
Definition wf_message (be : bool) (m : message) (hdrbg : list Z) (v : vlevel) : Prop :=
  is_unsigned_ity (m_bl_t m) /\
  0 <= m_bl_off m /\ m_bl_off m + tbytes (m_bl_t m) <= m_hdr_size m /\
  len hdrbg = m_hdr_size m /\ bytes_ok hdrbg = true /\
  fits (m_bl_t m) (len (vblock v)) /\
  wf_level be (m_level m) v.

(* size_bytes(message) on any buffer containing the image = length of the image *)
Definition stmt_msg_size_bytes_enc : Prop :=
  forall be m hdrbg v pre post,
    wf_message be m hdrbg v ->
    len (enc_message be m hdrbg v) < 2 ^ 64 ->        (* the size fits size_t *)
    msg_size_bytes be (pre ++ enc_message be m hdrbg v ++ post) m (len pre)
    = Some (len (enc_message be m hdrbg v)).

(* a root-level field getter returns exactly the bytes the encoder placed at
   the field's offset inside the (wire-length) block, for every wire
   blockLength >= the end of the field *)
Definition stmt_get_root_field_enc : Prop :=
  forall be m hdrbg v pre post k f,
    wf_message be m hdrbg v ->
    nth_error (level_fields (m_level m)) k = Some f ->
    0 <= f_off f -> 0 <= f_size f -> f_off f + f_size f <= len (vblock v) ->
    get_field be (pre ++ enc_message be m hdrbg v ++ post) m (len pre) [] k
    = Some (slice (vblock v) (f_off f) (f_size f)).

(* groups of the root level are found where the image puts them, with the wire
   blockLength and count the encoder wrote *)
Fixpoint vgroups_nth (vgs : vgroups) (k : nat) : option (list Z * ventries) :=
  match vgs, k with
  | VGNil, _ => None
  | VGCons bg es _, O => Some (bg, es)
  | VGCons _ _ rest, S k' => vgroups_nth rest k'
  end.

Fixpoint groups_prefix_len (be : bool) (gs : groups) (vgs : vgroups) (k : nat) : Z :=
  match k, gs, vgs with
  | S k', GCons d cbl l rest, VGCons bg es vrest =>
    len (enc_groups be (GCons d cbl l GNil) (VGCons bg es VGNil)) + groups_prefix_len be rest vrest k'
  | _, _, _ => 0
  end.

Definition vlevel_groups (v : vlevel) := match v with VLevel _ g _ => g end.
Definition vlevel_datas (v : vlevel) := match v with VLevel _ _ d => d end.

Definition stmt_locate_root_group_enc : Prop :=
  forall be m hdrbg v pre post k bg es,
    wf_message be m hdrbg v ->
    vgroups_nth (vlevel_groups v) k = Some (bg, es) ->
    exists g d cbl sub,
      locate_group be (pre ++ enc_message be m hdrbg v ++ post) m (len pre) [] k
      = Some (g, d, cbl, sub) /\
      gv_pos g = len pre + m_hdr_size m + len (vblock v)
                 + groups_prefix_len be (level_groups (m_level m)) (vlevel_groups v) k /\
      gv_n g = ecount es /\
      gv_bl g = first_block_len es (dec be (slice bg (d_bl_off d) (tbytes (d_bl_t d)))).

(* <data> members of the root level: payload returned exactly *)
Definition stmt_get_root_data_enc : Prop :=
  forall be m hdrbg v pre post k p,
    wf_message be m hdrbg v ->
    nth_error (vlevel_datas v) k = Some p ->
    get_data be (pre ++ enc_message be m hdrbg v ++ post) m (len pre) [] k = Some p.

(* writes are local: a successful setter changes exactly the bytes of the
   located member (frame), and reading the field back returns what was written *)
Definition stmt_set_field_frame : Prop :=
  forall be b m base path k bs b',
    set_field be b m base path k bs = Some b' ->
    exists pos, 0 <= pos /\ pos + len bs <= len b /\ len b' = len b /\
      slice b' pos (len bs) = bs /\
      forall i, (i < Z.to_nat pos \/ Z.to_nat pos + length bs <= i)%nat ->
        nth i b' 0 = nth i b 0.

Definition stmt_group_resize_frame : Prop :=
  forall be b m base path k n b',
    group_resize be b m base path k n = Some b' ->
    exists g d cbl sub, locate_group be b m base path k = Some (g, d, cbl, sub) /\
      len b' = len b /\
      forall i, (i < Z.to_nat (gv_pos g + d_n_off d)
                 \/ Z.to_nat (gv_pos g + d_n_off d) + tw (d_n_t d) <= i)%nat ->
        nth i b' 0 = nth i b 0.
