(* Pipeline.v — C09: outcome of a whole sbeppc run.
     main.cpp: parse -> validate -> cpp validate -> names -> compile, one
     catch(sbe_error) => exit 1; anything else that goes wrong is a crash.

   Modelled here (on top of Validate.v):
     * the include graph (schema_parser::parse_include), explored with fuel;
       [fixed = true] carries the stack of files being parsed and reports a
       cycle, [fixed = false] is the code before the repair (unbounded
       recursion => stack overflow, shown as [Diverge]);
     * schema_parser::parse_type_encoding's length of a constant char type
       (operator-> on an empty optional before the repair);
     * the generation-time lookups that are partial C++ operations on
       schema-dependent data (unordered_map::at, std::get, optional deref,
       null element deref, asserts), each an explicit [VCrash] branch.

   Definitions only (extracted); stdlib only. *)
From Coq Require Import ZArith List Bool String Ascii.
From Sbepp Require Import Bytes Rules Validate.
Import ListNotations.
Local Open Scope Z_scope.

Inductive run_result :=
| Exit0
| ExitErr
| PCrash (w : crash_kind)
| Diverge.

(* ------------------------------------------------------------------ *)
(* includes                                                            *)
(* ------------------------------------------------------------------ *)

(* the file system as the parser sees it: path -> hrefs of the <include>
   children of the document root; a path that is not listed cannot be opened *)
Definition file_map := list (str * list str).

Fixpoint find_file (fs : file_map) (p : str) : option (list str) :=
  match fs with
  | [] => None
  | (q, incs) :: r => if str_eqb q p then Some incs else find_file r p
  end.

Inductive load_result := Loaded | LoadErr | LoadDiverge.

(* schema_parser{path}.parse_schema_content() with [stack] = files whose
   parse_include is on the call stack *)
Fixpoint load (fixed : bool) (fs : file_map) (fuel : nat) (stack : list str) (path : str)
  : load_result :=
  match fuel with
  | O => LoadDiverge
  | S fuel' =>
    match find_file fs path with
    | None => LoadErr                               (* can't open file *)
    | Some incs =>
      (fix go (incs : list str) : load_result :=
         match incs with
         | [] => Loaded
         | href :: r =>
           if (fixed && mem_str href (path :: stack))%bool then LoadErr   (* cyclic include *)
           else match load fixed fs fuel' (path :: stack) href with
                | Loaded => go r
                | other => other
                end
         end) incs
    end
  end.

(* the main file: its includes are children of <messageSchema> *)
Definition load_main (fixed : bool) (fs : file_map) (main : str) (main_includes : list str)
  : load_result :=
  match find_file fs main with
  | None => LoadErr
  | Some _ =>
    (fix go (incs : list str) : load_result :=
       match incs with
       | [] => Loaded
       | href :: r =>
         if (fixed && mem_str href [main])%bool then LoadErr
         else match load fixed fs (S (List.length fs)) [main] href with
              | Loaded => go r
              | other => other
              end
       end) main_includes
  end.

(* ------------------------------------------------------------------ *)
(* parse_type_encoding: length of a constant type                      *)
(* ------------------------------------------------------------------ *)

(* [length_attr]: the `length` attribute if present; [content]: size of the
   node text if not empty *)
Definition const_type_length (fixed : bool) (is_char : bool) (length_attr : option Z)
           (content : option Z) : voutcome Z :=
  match length_attr with
  | Some l => VOk l
  | None =>
    if is_char then
      match content with
      | Some n => VOk n
      | None => if fixed then VOk 1 else VCrash EmptyOptional
      end
    else VOk 1
  end.

(* ------------------------------------------------------------------ *)
(* generation-time lookups                                             *)
(* ------------------------------------------------------------------ *)

Definition ok_or (b : bool) (w : crash_kind) : voutcome unit := if b then VOk tt else VCrash w.

(* utils::get_schema_encoding *)
Definition g_encoding (env : list element_def) (name : str) : voutcome element_def :=
  match get_encoding env name with Some e => VOk e | None => VCrash MapAt end.

(* utils::numeric_literal_to_value / to_integer_literal asserts *)
Definition g_literal (v : value_text) (p : prim) : voutcome unit :=
  ok_or (0 <? v_len v) AssertFalse ;;;
  match p with
  | PI64 | PU64 => ok_or (value_fits v p) AssertFalse
  | _ => VOk tt
  end.

Definition g_opt_literal (o : option value_text) (p : prim) : voutcome unit :=
  match o with Some v => g_literal v p | None => VOk tt end.

(* value_ref_to_enum_value / value_ref_to_enumerator *)
Definition g_value_ref (env : list element_def) (vref : str) : voutcome unit :=
  let en := match split_dot vref with Some (a, _) => a | None => [] end in
  e <- g_encoding env en ;;
  match e with EEnum _ => VOk tt | _ => VCrash BadVariant end.

(* get_const_value *)
Definition g_const_value (env : list element_def) (t : type_def) : voutcome unit :=
  match t_vref t, t_const t with
  | None, None => VCrash AssertFalse
  | Some r, _ => g_value_ref env r
  | None, Some v =>
    match prim_of_name (t_prim t) with
    | Some PChar => VOk tt
    | Some p => g_literal v p
    | None => VCrash BadPrimitive
    end
  end.

Definition g_type (env : list element_def) (t : type_def) : voutcome unit :=
  match prim_of_name (t_prim t) with
  | None => VCrash BadPrimitive          (* built_in_*_values.at / primitive_type_to_cpp_type *)
  | Some p =>
    match t_presence t with
    | PConstant => g_const_value env t
    | pr =>
      if t_length t =? 1 then
        g_opt_literal (t_min t) p ;;; g_opt_literal (t_max t) p ;;;
        if presence_eqb pr POptional then g_opt_literal (t_null t) p else VOk tt
      else VOk tt
    end
  end.

Definition g_enum (env : list element_def) (e : enum_def) : voutcome unit :=
  match encoding_prim env (e_type e) with
  | None => VCrash BadPrimitive
  | Some PChar => VOk tt
  | Some p =>
    (fix vals (l : list (str * value_text)) : voutcome unit :=
       match l with
       | [] => VOk tt
       | (_, v) :: r => g_literal v p ;;; vals r
       end) (e_values e)
  end.

Fixpoint g_element (env : list element_def) (e : element_def) : voutcome unit :=
  match e with
  | EType t => g_type env t
  | EEnum en => g_enum env en
  | ESet s => match encoding_prim env (s_type s) with Some _ => VOk tt | None => VCrash BadPrimitive end
  | ERef _ ty _ =>
    tgt <- g_encoding env ty ;;
    match tgt with
    | EType t => if presence_eqb (t_presence t) PConstant then g_const_value env t else VOk tt
    | _ => VOk tt
    end
  | EComposite _ _ els =>
    (fix go (els : list element_def) : voutcome unit :=
       match els with [] => VOk tt | m :: r => g_element env m ;;; go r end) els
  end.

Fixpoint g_elements (env : list element_def) (l : list element_def) : voutcome unit :=
  match l with [] => VOk tt | e :: r => g_element env e ;;; g_elements env r end.

(* utils::get_schema_encoding_as<sbe::composite> *)
Definition g_composite (env : list element_def) (name : str) : voutcome (list element_def) :=
  e <- g_encoding env name ;;
  match e with EComposite _ _ els => VOk els | _ => VCrash BadVariant end.

(* messages_compiler::get_header_element / traits_generator::get_num_in_group_underlying_type *)
Definition g_header_element (env : list element_def) (els : list element_def) (name : str) : voutcome unit :=
  match find_element els name with
  | None => VCrash NullElement
  | Some (EType _) => VOk tt
  | Some (ERef _ ty _) =>
    e <- g_encoding env ty ;;
    match e with EType _ => VOk tt | _ => VCrash BadVariant end
  | Some _ => VCrash BadVariant
  end.

(* make_const_field_accessor *)
Definition g_const_field (env : list element_def) (f : field_def) : voutcome unit :=
  let by_value_ref :=
      match f_vref f with Some r => g_value_ref env r | None => VCrash EmptyOptional end in
  match prim_of_name (f_type f) with
  | Some _ => by_value_ref
  | None =>
    e <- g_encoding env (f_type f) ;;
    match e with
    | EType t => g_const_value env t
    | EEnum _ => by_value_ref
    | _ => VCrash BadPrimitive        (* falls through to primitive_type_to_cpp_type(f.type) *)
    end
  end.

Definition g_field (env : list element_def) (f : field_def) : voutcome unit :=
  match prim_of_name (f_type f) with
  | Some _ => if field_is_constant env f then g_const_field env f else VOk tt
  | None =>
    g_encoding env (f_type f) ;;;
    if field_is_constant env f then g_const_field env f else VOk tt
  end.

Fixpoint g_fields (env : list element_def) (fs : list field_def) : voutcome unit :=
  match fs with [] => VOk tt | f :: r => g_field env f ;;; g_fields env r end.

Definition g_data (env : list element_def) (d : data_def) : voutcome unit :=
  els <- g_composite env (d_type d) ;;
  g_header_element env els k_length ;;; g_header_element env els k_varData.

Fixpoint g_datas (env : list element_def) (ds : list data_def) : voutcome unit :=
  match ds with [] => VOk tt | d :: r => g_data env d ;;; g_datas env r end.

Fixpoint g_group (env : list element_def) (g : group_def) : voutcome unit :=
  match g with
  | GroupDef _ dim _ fs gs ds =>
    els <- g_composite env dim ;;
    g_header_element env els k_blockLength ;;;
    g_header_element env els k_numInGroup ;;;
    g_fields env fs ;;;
    (fix go (gs : list group_def) : voutcome unit :=
       match gs with [] => VOk tt | g' :: r => g_group env g' ;;; go r end) gs ;;;
    g_datas env ds
  end.

Fixpoint g_groups (env : list element_def) (gs : list group_def) : voutcome unit :=
  match gs with [] => VOk tt | g :: r => g_group env g ;;; g_groups env r end.

Fixpoint g_messages (env : list element_def) (ms : list message_def) : voutcome unit :=
  match ms with
  | [] => VOk tt
  | m :: r =>
    g_fields env (m_fields m) ;;; g_groups env (m_groups m) ;;; g_datas env (m_data m) ;;;
    g_messages env r
  end.

Definition gen_lookups (s : schema_def) : voutcome unit :=
  let env := sc_types s in
  hdr <- g_composite env (sc_header s) ;;
  g_header_element env hdr k_blockLength ;;;
  g_elements env env ;;;
  g_messages env (sc_messages s).

(* ------------------------------------------------------------------ *)
(* whole run                                                           *)
(* ------------------------------------------------------------------ *)

Record run_input := {
  in_argv_ok : bool;               (* parse_command_line does not throw *)
  in_files : file_map;
  in_main : str;
  in_main_includes : list str;
  in_xml_ok : bool;                (* pugixml accepts every file; attributes parse *)
  in_schema : schema_def;              (* merged AST *)
  in_output_ok : bool }.           (* every directory/file can be created *)

Definition run (fixed : bool) (i : run_input) : run_result :=
  if negb (in_argv_ok i) then ExitErr else
  match load_main fixed (in_files i) (in_main i) (in_main_includes i) with
  | LoadErr => ExitErr
  | LoadDiverge => Diverge
  | Loaded =>
    if negb (in_xml_ok i) then ExitErr else
    match validate_gen fixed (in_schema i) with
    | VErr _ => ExitErr
    | VCrash w => PCrash w
    | VOutOfFuel => Diverge
    | VOk _ =>
      match gen_lookups (in_schema i) with
      | VOk _ => if in_output_ok i then Exit0 else ExitErr
      | VErr _ => ExitErr
      | VCrash w => PCrash w
      | VOutOfFuel => Diverge
      end
    end
  end.
