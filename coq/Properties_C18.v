(* Properties_C18.v — C18 (partial): the derived traits.  Only statements
   closed by [exact]; proofs are in TraitsProofs.v.  The copy-through traits
   (name, id, description, sinceVersion, deprecated, semanticType,
   characterEncoding, package, version, byte order, encoding / primitive /
   header / dimension / length types, min/max/null values, value_type and
   traits_tag round trips) are decided by the correspondence alone
   (harness/props/c18.py).

   Full statement: every trait of every schema entity equals what the XML
   states or what SBE derives from it; value_type and traits_tag map
   representation types and tags onto each other, tag-kind predicates classify
   each tag correctly, and the children tag lists enumerate exactly the
   entity's children in schema order. *)
From Coq Require Import ZArith List Bool String.
From Sbepp Require Import CInt Bytes Msg Layout Traits TraitsProofs.
Import ListNotations.
Local Open Scope Z_scope.

Theorem C18_composite_traits_ok : forall n off es offs,
  elem_offsets es = Some offs ->
  sizes_nonneg (map to_smember es) ->
  exists size,
    enc_size (TyComposite n off es) = Some size /\
    Placed (map to_smember es) 0 offs size /\
    (forall k x, nth_error es k = Some x ->
       if telem_const x
       then nth_error offs k = Some None
       else exists o, nth_error offs k = Some (Some o) /\ elem_offset_trait x (Some o) = Some o /\
                      0 <= o /\ forall sz, type_size (telem_stype x) = Some sz -> o + sz <= size) /\
    (forall i j xi oi oj szi, (i < j)%nat -> nth_error es i = Some xi ->
       nth_error offs i = Some (Some oi) -> nth_error offs j = Some (Some oj) ->
       type_size (telem_stype xi) = Some szi -> oi + szi <= oj).
Proof. exact composite_traits_ok. Qed.
Print Assumptions C18_composite_traits_ok.

Theorem C18_level_traits_ok : forall bl fs lt,
  level_traits_of bl fs = Some lt ->
  exists offs minimal,
    Placed (map field_smember fs) 0 offs minimal /\
    lt_offsets lt = map dflt0 offs /\
    lt_presence lt = map actual_presence fs /\
    minimal <= lt_block_length lt /\
    match bl with Some x => lt_block_length lt = x | None => lt_block_length lt = minimal end /\
    (forall k f, nth_error fs k = Some f ->
       if is_constant (actual_presence f) then nth_error offs k = Some None
       else exists o, nth_error offs k = Some (Some o) /\
                      match tf_off f with Some x => o = x | None => True end).
Proof. exact level_traits_ok. Qed.
Print Assumptions C18_level_traits_ok.

Theorem C18_actual_presence_rule : forall f,
  (forall p, tf_type f = FPrim p -> actual_presence f = tf_pres f) /\
  (forall n p pres len off, tf_type f = FEnc (TyType n p pres len off) -> actual_presence f = pres) /\
  (forall n off es, tf_type f = FEnc (TyComposite n off es) -> actual_presence f = tf_pres f) /\
  (forall n p vs off, tf_type f = FEnc (TyEnum n p vs off) ->
     actual_presence f <> POptional /\
     (actual_presence f = PConstant <-> tf_pres f = PConstant)) /\
  (forall n p cs off, tf_type f = FEnc (TySet n p cs off) -> actual_presence f = PRequired).
Proof. exact actual_presence_rule. Qed.
Print Assumptions C18_actual_presence_rule.

Theorem C18_children_tags_ok : forall parent names,
  List.length (child_tags parent names) = List.length names /\
  (forall k n, nth_error names k = Some n -> nth_error (child_tags parent names) k = Some (parent ++ [n])) /\
  map (fun t => last t ""%string) (child_tags parent names) = names /\
  Forall (fun t => removelast t = parent) (child_tags parent names) /\
  (NoDup names -> NoDup (child_tags parent names)).
Proof. exact children_tags_ok. Qed.
Print Assumptions C18_children_tags_ok.

(* for a schema that obeys the uniqueness rules sbeppc's parser enforces, no
   two entities share a tag, so at most one is_<kind>_tag predicate holds for a
   tag, and the one of its entity does *)
Theorem C18_schema_tags_distinct : forall s, schema_wf s -> NoDup (map fst (schema_tags s)).
Proof. exact schema_tags_nodup. Qed.
Print Assumptions C18_schema_tags_distinct.

Theorem C18_tag_kind_exclusive : forall s k k' t,
  schema_wf s -> is_kind_tag s k t = true -> is_kind_tag s k' t = true -> k = k'.
Proof. exact tag_kind_exclusive. Qed.
Print Assumptions C18_tag_kind_exclusive.

Theorem C18_tag_kind_total : forall s t k, In (t, k) (schema_tags s) -> is_kind_tag s k t = true.
Proof. exact tag_kind_total. Qed.
Print Assumptions C18_tag_kind_total.
