(* ScriptSpec.v — statements for C01 (in-order encode script = reference image),
   C17 (header fillers) and C06 (exactness of size_bytes_checked).
   Proofs: ScriptProofs.v / FillProofs.v / CheckedProofs.v. *)
From Coq Require Import ZArith List Bool.
From Sbepp Require Import CInt Bytes Msg Layout Wire MsgSpec Cursor CursorSpec Checked.
Import ListNotations.
Local Open Scope Z_scope.

(* ================================================================== *)
(* C17: header fillers                                                 *)
(* ================================================================== *)

(* every assignment stays inside a header of [hsz] bytes *)
Fixpoint fills_inside (hsz : Z) (fills : list (Z * ity * fillv)) : Prop :=
  match fills with
  | [] => True
  | (off, t, _) :: r => 0 <= off /\ off + tbytes t <= hsz /\ fills_inside hsz r
  end.

(* the filler writes exactly the listed members (Wire.put_fills on the header
   bytes) and nothing else: the result is the buffer with its header slice
   replaced *)
Definition stmt_do_fills_spec : Prop :=
  forall be b pos hsz fills cbl n,
    fills_inside hsz fills -> in_buf b pos hsz = true ->
    do_fills be b pos fills cbl n
    = Some (splice b pos (put_fills be fills cbl n (slice b pos hsz))).

Definition stmt_do_fills_frame : Prop :=
  forall be b pos hsz fills cbl n b',
    fills_inside hsz fills -> in_buf b pos hsz = true ->
    do_fills be b pos fills cbl n = Some b' ->
    len b' = len b /\
    forall i, (i < Z.to_nat pos \/ Z.to_nat (pos + hsz) <= i)%nat -> nth i b' 0 = nth i b 0.

(* each listed member holds its value afterwards (members do not overlap) *)
Fixpoint fills_disjoint (fills : list (Z * ity * fillv)) : Prop :=
  match fills with
  | [] => True
  | (off, t, _) :: r =>
    Forall (fun x => let '(o2, t2, _) := x in off + tbytes t <= o2 \/ o2 + tbytes t2 <= off) r
    /\ fills_disjoint r
  end.

Definition stmt_do_fills_values : Prop :=
  forall be b pos hsz fills cbl n b' off t v,
    fills_inside hsz fills -> fills_disjoint fills -> in_buf b pos hsz = true ->
    Forall (fun x => let '(_, t, v) := x in is_signed t = false /\ fits t (fill_value cbl n v)) fills ->
    do_fills be b pos fills cbl n = Some b' ->
    In (off, t, v) fills ->
    rd be b' (pos + off) t = Some (fill_value cbl n v).

(* ================================================================== *)
(* C01: the in-order encode script produces the reference image        *)
(* ================================================================== *)

Inductive sop :=
| SFillHdr
| SPiece (path : list step) (k : nat) (sub : Z) (bs : list Z)   (* (part of) field k *)
| SGFill (path : list step) (k : nat) (n : Z)                   (* fill_group_header *)
| SData (path : list step) (k : nat) (bs : list Z).             (* data assign *)

(* a field setter / composite member setter: the bytes go to the located field
   at [sub] bytes from its start *)
Definition set_piece (be : bool) (b : list Z) (m : message) (base : Z) (path : list step)
  (k : nat) (sub : Z) (bs : list Z) : option (list Z) :=
  obind (msg_resolve be b m base path) (fun r =>
    let '(pos, _, l) := r in
    match nth_error (level_fields l) k with
    | Some f => if (0 <=? sub) && (sub + len bs <=? f_size f)
                then wr b (pos + f_off f + sub) bs else None
    | None => None
    end).

Definition exec_sop (be : bool) (m : message) (base : Z) (b : list Z) (o : sop) : option (list Z) :=
  match o with
  | SFillHdr => msg_fill_header be b m base
  | SPiece path k sub bs => set_piece be b m base path k sub bs
  | SGFill path k n => group_fill_header be b m base path k n
  | SData path k bs => assign_data be b m base path k bs
  end.

Fixpoint exec_script (be : bool) (m : message) (base : Z) (b : list Z) (s : list sop)
  : option (list Z) :=
  match s with
  | [] => Some b
  | o :: r => obind (exec_sop be m base b o) (fun b' => exec_script be m base b' r)
  end.

(* the in-order script of a value tree: the pieces of every field of the block,
   then every group (header fill, then its entries in order), then the data *)
Fixpoint pieces_script (path : list step) (k : nat) (ps : list (Z * list Z)) : list sop :=
  match ps with
  | [] => []
  | (o, bs) :: r => SPiece path k o bs :: pieces_script path k r
  end.

Fixpoint fields_script (path : list step) (k : nat) (fv : list (list (Z * list Z))) : list sop :=
  match fv with
  | [] => []
  | ps :: r => pieces_script path k ps ++ fields_script path (S k) r
  end.

Fixpoint datas_script (path : list step) (k : nat) (wds : list (list Z)) : list sop :=
  match wds with
  | [] => []
  | p :: r => SData path k p :: datas_script path (S k) r
  end.

Fixpoint level_script (path : list step) (w : wlevel) {struct w} : list sop :=
  match w with
  | WLevel fv wgs wds =>
    fields_script path 0 fv ++ groups_script path 0 wgs ++ datas_script path 0 wds
  end
with groups_script (path : list step) (k : nat) (wgs : wgroups) {struct wgs} : list sop :=
  match wgs with
  | WGNil => []
  | WGCons es rest =>
    SGFill path k (wecount es) :: entries_script path k 0 es ++ groups_script path (S k) rest
  end
with entries_script (path : list step) (k : nat) (i : Z) (es : wentries) {struct es} : list sop :=
  match es with
  | WENil => []
  | WECons e r => level_script (path ++ [SGroup k i]) e ++ entries_script path k (i + 1) r
  end.

Definition message_script (w : wlevel) : list sop := SFillHdr :: level_script [] w.

(* the value tree has the shape of the table and everything written is
   representable / inside its member *)
Fixpoint pieces_ok (fsz : Z) (ps : list (Z * list Z)) : Prop :=
  match ps with
  | [] => True
  | (o, bs) :: r => 0 <= o /\ o + len bs <= fsz /\ pieces_ok fsz r
  end.

Fixpoint fvals_ok (cbl : Z) (fs : list fld) (fv : list (list (Z * list Z))) : Prop :=
  match fs, fv with
  | [], [] => True
  | f :: fs', ps :: fv' =>
    0 <= f_off f /\ f_off f + f_size f <= cbl /\ pieces_ok (f_size f) ps /\ fvals_ok cbl fs' fv'
  | _, _ => False
  end.

Fixpoint wdatas_ok (ds : list ity) (wds : list (list Z)) : Prop :=
  match ds, wds with
  | [], [] => True
  | t :: ds', p :: wds' => is_signed t = false /\ fits t (len p) /\ wdatas_ok ds' wds'
  | _, _ => False
  end.

(* the dimension filler sets blockLength and numInGroup (among others) *)
Definition dim_fills_ok (d : dim) : Prop :=
  wf_dim d /\ fills_inside (d_size d) (d_fills d) /\ fills_disjoint (d_fills d) /\
  In (d_bl_off d, d_bl_t d, FBlockLength) (d_fills d) /\
  In (d_n_off d, d_n_t d, FNumInGroup) (d_fills d) /\
  Forall (fun x => let '(_, t, v) := x in is_signed t = false /\
                   match v with FConst z => fits t z | _ => True end) (d_fills d).

Fixpoint wf_wlevel (cbl : Z) (l : level) (w : wlevel) {struct w} : Prop :=
  match w with
  | WLevel fv wgs wds =>
    0 <= cbl /\ fvals_ok cbl (level_fields l) fv /\
    wf_wgroups (level_groups l) wgs /\ wdatas_ok (level_datas l) wds
  end
with wf_wgroups (gs : groups) (wgs : wgroups) {struct wgs} : Prop :=
  match wgs, gs with
  | WGNil, GNil => True
  | WGCons es wrest, GCons d cbl l rest =>
    dim_fills_ok d /\ fits (d_bl_t d) cbl /\ fits (d_n_t d) (wecount es) /\
    (is_flat l = true -> d_size d + wecount es * cbl < 2 ^ 64) /\
    wf_wentries cbl l es /\ wf_wgroups rest wrest
  | _, _ => False
  end
with wf_wentries (cbl : Z) (l : level) (es : wentries) {struct es} : Prop :=
  match es with
  | WENil => True
  | WECons e r => wf_wlevel cbl l e /\ wf_wentries cbl l r
  end.

Definition msg_fills_ok (m : message) : Prop :=
  is_signed (m_bl_t m) = false /\
  0 <= m_bl_off m /\ m_bl_off m + tbytes (m_bl_t m) <= m_hdr_size m /\
  fills_inside (m_hdr_size m) (m_fills m) /\ fills_disjoint (m_fills m) /\
  In (m_bl_off m, m_bl_t m, FBlockLength) (m_fills m) /\
  fits (m_bl_t m) (m_cbl m) /\
  Forall (fun x => let '(_, t, v) := x in is_signed t = false /\
                   match v with FConst z => fits t z | _ => True end) (m_fills m).

(* size of the image, from the value tree alone *)
Fixpoint wdatas_size (ds : list ity) (wds : list (list Z)) : Z :=
  match ds, wds with
  | t :: ds', p :: wds' => tbytes t + len p + wdatas_size ds' wds'
  | _, _ => 0
  end.

Fixpoint wlevel_size (cbl : Z) (l : level) (w : wlevel) {struct w} : Z :=
  match w with
  | WLevel _ wgs wds => cbl + wgroups_size (level_groups l) wgs + wdatas_size (level_datas l) wds
  end
with wgroups_size (gs : groups) (wgs : wgroups) {struct wgs} : Z :=
  match wgs, gs with
  | WGCons es wrest, GCons d cbl l rest => d_size d + wentries_size cbl l es + wgroups_size rest wrest
  | _, _ => 0
  end
with wentries_size (cbl : Z) (l : level) (es : wentries) {struct es} : Z :=
  match es with
  | WENil => 0
  | WECons e r => wlevel_size cbl l e + wentries_size cbl l r
  end.

(* C01: running the in-order script on ANY background that is long enough
   yields exactly the reference image followed by the untouched rest of the
   background (so every byte that belongs to no written member keeps its
   previous value) *)
Definition stmt_encode_script_image : Prop :=
  forall be m w bg,
    msg_fills_ok m -> wf_wlevel (m_cbl m) (m_level m) w ->
    bytes_ok bg = true ->
    m_hdr_size m + wlevel_size (m_cbl m) (m_level m) w <= len bg -> len bg < 2 ^ 63 ->
    exec_script be m 0 bg (message_script w) = Some (over_message be m w bg).

(* ================================================================== *)
(* C06: exactness of size_bytes_checked on arbitrary buffers           *)
(* ================================================================== *)

Fixpoint wf_table_level (l : level) {struct l} : Prop :=
  match l with
  | Level fs gs ds =>
    Forall (fun f => 0 <= f_off f /\ 0 <= f_size f) fs /\
    Forall (fun t => is_signed t = false) ds /\ wf_table_groups gs
  end
with wf_table_groups (gs : groups) {struct gs} : Prop :=
  match gs with
  | GNil => True
  | GCons d cbl l rest => wf_dim d /\ 0 <= cbl /\ wf_table_level l /\ wf_table_groups rest
  end.

(* whenever the visitor neither reads out of bounds (the two recorded
   findings) nor exhausts the model's iteration bound, its verdict is exactly
   the specification's: valid with the described size iff the described
   structure fits in the n bytes *)
Definition stmt_checked_exact : Prop :=
  forall be b m cl fuel,
    is_signed (m_bl_t m) = false ->
    0 <= m_bl_off m -> m_bl_off m + tbytes (m_bl_t m) <= m_hdr_size m ->
    wf_table_level (m_level m) -> wf_clevel (m_hdr_size m) (m_level m) cl ->
    len b < 2 ^ 63 -> (length b < fuel)%nat ->
    match size_bytes_checked be b fuel m cl with
    | CkValid s _ => described_fit be b m = Some s
    | CkInvalid _ => described_fit be b m = None
    | CkOob _ _ _ => True
    | CkFuel => True
    end.
