(* SrcExprsProofs.v — what the expression trees regenerated from /repo's
   CURRENT sbepp.hpp (SrcExprs.v, clang's typed AST) compute: they agree, for
   ALL arguments in the range of their C++ types, with the hand-written models
   the property theorems are about (Bitset.v for C15, GroupIter.v for C12), so
   those theorems hold of what the source says now.                         *)
From Coq Require Import ZArith Bool String List Lia.
From Sbepp Require Import CInt CIntFacts CExpr SrcExprs Bitset BitsetProofs GroupIter.
Import GI.
Import ListNotations.
Local Open Scope Z_scope.
Local Open Scope string_scope.

Lemma wrap_wrap t z : wrap t (wrap t z) = wrap t z.
Proof. apply wrap_id, wrap_range. Qed.

Ltac bounds :=
  repeat match goal with
  | H : in_range _ _ = true |- _ => apply in_range_iff in H; cbv [tmin tmax is_signed CInt.bits] in H
  end.
Ltac rng := apply in_range_iff; cbv [tmin tmax is_signed CInt.bits]; lia.
Ltac wraps :=
  unfold ccast;
  repeat match goal with
  | |- context [wrap ?t (wrap ?t ?z)] => rewrite (wrap_wrap t z)
  | |- context [wrap ?t ?z] => rewrite (wrap_id t z) by rng
  end.
Ltac ifs :=
  repeat match goal with
  | |- context [if ?c then _ else _] => destruct c
  | |- context [match ?o with Some _ => _ | None => _ end] => destruct o
  end.
Ltac run_src :=
  cbn [effs_eval ceval lookup String.eqb Ascii.eqb Bool.eqb obind];
  bounds; wraps.

(* the choice tables: which regenerated term belongs to which instantiation *)
Definition src_get_bit (T : ity) : list effect :=
  match T with U8 => src_get_bit_U8 | U16 => src_get_bit_U16 | U32 => src_get_bit_U32 | _ => src_get_bit_U64 end.
Definition src_set_bit (T : ity) : list effect :=
  match T with U8 => src_set_bit_U8 | U16 => src_set_bit_U16 | U32 => src_set_bit_U32 | _ => src_set_bit_U64 end.

(* ---- C15: bitset_base<T>::operator()(get_bit_tag, n) ---- *)
Lemma src_get_bit_is_model T bits n :
  is_set_type T = true -> in_range T bits = true -> in_range U8 n = true ->
  effs_eval [("bits", bits); ("n", n)] (src_get_bit T)
  = option_map (fun b => [zb b]) (get_bit T bits n).
Proof.
  intros HT Hb Hn.
  destruct T; try discriminate HT; unfold src_get_bit;
    [unfold src_get_bit_U8 | unfold src_get_bit_U16 | unfold src_get_bit_U32 | unfold src_get_bit_U64];
    run_src; unfold get_bit, ebin, cand, cbit, cshl;
    cbn [uac promote ity_eqb CInt.bits is_signed obind option_map]; wraps;
    ifs; cbn [obind option_map]; wraps; reflexivity.
Qed.

(* ---- C15: bitset_base<T>::operator()(set_bit_tag, n, b): the value stored into bits ---- *)
Lemma src_set_bit_is_model T bits n b :
  is_set_type T = true -> in_range T bits = true -> in_range U8 n = true ->
  effs_eval [("bits", bits); ("n", n); ("b", b2z b)] (src_set_bit T)
  = option_map (fun v => [v]) (set_bit T bits n b).
Proof.
  intros HT Hb Hn.
  assert (Hbb : 0 <= b2z b <= 1) by (destruct b; cbn; lia).
  destruct T; try discriminate HT; unfold src_set_bit;
    [unfold src_set_bit_U8 | unfold src_set_bit_U16 | unfold src_set_bit_U32 | unfold src_set_bit_U64];
    run_src; unfold set_bit, ebin, cand, cor, cnot, cbit, cshl;
    cbn [uac promote ity_eqb CInt.bits is_signed obind option_map]; wraps;
    ifs; cbn [obind option_map]; wraps; reflexivity.
Qed.

Lemma src_bit_targets T : is_set_type T = true ->
  map eff_target (src_get_bit T) = ["return"] /\ map eff_target (src_set_bit T) = ["bits="].
Proof. destruct T; try discriminate; intros _; split; reflexivity. Qed.

(* ---- C12: random_access_iterator<Byte, Entry, B, make_signed<S>, S> ---- *)
Definition src_it_add (S B : ity) : list effect :=
  match S, B with
  | U8, U8 => src_it_add_assign_U8_U8 | U8, U16 => src_it_add_assign_U8_U16
  | U8, U32 => src_it_add_assign_U8_U32 | U8, _ => src_it_add_assign_U8_U64
  | U16, U8 => src_it_add_assign_U16_U8 | U16, U16 => src_it_add_assign_U16_U16
  | U16, U32 => src_it_add_assign_U16_U32 | U16, _ => src_it_add_assign_U16_U64
  | U32, U8 => src_it_add_assign_U32_U8 | U32, U16 => src_it_add_assign_U32_U16
  | U32, U32 => src_it_add_assign_U32_U32 | U32, _ => src_it_add_assign_U32_U64
  | _, U8 => src_it_add_assign_U64_U8 | _, U16 => src_it_add_assign_U64_U16
  | _, U32 => src_it_add_assign_U64_U32 | _, _ => src_it_add_assign_U64_U64
  end.
Definition src_it_diff (S B : ity) : list effect :=
  match S, B with
  | U8, U8 => src_it_diff_U8_U8 | U8, U16 => src_it_diff_U8_U16
  | U8, U32 => src_it_diff_U8_U32 | U8, _ => src_it_diff_U8_U64
  | U16, U8 => src_it_diff_U16_U8 | U16, U16 => src_it_diff_U16_U16
  | U16, U32 => src_it_diff_U16_U32 | U16, _ => src_it_diff_U16_U64
  | U32, U8 => src_it_diff_U32_U8 | U32, U16 => src_it_diff_U32_U16
  | U32, U32 => src_it_diff_U32_U32 | U32, _ => src_it_diff_U32_U64
  | _, U8 => src_it_diff_U64_U8 | _, U16 => src_it_diff_U64_U16
  | _, U32 => src_it_diff_U64_U32 | _, _ => src_it_diff_U64_U64
  end.

Ltac unfold_it :=
  unfold src_it_add, src_it_diff,
    src_it_add_assign_U8_U8, src_it_add_assign_U8_U16, src_it_add_assign_U8_U32, src_it_add_assign_U8_U64,
    src_it_add_assign_U16_U8, src_it_add_assign_U16_U16, src_it_add_assign_U16_U32, src_it_add_assign_U16_U64,
    src_it_add_assign_U32_U8, src_it_add_assign_U32_U16, src_it_add_assign_U32_U32, src_it_add_assign_U32_U64,
    src_it_add_assign_U64_U8, src_it_add_assign_U64_U16, src_it_add_assign_U64_U32, src_it_add_assign_U64_U64,
    src_it_diff_U8_U8, src_it_diff_U8_U16, src_it_diff_U8_U32, src_it_diff_U8_U64,
    src_it_diff_U16_U8, src_it_diff_U16_U16, src_it_diff_U16_U32, src_it_diff_U16_U64,
    src_it_diff_U32_U8, src_it_diff_U32_U16, src_it_diff_U32_U32, src_it_diff_U32_U64,
    src_it_diff_U64_U8, src_it_diff_U64_U16, src_it_diff_U64_U32, src_it_diff_U64_U64.

(* operator+=(difference_type n): the byte offset added to ptr and the value stored into index *)
Lemma src_it_add_assign_is_model S B n bl idx :
  is_uns S = true -> is_uns B = true ->
  in_range (dty S) n = true -> in_range B bl = true -> in_range S idx = true ->
  effs_eval [("n", n); ("block_length", bl); ("index", idx)] (src_it_add S B)
  = match offset_fixed S B n bl, idx_add S idx n with
    | Some off, GOk ix => Some [off; ix]
    | _, _ => None
    end.
Proof.
  intros HS HB Hn Hbl Hidx.
  destruct S; try discriminate HS; destruct B; try discriminate HB; unfold_it;
    cbn [dty to_signed] in Hn;
    run_src; unfold offset_fixed, idx_add, ebin, cmul, cadd, cbin, arith, PTRDIFF_T, of_opt, gbind;
    cbn [uac promote ity_eqb CInt.bits is_signed obind dty to_signed]; wraps;
    ifs; cbn [obind]; wraps; try reflexivity.
Qed.

(* operator-(const random_access_iterator& rhs) *)
Lemma src_it_diff_is_model S B a b :
  is_uns S = true -> is_uns B = true ->
  in_range S (i_idx a) = true -> in_range S (i_idx b) = true ->
  effs_eval [("index", i_idx a); ("rhs.index", i_idx b)] (src_it_diff S B)
  = match it_diff S a b with GOk d => Some [d] | _ => None end.
Proof.
  intros HS HB Ha Hb.
  destruct S; try discriminate HS; destruct B; try discriminate HB; unfold_it;
    run_src; unfold it_diff, ebin, csub, cbin, arith, of_opt, gbind;
    cbn [uac promote ity_eqb CInt.bits is_signed obind dty to_signed]; wraps;
    ifs; cbn [obind]; wraps; try reflexivity.
Qed.

Lemma src_it_targets S B : is_uns S = true -> is_uns B = true ->
  map eff_target (src_it_add S B) = ["ptr+="; "index="] /\ map eff_target (src_it_diff S B) = ["return"].
Proof. destruct S; try discriminate; destruct B; try discriminate; intros _ _; split; reflexivity. Qed.

(* ------------------------------------------------------------------ *)
(* the property statements, about the regenerated terms themselves     *)
(* ------------------------------------------------------------------ *)
From Sbepp Require Import GroupIterProofs.

Lemma idx_in_u8 T n : is_set_type T = true -> 0 <= n < CInt.bits T -> in_range U8 n = true.
Proof. intros HT Hn. apply in_range_iff. destruct T; try discriminate HT; cbn in *; lia. Qed.

(* C15 on the source: the value the setter's expression stores has exactly
   bit n changed, and the getter's expression then reads exactly its own bit *)
Theorem src_bitset_bit_independent T bits n b :
  is_set_type T = true -> 0 <= n < CInt.bits T -> in_range T bits = true ->
  exists bits',
    effs_eval [("bits", bits); ("n", n); ("b", b2z b)] (src_set_bit T) = Some [bits'] /\
    in_range T bits' = true /\
    forall m, 0 <= m < CInt.bits T ->
      effs_eval [("bits", bits'); ("n", m)] (src_get_bit T)
      = Some [zb (if (m =? n)%Z then b else Z.testbit bits m)].
Proof.
  intros HT Hn Hb.
  destruct (bit_independent T bits n b HT Hn Hb) as (bits' & Hset & Hr & Hget).
  exists bits'. split; [|split; [exact Hr|]].
  - rewrite src_set_bit_is_model by (try assumption; eapply idx_in_u8; eassumption).
    rewrite Hset. reflexivity.
  - intros m Hm. rewrite src_get_bit_is_model by (try assumption; eapply idx_in_u8; eassumption).
    rewrite (Hget m Hm). reflexivity.
Qed.

Theorem src_get_bit_is_testbit T bits n :
  is_set_type T = true -> 0 <= n < CInt.bits T -> in_range T bits = true ->
  effs_eval [("bits", bits); ("n", n)] (src_get_bit T) = Some [zb (Z.testbit bits n)].
Proof.
  intros HT Hn Hb. rewrite src_get_bit_is_model by (try assumption; eapply idx_in_u8; eassumption).
  rewrite (get_bit_is_testbit T bits n HT Hn Hb). reflexivity.
Qed.

(* C12 on the source: it += n moves the pointer by exactly n x blockLength
   bytes (no narrowing, no sign mishap, for all 16 header type pairs) and the
   index by n, whenever the target index exists and the byte offset fits a
   pointer difference *)
Theorem src_it_add_assign_exact S B n bl idx :
  is_uns S = true -> is_uns B = true ->
  in_range (dty S) n = true -> in_range B bl = true -> in_range S idx = true ->
  in_range S (idx + n) = true -> - 2 ^ 63 < n * bl < 2 ^ 63 ->
  effs_eval [("n", n); ("block_length", bl); ("index", idx)] (src_it_add S B) = Some [n * bl; idx + n].
Proof.
  intros HS HB Hn Hbl Hidx Hr Hp.
  rewrite src_it_add_assign_is_model by assumption.
  rewrite offset_fixed_ok; [|
    apply in_range_iff in Hn; destruct S; try discriminate HS; cbn in *; lia |
    apply in_range_iff in Hbl; destruct B; try discriminate HB; cbn in *; lia | exact Hp].
  rewrite idx_add_ok by assumption. reflexivity.
Qed.

Example src_it_add_assign_exact_nonvacuous :
  effs_eval [("n", -3); ("block_length", 4294967295); ("index", 200)] (src_it_add U8 U32)
  = Some [-3 * 4294967295; 197].
Proof. vm_compute. reflexivity. Qed.

Example src_bitset_nonvacuous :
  effs_eval [("bits", 0); ("n", 63); ("b", 1)] (src_set_bit U64) = Some [2 ^ 63].
Proof. vm_compute. reflexivity. Qed.

(* ---- C01/C02: the byteswap overloads the memcpy path of get_primitive /
   set_primitive calls reverse exactly the bytes of their own width ---- *)
From Sbepp Require Import Bytes BytesFacts.
Definition src_byteswap (w : nat) : list effect :=
  match w with 2%nat => src_byteswap_U16 | 4%nat => src_byteswap_U32 | _ => src_byteswap_U64 end.

Lemma src_byteswap_is_model w v : w = 2%nat \/ w = 4%nat \/ w = 8%nat ->
  effs_eval [("v", v)] (src_byteswap w) = Some [byteswap w v].
Proof. intros [->|[->| ->]]; reflexivity. Qed.

(* hence the memcpy implementation built on the source's byteswap decodes /
   encodes exactly the schema byte order *)
Theorem src_byteswap_get_primitive (be : bool) (bs : list Z) :
  bytes_ok bs = true -> List.length bs = 2%nat \/ List.length bs = 4%nat \/ List.length bs = 8%nat ->
  (if be then effs_eval [("v", dec_le bs)] (src_byteswap (List.length bs)) else Some [dec_le bs])
  = Some [dec be bs].
Proof.
  intros Hok Hw. pose proof (get_primitive_memcpy_spec be bs Hok) as H.
  unfold get_primitive_memcpy in H. destruct be.
  - rewrite src_byteswap_is_model by exact Hw. rewrite H. reflexivity.
  - rewrite H. reflexivity.
Qed.

(* ---- C10: detail::is_within_size and the SBEPP_SIZE_CHECK macro (expanded by
   clang inside a probe function of the instantiation unit) ---- *)
From Sbepp Require Cursor SizeCheck.
Ltac lebs :=
  repeat match goal with
  | |- context [Z.leb ?a ?b] => destruct (Z.leb_spec a b)
  end.

Lemma src_is_within_size_spec off size avail :
  in_range U64 off = true -> in_range U64 size = true -> in_range U64 avail = true ->
  effs_eval [("offset", off); ("size", size); ("available", avail)] src_is_within_size
  = Some [zb (off + size <=? avail)%Z].
Proof.
  intros Ho Hs Ha. unfold src_is_within_size.
  cbn [effs_eval ceval lookup String.eqb Ascii.eqb Bool.eqb obind]. bounds.
  unfold ecmp. destruct (Z.leb_spec size avail); cbn [zb Z.eqb obind].
  - unfold ebin, csub, cbin, arith. cbn [uac promote ity_eqb is_signed obind]. wraps.
    cbn [obind]. lebs; cbn [zb Z.eqb]; try reflexivity; lia.
  - lebs; cbn [zb Z.eqb]; try reflexivity; lia.
Qed.

Lemma src_size_check_macro_is_model b e off size :
  0 < b < 2 ^ 63 -> 0 <= e < 2 ^ 63 -> in_range U64 off = true -> in_range U64 size = true ->
  effs_eval [("begin", b); ("end", e); ("offset", off); ("size", size)] src_size_check_macro
  = Some [zb (Cursor.size_check b e off size)].
Proof.
  intros Hb He Ho Hs. unfold src_size_check_macro, Cursor.size_check.
  cbn [effs_eval ceval lookup String.eqb Ascii.eqb Bool.eqb obind]. bounds.
  unfold ecmp. destruct (Z.eqb_spec b 0) as [->|_]; [lia|]. cbn [negb zb Z.eqb obind].
  destruct (Z.leb_spec b e); cbn [zb Z.eqb obind andb].
  - unfold ebin, csub, cbin, arith. cbn [uac promote ity_eqb is_signed obind]. wraps.
    assert (Hr : in_range I64 (e - b) = true) by rng. rewrite Hr. cbn [obind]. wraps.
    rewrite (Z.mod_small (e - b)) by lia.
    destruct (Z.leb_spec size (e - b)); cbn [zb Z.eqb obind].
    + wraps. cbn [obind]. lebs; cbn [zb Z.eqb]; try reflexivity; lia.
    + lebs; cbn [zb Z.eqb]; try reflexivity; lia.
  - reflexivity.
Qed.

(* C10 on the source: the handler stays silent exactly when the accessed bytes
   [begin+offset, begin+offset+size) lie inside [begin, end), wherever the view
   starts (also past the end of the buffer) *)
Theorem src_size_check_sound_complete b e off size :
  0 < b < 2 ^ 63 -> 0 <= e < 2 ^ 63 -> in_range U64 off = true -> in_range U64 size = true ->
  (effs_eval [("begin", b); ("end", e); ("offset", off); ("size", size)] src_size_check_macro = Some [1]
   <-> (b <= e /\ b + off + size <= e)) /\
  (effs_eval [("begin", b); ("end", e); ("offset", off); ("size", size)] src_size_check_macro = Some [0]
   <-> ~ (b <= e /\ b + off + size <= e)).
Proof.
  intros Hb He Ho Hs. rewrite (src_size_check_macro_is_model b e off size Hb He Ho Hs).
  destruct (Cursor.size_check b e off size) eqn:E; cbn [zb].
  - pose proof (SizeCheck.size_check_sound b e off size ltac:(lia) E) as Hin.
    split; split; intros H; try exact Hin; try reflexivity; try discriminate H. contradiction.
  - assert (Hn : ~ (b <= e /\ b + off + size <= e)).
    { intros [H1 H2]. rewrite (SizeCheck.size_check_complete b e off size H1 ltac:(lia) H2) in E. discriminate E. }
    split; split; intros H; try exact Hn; try reflexivity; try discriminate H. contradiction.
Qed.

Example src_size_check_view_past_end : (* the input that defeated the macro before its repair *)
  effs_eval [("begin", 1012); ("end", 64); ("offset", 0); ("size", 4)] src_size_check_macro = Some [0].
Proof. vm_compute. reflexivity. Qed.

(* ---- C12 / C10: random_access_iterator::operator++ (with its SBEPP_SIZE_CHECK) and operator-- ---- *)
Definition src_it_inc (S B : ity) : list effect :=
  match S, B with
  | U8, U8 => src_it_inc_U8_U8
  | U8, U16 => src_it_inc_U8_U16
  | U8, U32 => src_it_inc_U8_U32
  | U8, _ => src_it_inc_U8_U64
  | U16, U8 => src_it_inc_U16_U8
  | U16, U16 => src_it_inc_U16_U16
  | U16, U32 => src_it_inc_U16_U32
  | U16, _ => src_it_inc_U16_U64
  | U32, U8 => src_it_inc_U32_U8
  | U32, U16 => src_it_inc_U32_U16
  | U32, U32 => src_it_inc_U32_U32
  | U32, _ => src_it_inc_U32_U64
  | _, U8 => src_it_inc_U64_U8
  | _, U16 => src_it_inc_U64_U16
  | _, U32 => src_it_inc_U64_U32
  | _, _ => src_it_inc_U64_U64
  end.
Definition src_it_dec (S B : ity) : list effect :=
  match S, B with
  | U8, U8 => src_it_dec_U8_U8
  | U8, U16 => src_it_dec_U8_U16
  | U8, U32 => src_it_dec_U8_U32
  | U8, _ => src_it_dec_U8_U64
  | U16, U8 => src_it_dec_U16_U8
  | U16, U16 => src_it_dec_U16_U16
  | U16, U32 => src_it_dec_U16_U32
  | U16, _ => src_it_dec_U16_U64
  | U32, U8 => src_it_dec_U32_U8
  | U32, U16 => src_it_dec_U32_U16
  | U32, U32 => src_it_dec_U32_U32
  | U32, _ => src_it_dec_U32_U64
  | _, U8 => src_it_dec_U64_U8
  | _, U16 => src_it_dec_U64_U16
  | _, U32 => src_it_dec_U64_U32
  | _, _ => src_it_dec_U64_U64
  end.
Ltac unfold_incdec := unfold src_it_inc, src_it_dec, src_it_inc_U8_U8, src_it_inc_U8_U16, src_it_inc_U8_U32, src_it_inc_U8_U64, src_it_inc_U16_U8, src_it_inc_U16_U16, src_it_inc_U16_U32, src_it_inc_U16_U64, src_it_inc_U32_U8, src_it_inc_U32_U16, src_it_inc_U32_U32, src_it_inc_U32_U64, src_it_inc_U64_U8, src_it_inc_U64_U16, src_it_inc_U64_U32, src_it_inc_U64_U64, src_it_dec_U8_U8, src_it_dec_U8_U16, src_it_dec_U8_U32, src_it_dec_U8_U64, src_it_dec_U16_U8, src_it_dec_U16_U16, src_it_dec_U16_U32, src_it_dec_U16_U64, src_it_dec_U32_U8, src_it_dec_U32_U16, src_it_dec_U32_U32, src_it_dec_U32_U64, src_it_dec_U64_U8, src_it_dec_U64_U16, src_it_dec_U64_U32, src_it_dec_U64_U64.

Lemma src_it_dec_is_model S B it :
  is_uns S = true -> is_uns B = true -> in_range B (i_bl it) = true -> in_range S (i_idx it) = true ->
  effs_eval [("block_length", i_bl it); ("index", i_idx it)] (src_it_dec S B)
  = match it_dec S B it with GOk it' => Some [i_bl it; i_idx it'] | _ => None end.
Proof.
  intros HS HB Hbl Hidx. destruct it as [p bl idx e]. cbn [i_bl i_idx] in *.
  destruct S; try discriminate HS; destruct B; try discriminate HB; unfold_incdec;
    run_src; unfold it_dec, idx_step, ebin, csub, cbin, arith, INT, of_opt, gbind;
    cbn [uac promote ity_eqb CInt.bits is_signed obind i_bl i_idx i_ptr i_end]; wraps;
    ifs; cbn [obind i_idx]; wraps; try reflexivity.
Qed.

Lemma src_it_inc_is_model S B it :
  is_uns S = true -> is_uns B = true ->
  0 < i_ptr it < 2 ^ 63 -> 0 <= i_end it < 2 ^ 63 ->
  in_range B (i_bl it) = true -> in_range S (i_idx it) = true ->
  effs_eval [("ptr", i_ptr it); ("end", i_end it); ("block_length", i_bl it); ("index", i_idx it)] (src_it_inc S B)
  = match it_inc true S B it with
    | GOk it' => Some [1; i_bl it; i_idx it']
    | GAssert => Some [0]
    | GUB => None
    end.
Proof.
  intros HS HB Hp He Hbl Hidx. destruct it as [p bl idx e]. cbn [i_bl i_idx i_ptr i_end] in *.
  unfold it_inc, GI.size_check. cbn [negb orb i_bl i_idx i_ptr i_end].
  destruct S; try discriminate HS; destruct B; try discriminate HB; unfold_incdec;
    run_src; unfold ecmp; (destruct (Z.eqb_spec p 0) as [->|_]; [lia|]); cbn [negb zb Z.eqb obind];
    (destruct (Z.leb_spec p e); cbn [zb Z.eqb obind andb]; [|reflexivity]);
    unfold ebin, csub, cadd, cbin, arith, SIZE_T; cbn [uac promote ity_eqb is_signed obind]; wraps;
    (assert (Hr : in_range I64 (e - p) = true) by rng); rewrite Hr; cbn [obind]; wraps;
    (destruct (Z.leb_spec bl (e - p)); cbn [zb Z.eqb obind]; [|reflexivity]);
    wraps; cbn [obind];
    (destruct (Z.leb_spec 0 (e - p - bl)); [|lia]); cbn [zb Z.eqb obind];
    unfold idx_step, cadd, cbin, arith, INT, of_opt, gbind;
    cbn [uac promote ity_eqb CInt.bits is_signed obind]; wraps;
    ifs; cbn [obind i_idx]; wraps; try reflexivity.
Qed.

(* operator++ on the source: the handler is called exactly when the entry block
   at ptr does not lie inside [ptr, end); otherwise the pointer moves by exactly
   the wire blockLength and the index by one *)
Theorem src_it_inc_exact S B it :
  is_uns S = true -> is_uns B = true ->
  0 < i_ptr it < 2 ^ 63 -> 0 <= i_end it < 2 ^ 63 ->
  in_range B (i_bl it) = true -> in_range S (i_idx it) = true -> in_range S (i_idx it + 1) = true ->
  effs_eval [("ptr", i_ptr it); ("end", i_end it); ("block_length", i_bl it); ("index", i_idx it)] (src_it_inc S B)
  = if (i_ptr it + i_bl it <=? i_end it)%Z then Some [1; i_bl it; i_idx it + 1] else Some [0].
Proof.
  intros HS HB Hp He Hbl Hidx Hnext.
  rewrite src_it_inc_is_model by assumption.
  unfold it_inc, GI.size_check. cbn [negb orb].
  rewrite (idx_inc_ok S (i_idx it) HS Hidx Hnext). cbn [gbind i_idx].
  assert (Hb : 0 <= i_bl it < 2 ^ 64).
  { apply in_range_iff in Hbl. destruct B; try discriminate HB; cbn in Hbl; lia. }
  unfold SIZE_T.
  destruct (Z.leb_spec (i_ptr it) (i_end it)) as [Hle|Hgt]; cbn [andb].
  - rewrite (wrap_id U64 (i_bl it)) by (apply in_range_iff; cbn; lia).
    rewrite (wrap_id U64 (i_end it - i_ptr it)) by (apply in_range_iff; cbn; lia).
    destruct (Z.leb_spec (i_bl it) (i_end it - i_ptr it)); destruct (Z.leb_spec (i_ptr it + i_bl it) (i_end it));
      try reflexivity; lia.
  - destruct (Z.leb_spec (i_ptr it + i_bl it) (i_end it)); [lia|reflexivity].
Qed.

(* ---- C12: the six comparison operators of random_access_iterator (friend functions, instantiated through a probe) ---- *)
Definition src_it_cmp (o : cmpop) (S B : ity) : list effect :=
  match o, S, B with
  | CEq, U8, U8 => src_it_eq_U8_U8
  | CEq, U8, U16 => src_it_eq_U8_U16
  | CEq, U8, U32 => src_it_eq_U8_U32
  | CEq, U8, U64 => src_it_eq_U8_U64
  | CEq, U16, U8 => src_it_eq_U16_U8
  | CEq, U16, U16 => src_it_eq_U16_U16
  | CEq, U16, U32 => src_it_eq_U16_U32
  | CEq, U16, U64 => src_it_eq_U16_U64
  | CEq, U32, U8 => src_it_eq_U32_U8
  | CEq, U32, U16 => src_it_eq_U32_U16
  | CEq, U32, U32 => src_it_eq_U32_U32
  | CEq, U32, U64 => src_it_eq_U32_U64
  | CEq, U64, U8 => src_it_eq_U64_U8
  | CEq, U64, U16 => src_it_eq_U64_U16
  | CEq, U64, U32 => src_it_eq_U64_U32
  | CEq, U64, U64 => src_it_eq_U64_U64
  | CNe, U8, U8 => src_it_ne_U8_U8
  | CNe, U8, U16 => src_it_ne_U8_U16
  | CNe, U8, U32 => src_it_ne_U8_U32
  | CNe, U8, U64 => src_it_ne_U8_U64
  | CNe, U16, U8 => src_it_ne_U16_U8
  | CNe, U16, U16 => src_it_ne_U16_U16
  | CNe, U16, U32 => src_it_ne_U16_U32
  | CNe, U16, U64 => src_it_ne_U16_U64
  | CNe, U32, U8 => src_it_ne_U32_U8
  | CNe, U32, U16 => src_it_ne_U32_U16
  | CNe, U32, U32 => src_it_ne_U32_U32
  | CNe, U32, U64 => src_it_ne_U32_U64
  | CNe, U64, U8 => src_it_ne_U64_U8
  | CNe, U64, U16 => src_it_ne_U64_U16
  | CNe, U64, U32 => src_it_ne_U64_U32
  | CNe, U64, U64 => src_it_ne_U64_U64
  | CLt, U8, U8 => src_it_lt_U8_U8
  | CLt, U8, U16 => src_it_lt_U8_U16
  | CLt, U8, U32 => src_it_lt_U8_U32
  | CLt, U8, U64 => src_it_lt_U8_U64
  | CLt, U16, U8 => src_it_lt_U16_U8
  | CLt, U16, U16 => src_it_lt_U16_U16
  | CLt, U16, U32 => src_it_lt_U16_U32
  | CLt, U16, U64 => src_it_lt_U16_U64
  | CLt, U32, U8 => src_it_lt_U32_U8
  | CLt, U32, U16 => src_it_lt_U32_U16
  | CLt, U32, U32 => src_it_lt_U32_U32
  | CLt, U32, U64 => src_it_lt_U32_U64
  | CLt, U64, U8 => src_it_lt_U64_U8
  | CLt, U64, U16 => src_it_lt_U64_U16
  | CLt, U64, U32 => src_it_lt_U64_U32
  | CLt, U64, U64 => src_it_lt_U64_U64
  | CLe, U8, U8 => src_it_le_U8_U8
  | CLe, U8, U16 => src_it_le_U8_U16
  | CLe, U8, U32 => src_it_le_U8_U32
  | CLe, U8, U64 => src_it_le_U8_U64
  | CLe, U16, U8 => src_it_le_U16_U8
  | CLe, U16, U16 => src_it_le_U16_U16
  | CLe, U16, U32 => src_it_le_U16_U32
  | CLe, U16, U64 => src_it_le_U16_U64
  | CLe, U32, U8 => src_it_le_U32_U8
  | CLe, U32, U16 => src_it_le_U32_U16
  | CLe, U32, U32 => src_it_le_U32_U32
  | CLe, U32, U64 => src_it_le_U32_U64
  | CLe, U64, U8 => src_it_le_U64_U8
  | CLe, U64, U16 => src_it_le_U64_U16
  | CLe, U64, U32 => src_it_le_U64_U32
  | CLe, U64, U64 => src_it_le_U64_U64
  | CGt, U8, U8 => src_it_gt_U8_U8
  | CGt, U8, U16 => src_it_gt_U8_U16
  | CGt, U8, U32 => src_it_gt_U8_U32
  | CGt, U8, U64 => src_it_gt_U8_U64
  | CGt, U16, U8 => src_it_gt_U16_U8
  | CGt, U16, U16 => src_it_gt_U16_U16
  | CGt, U16, U32 => src_it_gt_U16_U32
  | CGt, U16, U64 => src_it_gt_U16_U64
  | CGt, U32, U8 => src_it_gt_U32_U8
  | CGt, U32, U16 => src_it_gt_U32_U16
  | CGt, U32, U32 => src_it_gt_U32_U32
  | CGt, U32, U64 => src_it_gt_U32_U64
  | CGt, U64, U8 => src_it_gt_U64_U8
  | CGt, U64, U16 => src_it_gt_U64_U16
  | CGt, U64, U32 => src_it_gt_U64_U32
  | CGt, U64, U64 => src_it_gt_U64_U64
  | CGe, U8, U8 => src_it_ge_U8_U8
  | CGe, U8, U16 => src_it_ge_U8_U16
  | CGe, U8, U32 => src_it_ge_U8_U32
  | CGe, U8, U64 => src_it_ge_U8_U64
  | CGe, U16, U8 => src_it_ge_U16_U8
  | CGe, U16, U16 => src_it_ge_U16_U16
  | CGe, U16, U32 => src_it_ge_U16_U32
  | CGe, U16, U64 => src_it_ge_U16_U64
  | CGe, U32, U8 => src_it_ge_U32_U8
  | CGe, U32, U16 => src_it_ge_U32_U16
  | CGe, U32, U32 => src_it_ge_U32_U32
  | CGe, U32, U64 => src_it_ge_U32_U64
  | CGe, U64, U8 => src_it_ge_U64_U8
  | CGe, U64, U16 => src_it_ge_U64_U16
  | CGe, U64, U32 => src_it_ge_U64_U32
  | CGe, U64, U64 => src_it_ge_U64_U64
  | _, _, _ => nil
  end.

(* each comparison is the mathematical comparison of the two indices: no narrowing, no detour through operator- *)
Lemma src_it_cmp_is_model o S B a b :
  is_uns S = true -> is_uns B = true -> in_range S a = true -> in_range S b = true ->
  effs_eval [("lhs.index", a); ("rhs.index", b)] (src_it_cmp o S B) = Some [zb (ecmp o a b)].
Proof.
  intros HS HB Ha Hb.
  destruct S; try discriminate HS; destruct B; try discriminate HB; destruct o;
    unfold src_it_cmp, src_it_eq_U8_U8, src_it_eq_U8_U16, src_it_eq_U8_U32, src_it_eq_U8_U64, src_it_eq_U16_U8, src_it_eq_U16_U16, src_it_eq_U16_U32, src_it_eq_U16_U64, src_it_eq_U32_U8, src_it_eq_U32_U16, src_it_eq_U32_U32, src_it_eq_U32_U64, src_it_eq_U64_U8, src_it_eq_U64_U16, src_it_eq_U64_U32, src_it_eq_U64_U64, src_it_ne_U8_U8, src_it_ne_U8_U16, src_it_ne_U8_U32, src_it_ne_U8_U64, src_it_ne_U16_U8, src_it_ne_U16_U16, src_it_ne_U16_U32, src_it_ne_U16_U64, src_it_ne_U32_U8, src_it_ne_U32_U16, src_it_ne_U32_U32, src_it_ne_U32_U64, src_it_ne_U64_U8, src_it_ne_U64_U16, src_it_ne_U64_U32, src_it_ne_U64_U64, src_it_lt_U8_U8, src_it_lt_U8_U16, src_it_lt_U8_U32, src_it_lt_U8_U64, src_it_lt_U16_U8, src_it_lt_U16_U16, src_it_lt_U16_U32, src_it_lt_U16_U64, src_it_lt_U32_U8, src_it_lt_U32_U16, src_it_lt_U32_U32, src_it_lt_U32_U64, src_it_lt_U64_U8, src_it_lt_U64_U16, src_it_lt_U64_U32, src_it_lt_U64_U64, src_it_le_U8_U8, src_it_le_U8_U16, src_it_le_U8_U32, src_it_le_U8_U64, src_it_le_U16_U8, src_it_le_U16_U16, src_it_le_U16_U32, src_it_le_U16_U64, src_it_le_U32_U8, src_it_le_U32_U16, src_it_le_U32_U32, src_it_le_U32_U64, src_it_le_U64_U8, src_it_le_U64_U16, src_it_le_U64_U32, src_it_le_U64_U64, src_it_gt_U8_U8, src_it_gt_U8_U16, src_it_gt_U8_U32, src_it_gt_U8_U64, src_it_gt_U16_U8, src_it_gt_U16_U16, src_it_gt_U16_U32, src_it_gt_U16_U64, src_it_gt_U32_U8, src_it_gt_U32_U16, src_it_gt_U32_U32, src_it_gt_U32_U64, src_it_gt_U64_U8, src_it_gt_U64_U16, src_it_gt_U64_U32, src_it_gt_U64_U64, src_it_ge_U8_U8, src_it_ge_U8_U16, src_it_ge_U8_U32, src_it_ge_U8_U64, src_it_ge_U16_U8, src_it_ge_U16_U16, src_it_ge_U16_U32, src_it_ge_U16_U64, src_it_ge_U32_U8, src_it_ge_U32_U16, src_it_ge_U32_U32, src_it_ge_U32_U64, src_it_ge_U64_U8, src_it_ge_U64_U16, src_it_ge_U64_U32, src_it_ge_U64_U64;
    run_src; reflexivity.
Qed.

Theorem src_it_order_matches_indices S B x y :
  is_uns S = true -> is_uns B = true -> in_range S (i_idx x) = true -> in_range S (i_idx y) = true ->
  effs_eval [("lhs.index", i_idx x); ("rhs.index", i_idx y)] (src_it_cmp CEq S B) = Some [zb (it_eq x y)] /\
  effs_eval [("lhs.index", i_idx x); ("rhs.index", i_idx y)] (src_it_cmp CLt S B) = Some [zb (it_lt x y)] /\
  effs_eval [("lhs.index", i_idx x); ("rhs.index", i_idx y)] (src_it_cmp CLe S B) = Some [zb (it_le x y)] /\
  effs_eval [("lhs.index", i_idx x); ("rhs.index", i_idx y)] (src_it_cmp CNe S B) = Some [zb (negb (it_eq x y))] /\
  effs_eval [("lhs.index", i_idx x); ("rhs.index", i_idx y)] (src_it_cmp CGt S B) = Some [zb (it_lt y x)] /\
  effs_eval [("lhs.index", i_idx x); ("rhs.index", i_idx y)] (src_it_cmp CGe S B) = Some [zb (it_le y x)].
Proof.
  intros HS HB Hx Hy. repeat split; rewrite src_it_cmp_is_model by assumption; reflexivity.
Qed.

(* ---- C16: optional_base<T, Derived> for the eight integer types: has_value, in_range and the six
   comparison operators (pre-C++20 set), every call inlined down to comparisons of val / the
   opaque Derived::min_value() / max_value() / null_value() ---- *)
Inductive optfn := FHas | FInRange | FEq | FNe | FLt | FLe | FGt | FGe.
Definition src_opt (f : optfn) (T : ity) : list effect :=
  match f, T with
  | FHas, U8 => src_opt_has_value_U8
  | FHas, U16 => src_opt_has_value_U16
  | FHas, U32 => src_opt_has_value_U32
  | FHas, U64 => src_opt_has_value_U64
  | FHas, I8 => src_opt_has_value_I8
  | FHas, I16 => src_opt_has_value_I16
  | FHas, I32 => src_opt_has_value_I32
  | FHas, I64 => src_opt_has_value_I64
  | FInRange, U8 => src_opt_in_range_U8
  | FInRange, U16 => src_opt_in_range_U16
  | FInRange, U32 => src_opt_in_range_U32
  | FInRange, U64 => src_opt_in_range_U64
  | FInRange, I8 => src_opt_in_range_I8
  | FInRange, I16 => src_opt_in_range_I16
  | FInRange, I32 => src_opt_in_range_I32
  | FInRange, I64 => src_opt_in_range_I64
  | FEq, U8 => src_opt_eq_U8
  | FEq, U16 => src_opt_eq_U16
  | FEq, U32 => src_opt_eq_U32
  | FEq, U64 => src_opt_eq_U64
  | FEq, I8 => src_opt_eq_I8
  | FEq, I16 => src_opt_eq_I16
  | FEq, I32 => src_opt_eq_I32
  | FEq, I64 => src_opt_eq_I64
  | FNe, U8 => src_opt_ne_U8
  | FNe, U16 => src_opt_ne_U16
  | FNe, U32 => src_opt_ne_U32
  | FNe, U64 => src_opt_ne_U64
  | FNe, I8 => src_opt_ne_I8
  | FNe, I16 => src_opt_ne_I16
  | FNe, I32 => src_opt_ne_I32
  | FNe, I64 => src_opt_ne_I64
  | FLt, U8 => src_opt_lt_U8
  | FLt, U16 => src_opt_lt_U16
  | FLt, U32 => src_opt_lt_U32
  | FLt, U64 => src_opt_lt_U64
  | FLt, I8 => src_opt_lt_I8
  | FLt, I16 => src_opt_lt_I16
  | FLt, I32 => src_opt_lt_I32
  | FLt, I64 => src_opt_lt_I64
  | FLe, U8 => src_opt_le_U8
  | FLe, U16 => src_opt_le_U16
  | FLe, U32 => src_opt_le_U32
  | FLe, U64 => src_opt_le_U64
  | FLe, I8 => src_opt_le_I8
  | FLe, I16 => src_opt_le_I16
  | FLe, I32 => src_opt_le_I32
  | FLe, I64 => src_opt_le_I64
  | FGt, U8 => src_opt_gt_U8
  | FGt, U16 => src_opt_gt_U16
  | FGt, U32 => src_opt_gt_U32
  | FGt, U64 => src_opt_gt_U64
  | FGt, I8 => src_opt_gt_I8
  | FGt, I16 => src_opt_gt_I16
  | FGt, I32 => src_opt_gt_I32
  | FGt, I64 => src_opt_gt_I64
  | FGe, U8 => src_opt_ge_U8
  | FGe, U16 => src_opt_ge_U16
  | FGe, U32 => src_opt_ge_U32
  | FGe, U64 => src_opt_ge_U64
  | FGe, I8 => src_opt_ge_I8
  | FGe, I16 => src_opt_ge_I16
  | FGe, I32 => src_opt_ge_I32
  | FGe, I64 => src_opt_ge_I64
  end.

Ltac cmps :=
  unfold ecmp; rewrite ?Z.eqb_refl;
  repeat match goal with
  | |- context [Z.eqb ?a ?b] => is_var a; is_var b; destruct (Z.eqb_spec a b)
  | |- context [Z.ltb ?a ?b] => is_var a; is_var b; destruct (Z.ltb_spec a b)
  | |- context [Z.leb ?a ?b] => is_var a; is_var b; destruct (Z.leb_spec a b)
  end; cbn; try reflexivity; try lia.

(* the documented rules: a value is null iff it equals null_value(); null equals only null and orders
   before every value; otherwise the underlying values compare *)
Definition opt_spec (f : optfn) (v1 v2 null mn mx : Z) : bool :=
  let h1 := negb (v1 =? null)%Z in
  let h2 := negb (v2 =? null)%Z in
  match f with
  | FHas => h1
  | FInRange => (mn <=? v1)%Z && (v1 <=? mx)%Z
  | FEq => match h1, h2 with true, true => (v1 =? v2)%Z | false, false => true | _, _ => false end
  | FNe => negb (match h1, h2 with true, true => (v1 =? v2)%Z | false, false => true | _, _ => false end)
  | FLt => match h1, h2 with true, true => (v1 <? v2)%Z | false, true => true | _, false => false end
  | FLe => match h1, h2 with true, true => (v1 <=? v2)%Z | false, _ => true | true, false => false end
  | FGt => match h1, h2 with true, true => (v2 <? v1)%Z | true, false => true | false, _ => false end
  | FGe => match h1, h2 with true, true => (v2 <=? v1)%Z | _, false => true | false, true => false end
  end.

Definition opt_env (f : optfn) (v1 v2 null mn mx : Z) : list (string * Z) :=
  match f with
  | FHas | FInRange => [("val", v1); ("null_value()", null); ("min_value()", mn); ("max_value()", mx)]
  | _ => [("lhs.val", v1); ("rhs.val", v2); ("null_value()", null)]
  end.

Lemma src_opt_is_spec f T v1 v2 null mn mx :
  in_range T v1 = true -> in_range T v2 = true -> in_range T null = true ->
  in_range T mn = true -> in_range T mx = true ->
  effs_eval (opt_env f v1 v2 null mn mx) (src_opt f T) = Some [zb (opt_spec f v1 v2 null mn mx)].
Proof.
  intros H1 H2 Hn Hmn Hmx.
  destruct T; destruct f; unfold src_opt, opt_env, opt_spec, src_opt_has_value_U8, src_opt_has_value_U16, src_opt_has_value_U32, src_opt_has_value_U64, src_opt_has_value_I8, src_opt_has_value_I16, src_opt_has_value_I32, src_opt_has_value_I64, src_opt_in_range_U8, src_opt_in_range_U16, src_opt_in_range_U32, src_opt_in_range_U64, src_opt_in_range_I8, src_opt_in_range_I16, src_opt_in_range_I32, src_opt_in_range_I64, src_opt_eq_U8, src_opt_eq_U16, src_opt_eq_U32, src_opt_eq_U64, src_opt_eq_I8, src_opt_eq_I16, src_opt_eq_I32, src_opt_eq_I64, src_opt_ne_U8, src_opt_ne_U16, src_opt_ne_U32, src_opt_ne_U64, src_opt_ne_I8, src_opt_ne_I16, src_opt_ne_I32, src_opt_ne_I64, src_opt_lt_U8, src_opt_lt_U16, src_opt_lt_U32, src_opt_lt_U64, src_opt_lt_I8, src_opt_lt_I16, src_opt_lt_I32, src_opt_lt_I64, src_opt_le_U8, src_opt_le_U16, src_opt_le_U32, src_opt_le_U64, src_opt_le_I8, src_opt_le_I16, src_opt_le_I32, src_opt_le_I64, src_opt_gt_U8, src_opt_gt_U16, src_opt_gt_U32, src_opt_gt_U64, src_opt_gt_I8, src_opt_gt_I16, src_opt_gt_I32, src_opt_gt_I64, src_opt_ge_U8, src_opt_ge_U16, src_opt_ge_U32, src_opt_ge_U64, src_opt_ge_I8, src_opt_ge_I16, src_opt_ge_I32, src_opt_ge_I64;
    run_src; cmps.
Qed.

(* ---- C16: required_base<T, Derived> for the eight integer types: in_range and the six comparison operators ---- *)
Definition src_req_cmp (o : cmpop) (T : ity) : list effect :=
  match o, T with
  | CEq, U8 => src_req_eq_U8
  | CEq, U16 => src_req_eq_U16
  | CEq, U32 => src_req_eq_U32
  | CEq, U64 => src_req_eq_U64
  | CEq, I8 => src_req_eq_I8
  | CEq, I16 => src_req_eq_I16
  | CEq, I32 => src_req_eq_I32
  | CEq, I64 => src_req_eq_I64
  | CNe, U8 => src_req_ne_U8
  | CNe, U16 => src_req_ne_U16
  | CNe, U32 => src_req_ne_U32
  | CNe, U64 => src_req_ne_U64
  | CNe, I8 => src_req_ne_I8
  | CNe, I16 => src_req_ne_I16
  | CNe, I32 => src_req_ne_I32
  | CNe, I64 => src_req_ne_I64
  | CLt, U8 => src_req_lt_U8
  | CLt, U16 => src_req_lt_U16
  | CLt, U32 => src_req_lt_U32
  | CLt, U64 => src_req_lt_U64
  | CLt, I8 => src_req_lt_I8
  | CLt, I16 => src_req_lt_I16
  | CLt, I32 => src_req_lt_I32
  | CLt, I64 => src_req_lt_I64
  | CLe, U8 => src_req_le_U8
  | CLe, U16 => src_req_le_U16
  | CLe, U32 => src_req_le_U32
  | CLe, U64 => src_req_le_U64
  | CLe, I8 => src_req_le_I8
  | CLe, I16 => src_req_le_I16
  | CLe, I32 => src_req_le_I32
  | CLe, I64 => src_req_le_I64
  | CGt, U8 => src_req_gt_U8
  | CGt, U16 => src_req_gt_U16
  | CGt, U32 => src_req_gt_U32
  | CGt, U64 => src_req_gt_U64
  | CGt, I8 => src_req_gt_I8
  | CGt, I16 => src_req_gt_I16
  | CGt, I32 => src_req_gt_I32
  | CGt, I64 => src_req_gt_I64
  | CGe, U8 => src_req_ge_U8
  | CGe, U16 => src_req_ge_U16
  | CGe, U32 => src_req_ge_U32
  | CGe, U64 => src_req_ge_U64
  | CGe, I8 => src_req_ge_I8
  | CGe, I16 => src_req_ge_I16
  | CGe, I32 => src_req_ge_I32
  | CGe, I64 => src_req_ge_I64
  end.
Definition src_req_in_range (T : ity) : list effect :=
  match T with
  | U8 => src_req_in_range_U8
  | U16 => src_req_in_range_U16
  | U32 => src_req_in_range_U32
  | U64 => src_req_in_range_U64
  | I8 => src_req_in_range_I8
  | I16 => src_req_in_range_I16
  | I32 => src_req_in_range_I32
  | I64 => src_req_in_range_I64
  end.

Lemma src_req_cmp_is_spec o T v1 v2 :
  in_range T v1 = true -> in_range T v2 = true ->
  effs_eval [("lhs.val", v1); ("rhs.val", v2)] (src_req_cmp o T) = Some [zb (ecmp o v1 v2)].
Proof.
  intros H1 H2. destruct T; destruct o; unfold src_req_cmp, src_req_eq_U8, src_req_eq_U16, src_req_eq_U32, src_req_eq_U64, src_req_eq_I8, src_req_eq_I16, src_req_eq_I32, src_req_eq_I64, src_req_ne_U8, src_req_ne_U16, src_req_ne_U32, src_req_ne_U64, src_req_ne_I8, src_req_ne_I16, src_req_ne_I32, src_req_ne_I64, src_req_lt_U8, src_req_lt_U16, src_req_lt_U32, src_req_lt_U64, src_req_lt_I8, src_req_lt_I16, src_req_lt_I32, src_req_lt_I64, src_req_le_U8, src_req_le_U16, src_req_le_U32, src_req_le_U64, src_req_le_I8, src_req_le_I16, src_req_le_I32, src_req_le_I64, src_req_gt_U8, src_req_gt_U16, src_req_gt_U32, src_req_gt_U64, src_req_gt_I8, src_req_gt_I16, src_req_gt_I32, src_req_gt_I64, src_req_ge_U8, src_req_ge_U16, src_req_ge_U32, src_req_ge_U64, src_req_ge_I8, src_req_ge_I16, src_req_ge_I32, src_req_ge_I64; run_src; reflexivity.
Qed.

Lemma src_req_in_range_spec T v mn mx :
  in_range T v = true -> in_range T mn = true -> in_range T mx = true ->
  effs_eval [("val", v); ("min_value()", mn); ("max_value()", mx)] (src_req_in_range T)
  = Some [zb ((mn <=? v)%Z && (v <=? mx)%Z)].
Proof.
  intros H1 H2 H3. destruct T; unfold src_req_in_range, src_req_in_range_U8, src_req_in_range_U16, src_req_in_range_U32, src_req_in_range_U64, src_req_in_range_I8, src_req_in_range_I16, src_req_in_range_I32, src_req_in_range_I64; run_src; cmps.
Qed.

(* ---- C15: equality of sets (friend operator== / operator!= of bitset_base<T>) ---- *)
Definition src_set_eq (T : ity) : list effect :=
  match T with U8 => src_set_eq_U8 | U16 => src_set_eq_U16 | U32 => src_set_eq_U32 | _ => src_set_eq_U64 end.
Definition src_set_ne (T : ity) : list effect :=
  match T with U8 => src_set_ne_U8 | U16 => src_set_ne_U16 | U32 => src_set_ne_U32 | _ => src_set_ne_U64 end.

Lemma src_set_eq_is_value_eq T a b :
  is_set_type T = true -> in_range T a = true -> in_range T b = true ->
  effs_eval [("lhs.bits", a); ("rhs.bits", b)] (src_set_eq T) = Some [zb (a =? b)%Z] /\
  effs_eval [("lhs.bits", a); ("rhs.bits", b)] (src_set_ne T) = Some [zb (negb (a =? b)%Z)].
Proof.
  intros HT Ha Hb.
  destruct T; try discriminate HT; unfold src_set_eq, src_set_ne, src_set_eq_U8, src_set_eq_U16, src_set_eq_U32,
    src_set_eq_U64, src_set_ne_U8, src_set_ne_U16, src_set_ne_U32, src_set_ne_U64; split; run_src; reflexivity.
Qed.

(* equality is consistent with the choices: two sets compare equal exactly when every choice getter agrees *)
Theorem src_set_equality_consistent T a b :
  is_set_type T = true -> in_range T a = true -> in_range T b = true ->
  (effs_eval [("lhs.bits", a); ("rhs.bits", b)] (src_set_eq T) = Some [1] <->
   forall n, 0 <= n < CInt.bits T ->
     effs_eval [("bits", a); ("n", n)] (src_get_bit T) = effs_eval [("bits", b); ("n", n)] (src_get_bit T)).
Proof.
  intros HT Ha Hb. destruct (src_set_eq_is_value_eq T a b HT Ha Hb) as [He _]. rewrite He. split.
  - destruct (Z.eqb_spec a b) as [->|Hne]; [intros _ n _; reflexivity|intros H; discriminate H].
  - intros H. assert (a = b) as ->.
    { apply (raw_value_determined_by_bits T a b HT Ha Hb). intros n Hn.
      pose proof (H n Hn) as Hg.
      rewrite !src_get_bit_is_testbit in Hg by assumption.
      rewrite !(get_bit_is_testbit T _ n HT Hn) by assumption.
      destruct (Z.testbit a n), (Z.testbit b n); cbn in Hg; try reflexivity; discriminate Hg. }
    rewrite Z.eqb_refl. reflexivity.
Qed.
