(* CompileProofs.v — proofs of the statements of CompileSpec.v: every schema
   the layout model accepts compiles to tables satisfying the hypotheses of the
   runtime theorems. *)
From Coq Require Import ZArith List Bool Lia.
From Sbepp Require Import CInt Bytes Msg Layout Wire MsgSpec LayoutProofs
  Cursor CursorSpec Checked ScriptSpec Compile CompileSpec.
Import ListNotations.
Local Open Scope Z_scope.

(* ------------------------------------------------------------------ *)
(* mutual induction over schema levels                                 *)
(* ------------------------------------------------------------------ *)

Scheme slevel_mut := Induction for slevel Sort Prop
with sgroups_mut := Induction for sgroups Sort Prop.

(* ------------------------------------------------------------------ *)
(* unfolding lemmas (the mutual fixpoints do not [cbn] nicely)         *)
(* ------------------------------------------------------------------ *)

(* the anonymous [fix dl] of [compile_level], named *)
Definition dl_types : list prim -> option (list ity) :=
  fix dl (ds : list prim) : option (list ity) :=
    match ds with
    | [] => Some []
    | p :: r => match prim_ity p, dl r with
                | Some t, Some ts => Some (t :: ts)
                | _, _ => None
                end
    end.

Lemma compile_level_eq fs gs ds :
  compile_level (SLevel fs gs ds) =
  match layout_fields fs 0, compile_groups gs, dl_types ds with
  | Some (fl, minbl), Some cgs, Some cds => Some (Level fl cgs cds, minbl)
  | _, _, _ => None
  end.
Proof. reflexivity. Qed.

Lemma compile_groups_cons d bl l rest :
  compile_groups (SGCons d bl l rest) =
  match compile_dim d, compile_level l, compile_groups rest with
  | Some cd, Some (cl, minbl), Some crest =>
    match block_length bl minbl with
    | Some cbl => Some (GCons cd cbl cl crest)
    | None => None
    end
  | _, _, _ => None
  end.
Proof. reflexivity. Qed.

Lemma compile_clevel_eq fs gs ds hdr :
  compile_clevel (SLevel fs gs ds) hdr =
  match cursor_fields fs hdr 0, compile_cgroups gs with
  | Some cl, Some cgs =>
    Some (CLevel (map (fun p => cacc_of (fst p) (snd p)) (combine cl (nonconst_views fs))) cgs)
  | _, _ => None
  end.
Proof. reflexivity. Qed.

Lemma compile_cgroups_cons d bl l rest :
  compile_cgroups (SGCons d bl l rest) =
  match compile_clevel l 0, compile_cgroups rest with
  | Some a, Some b => Some (CGCons a b)
  | _, _ => None
  end.
Proof. reflexivity. Qed.

Lemma slevel_ok_eq fs gs ds :
  slevel_ok (SLevel fs gs ds) = (Forall sfield_ok fs /\ sgroups_ok gs).
Proof. reflexivity. Qed.

Lemma sgroups_ok_cons d bl l rest :
  sgroups_ok (SGCons d bl l rest) =
  (sdim_ok d /\ (match bl with Some b => 0 <= b | None => True end) /\
   slevel_ok l /\ sgroups_ok rest).
Proof. reflexivity. Qed.

Lemma wf_clevel_eq hdr fs gs ds al cgs :
  wf_clevel hdr (Level fs gs ds) (CLevel al cgs) =
  (accs_ok hdr 0 fs al /\ wf_cgroups gs cgs).
Proof. reflexivity. Qed.

Lemma wf_cgroups_cons d cbl l rest cl crest :
  wf_cgroups (GCons d cbl l rest) (CGCons cl crest) =
  (wf_clevel 0 l cl /\ wf_cgroups rest crest).
Proof. reflexivity. Qed.

Lemma wf_table_level_eq fs gs ds :
  wf_table_level (Level fs gs ds) =
  (Forall (fun f => 0 <= f_off f /\ 0 <= f_size f) fs /\
   Forall (fun t => is_signed t = false) ds /\ wf_table_groups gs).
Proof. reflexivity. Qed.

Lemma wf_table_groups_cons d cbl l rest :
  wf_table_groups (GCons d cbl l rest) =
  (wf_dim d /\ 0 <= cbl /\ wf_table_level l /\ wf_table_groups rest).
Proof. reflexivity. Qed.

(* inversion of successful compilations *)
Lemma compile_level_inv fs gs ds lv minbl :
  compile_level (SLevel fs gs ds) = Some (lv, minbl) ->
  exists fl cgs cds,
    layout_fields fs 0 = Some (fl, minbl) /\ compile_groups gs = Some cgs /\
    dl_types ds = Some cds /\ lv = Level fl cgs cds.
Proof.
  rewrite compile_level_eq.
  destruct (layout_fields fs 0) as [[fl e]|]; [|discriminate].
  destruct (compile_groups gs) as [cgs|]; [|discriminate].
  destruct (dl_types ds) as [cds|]; [|discriminate].
  intros H; inversion H; subst. exists fl, cgs, cds. auto.
Qed.

Lemma compile_groups_inv d bl l rest cgs :
  compile_groups (SGCons d bl l rest) = Some cgs ->
  exists cd cl minbl crest cbl,
    compile_dim d = Some cd /\ compile_level l = Some (cl, minbl) /\
    compile_groups rest = Some crest /\ block_length bl minbl = Some cbl /\
    cgs = GCons cd cbl cl crest.
Proof.
  rewrite compile_groups_cons.
  destruct (compile_dim d) as [cd|]; [|discriminate].
  destruct (compile_level l) as [[cl minbl]|]; [|discriminate].
  destruct (compile_groups rest) as [crest|]; [|discriminate].
  destruct (block_length bl minbl) as [cbl|] eqn:Eb; [|discriminate].
  intros H; inversion H; subst. exists cd, cl, minbl, crest, cbl. auto 10.
Qed.

Lemma compile_clevel_inv fs gs ds hdr cl :
  compile_clevel (SLevel fs gs ds) hdr = Some cl ->
  exists cfl ccs,
    cursor_fields fs hdr 0 = Some cfl /\ compile_cgroups gs = Some ccs /\
    cl = CLevel (map (fun p => cacc_of (fst p) (snd p)) (combine cfl (nonconst_views fs))) ccs.
Proof.
  rewrite compile_clevel_eq.
  destruct (cursor_fields fs hdr 0) as [cfl|]; [|discriminate].
  destruct (compile_cgroups gs) as [ccs|]; [|discriminate].
  intros H; inversion H; subst. exists cfl, ccs. auto.
Qed.

Lemma compile_cgroups_inv d bl l rest ccs :
  compile_cgroups (SGCons d bl l rest) = Some ccs ->
  exists a b, compile_clevel l 0 = Some a /\ compile_cgroups rest = Some b /\
    ccs = CGCons a b.
Proof.
  rewrite compile_cgroups_cons.
  destruct (compile_clevel l 0) as [a|]; [|discriminate].
  destruct (compile_cgroups rest) as [b|]; [|discriminate].
  intros H; inversion H; subst. exists a, b. auto.
Qed.

(* ------------------------------------------------------------------ *)
(* 1. totality of the cursor table                                     *)
(* ------------------------------------------------------------------ *)

Theorem compile_clevel_total : stmt_compile_clevel_total.
Proof.
  unfold stmt_compile_clevel_total.
  apply (slevel_mut
    (fun l => forall hdr lv minbl, compile_level l = Some (lv, minbl) ->
       exists cl, compile_clevel l hdr = Some cl)
    (fun gs => forall cgs, compile_groups gs = Some cgs ->
       exists ccs, compile_cgroups gs = Some ccs)).
  - intros fs gs IHgs ds hdr lv minbl H.
    apply compile_level_inv in H.
    destruct H as [fl [cgs [cds [Hl [Hg [_ _]]]]]].
    destruct (cursor_offsets_agree fs hdr 0 fl minbl Hl) as [cfl [Hc _]].
    destruct (IHgs _ Hg) as [ccs Hcc].
    rewrite compile_clevel_eq, Hc, Hcc. eexists; reflexivity.
  - intros cgs _. exists CGNil. reflexivity.
  - intros d bl l IHl rest IHrest cgs H.
    apply compile_groups_inv in H.
    destruct H as [cd [cl [minbl [crest [cbl [_ [Hl [Hr _]]]]]]]].
    destruct (IHl 0 _ _ Hl) as [a Ha].
    destruct (IHrest _ Hr) as [b Hb].
    rewrite compile_cgroups_cons, Ha, Hb. eexists; reflexivity.
Qed.
Print Assumptions compile_clevel_total.

(* ------------------------------------------------------------------ *)
(* 2. the cursor table is consistent with the compiled table           *)
(* ------------------------------------------------------------------ *)

Lemma nonconst_views_const f rest :
  sf_const f = true -> nonconst_views (f :: rest) = nonconst_views rest.
Proof. intros H. unfold nonconst_views. cbn [filter]. rewrite H. reflexivity. Qed.

Lemma nonconst_views_nonconst f rest :
  sf_const f = false ->
  nonconst_views (f :: rest) = is_view_type (sf_type f) :: nonconst_views rest.
Proof. intros H. unfold nonconst_views. cbn [filter]. rewrite H. reflexivity. Qed.

(* the accessor list built from [cursor_fields] satisfies [accs_ok] against
   the field list built from [layout_fields] *)
Lemma accs_ok_compile : forall fs hdr cur fl e cfl,
  Forall sfield_ok fs ->
  layout_fields fs cur = Some (fl, e) -> cursor_fields fs hdr cur = Some cfl ->
  accs_ok hdr cur fl
    (map (fun p => cacc_of (fst p) (snd p)) (combine cfl (nonconst_views fs))).
Proof.
  induction fs as [|f rest IH]; intros hdr cur fl e cfl Hok Hl Hc;
    cbn [layout_fields] in Hl; cbn [cursor_fields] in Hc.
  - inversion Hl; inversion Hc; subst. cbn. exact I.
  - inversion Hok as [|? ? Hf Hrest]; subst.
    destruct (type_size (sf_type f)) as [sz|] eqn:Ets; [|discriminate].
    destruct (sf_const f) eqn:Ec.
    + rewrite (nonconst_views_const _ _ Ec). eapply IH; eassumption.
    + rewrite (nonconst_views_nonconst _ _ Ec).
      destruct (place (sf_off f) cur sz) as [[off cur']|] eqn:Ep; [|discriminate].
      destruct (layout_fields rest cur') as [[fl' e']|] eqn:El; [|discriminate].
      destruct (cursor_fields rest hdr cur') as [cfl'|] eqn:Ecf; [|discriminate].
      inversion Hl; inversion Hc; subst; clear Hl Hc.
      apply place_some in Ep. destruct Ep as [_ [Hle ->]].
      assert (Hsz : 0 <= sz) by (eapply type_size_nonneg; [apply Hf|exact Ets]).
      cbn [combine map fst snd accs_ok cacc_of ca_rel ca_abs ca_size ca_last
           c_rel c_abs c_size c_last f_off f_size].
      repeat split; try lia.
      * eapply layout_all_const; eassumption.
      * eapply IH; eassumption.
Qed.

Theorem compile_clevel_wf : stmt_compile_clevel_wf.
Proof.
  unfold stmt_compile_clevel_wf.
  apply (slevel_mut
    (fun l => forall hdr lv minbl cl, slevel_ok l ->
       compile_level l = Some (lv, minbl) -> compile_clevel l hdr = Some cl ->
       wf_clevel hdr lv cl)
    (fun gs => forall cgs ccs, sgroups_ok gs ->
       compile_groups gs = Some cgs -> compile_cgroups gs = Some ccs ->
       wf_cgroups cgs ccs)).
  - intros fs gs IHgs ds hdr lv minbl cl Hok H Hc.
    rewrite slevel_ok_eq in Hok. destruct Hok as [Hfs Hgs].
    apply compile_level_inv in H.
    destruct H as [fl [cgs [cds [Hl [Hg [_ ->]]]]]].
    apply compile_clevel_inv in Hc.
    destruct Hc as [cfl [ccs [Hcf [Hcg ->]]]].
    rewrite wf_clevel_eq. split.
    + eapply accs_ok_compile; eassumption.
    + eapply IHgs; eassumption.
  - intros cgs ccs _ H Hc. cbn in H, Hc. inversion H; inversion Hc; subst. exact I.
  - intros d bl l IHl rest IHrest cgs ccs Hok H Hc.
    rewrite sgroups_ok_cons in Hok. destruct Hok as [_ [_ [Hokl Hokr]]].
    apply compile_groups_inv in H.
    destruct H as [cd [cl [minbl [crest [cbl [_ [Hl [Hr [_ ->]]]]]]]]].
    apply compile_cgroups_inv in Hc.
    destruct Hc as [a [b [Ha [Hb ->]]]].
    rewrite wf_cgroups_cons. split.
    + eapply IHl; eassumption.
    + eapply IHrest; eassumption.
Qed.
Print Assumptions compile_clevel_wf.

(* ------------------------------------------------------------------ *)
(* composite members: offsets of the members the runtime reads         *)
(* ------------------------------------------------------------------ *)

Lemma prim_ity_spec p t : prim_ity p = Some t ->
  is_signed t = false /\ tbytes t = Z.of_nat (prim_size p).
Proof. destruct p; cbn; intros H; inversion H; subst; split; reflexivity. Qed.

(* every member offset is at or after the running offset *)
Lemma member_offsets_lower : forall ms cur offs,
  members_ok ms -> member_offsets ms cur = Some offs ->
  forall k o, nth_error offs k = Some (Some o) -> cur <= o.
Proof.
  induction ms as [|[o c t] r IH]; intros cur offs Hok Hm k o' Hk.
  - cbn in Hm. inversion Hm; subst. destruct k; discriminate.
  - rewrite members_ok_cons in Hok. destruct Hok as [_ [Hokt Hokr]].
    cbn [member_offsets] in Hm.
    destruct (type_size t) as [tsz|] eqn:Ets; [|discriminate].
    destruct c.
    + destruct (member_offsets r cur) as [offs'|] eqn:Em; [|discriminate].
      cbn in Hm. inversion Hm; subst; clear Hm.
      destruct k as [|k]; [discriminate|]. cbn [nth_error] in Hk.
      eapply IH; eassumption.
    + destruct (place o cur tsz) as [[off cur']|] eqn:Ep; [|discriminate].
      destruct (member_offsets r cur') as [offs'|] eqn:Em; [|discriminate].
      cbn in Hm. inversion Hm; subst; clear Hm.
      apply place_some in Ep. destruct Ep as [_ [Hle ->]].
      pose proof (type_size_nonneg _ _ Hokt Ets) as Hts.
      destruct k as [|k]; cbn [nth_error] in Hk.
      * inversion Hk; subst. lia.
      * specialize (IH _ _ Hokr Em _ _ Hk). lia.
Qed.

(* two non-constant members: the later one starts after the earlier one ends *)
Lemma member_offsets_sep : forall ms cur offs,
  members_ok ms -> member_offsets ms cur = Some offs ->
  forall i j oi oj mi szi, (i < j)%nat ->
    nth_error offs i = Some (Some oi) -> nth_error offs j = Some (Some oj) ->
    nth_error ms i = Some mi -> type_size (sm_type mi) = Some szi ->
    oi + szi <= oj.
Proof.
  induction ms as [|[o c t] r IH]; intros cur offs Hok Hm i j oi oj mi szi Hlt Hi Hj Hmi Hsz.
  - destruct i; discriminate.
  - rewrite members_ok_cons in Hok. destruct Hok as [_ [Hokt Hokr]].
    cbn [member_offsets] in Hm.
    destruct (type_size t) as [tsz|] eqn:Ets; [|discriminate].
    destruct j as [|j]; [lia|].
    destruct c.
    + destruct (member_offsets r cur) as [offs'|] eqn:Em; [|discriminate].
      cbn in Hm. inversion Hm; subst; clear Hm.
      destruct i as [|i]; [discriminate|].
      cbn [nth_error] in Hi, Hj, Hmi.
      eapply (IH _ _ Hokr Em i j); try eassumption. lia.
    + destruct (place o cur tsz) as [[off cur']|] eqn:Ep; [|discriminate].
      destruct (member_offsets r cur') as [offs'|] eqn:Em; [|discriminate].
      cbn in Hm. inversion Hm; subst; clear Hm.
      apply place_some in Ep. destruct Ep as [_ [Hle ->]].
      destruct i as [|i]; cbn [nth_error] in Hi, Hj, Hmi.
      * inversion Hi; inversion Hmi; subst. cbn [sm_type] in Hsz.
        rewrite Ets in Hsz. inversion Hsz; subst.
        eapply member_offsets_lower; eassumption.
      * eapply (IH _ _ Hokr Em i j); try eassumption. lia.
Qed.

Lemma nth_member_off_inv ms k o t :
  nth_member_off ms k = Some (o, t) ->
  exists offs m p, member_offsets ms 0 = Some offs /\ nth_error ms k = Some m /\
    nth_error offs k = Some (Some o) /\ sm_type m = TScalar p /\ prim_ity p = Some t.
Proof.
  unfold nth_member_off.
  destruct (member_offsets ms 0) as [offs|] eqn:Em; [|discriminate].
  destruct (nth_error ms k) as [m|] eqn:En; [|discriminate].
  destruct (nth_error offs k) as [[o'|]|] eqn:Eo; try discriminate.
  destruct (sm_type m) as [p|p n|ms'] eqn:Et; cbn [scalar_ity]; try discriminate.
  destruct (prim_ity p) as [t'|] eqn:Ep; [|discriminate].
  intros H; inversion H; subst. exists offs, m, p. repeat split; auto.
Qed.

(* a member the runtime reads: unsigned, inside the composite *)
Lemma nth_member_off_inside ms k o t sz :
  stype_ok (TComposite ms) -> type_size (TComposite ms) = Some sz ->
  nth_member_off ms k = Some (o, t) ->
  is_signed t = false /\ 0 <= o /\ o + tbytes t <= sz.
Proof.
  intros Hok Hs H. apply nth_member_off_inv in H.
  destruct H as [offs [m [p [Hm [Hn [Ho [Et Ep]]]]]]].
  apply prim_ity_spec in Ep. destruct Ep as [Hu Hb].
  destruct (member_offsets_in_order ms offs sz Hok Hm Hs) as [_ Hin].
  assert (Hsz : type_size (sm_type m) = Some (Z.of_nat (prim_size p)))
    by (rewrite Et; reflexivity).
  specialize (Hin _ _ _ _ Ho Hn Hsz). rewrite Hb. tauto.
Qed.

(* two different members the runtime reads do not overlap *)
Lemma nth_member_off_disjoint ms i j oi ti oj tj :
  stype_ok (TComposite ms) -> i <> j ->
  nth_member_off ms i = Some (oi, ti) -> nth_member_off ms j = Some (oj, tj) ->
  oi + tbytes ti <= oj \/ oj + tbytes tj <= oi.
Proof.
  intros Hok Hne Hi Hj. rewrite stype_ok_composite in Hok.
  apply nth_member_off_inv in Hi. apply nth_member_off_inv in Hj.
  destruct Hi as [offs [mi [pi [Hm [Hni [Hoi [Eti Epi]]]]]]].
  destruct Hj as [offs' [mj [pj [Hm' [Hnj [Hoj [Etj Epj]]]]]]].
  rewrite Hm in Hm'. inversion Hm'; subst offs'; clear Hm'.
  apply prim_ity_spec in Epi. destruct Epi as [_ Hbi].
  apply prim_ity_spec in Epj. destruct Epj as [_ Hbj].
  assert (Hszi : type_size (sm_type mi) = Some (tbytes ti))
    by (rewrite Eti, Hbi; reflexivity).
  assert (Hszj : type_size (sm_type mj) = Some (tbytes tj))
    by (rewrite Etj, Hbj; reflexivity).
  destruct (Nat.lt_ge_cases i j) as [Hlt|Hge].
  - left. eapply (member_offsets_sep ms 0 offs Hok Hm i j); eassumption.
  - right. assert (Hlt : (j < i)%nat) by lia.
    eapply (member_offsets_sep ms 0 offs Hok Hm j i); eassumption.
Qed.

(* ------------------------------------------------------------------ *)
(* 5. header fills                                                     *)
(* ------------------------------------------------------------------ *)

Theorem compile_fills_inside : stmt_compile_fills_inside.
Proof.
  unfold stmt_compile_fills_inside.
  intros ms fills. induction fills as [|[k v] rest IH]; intros cf sz Hok Hs H;
    cbn [compile_fills] in H.
  - inversion H; subst. cbn. split; [exact I|constructor].
  - destruct (nth_member_off ms k) as [[o t]|] eqn:En; [|discriminate].
    destruct (compile_fills ms rest) as [r|] eqn:Er; [|discriminate].
    inversion H; subst; clear H.
    destruct (IH _ _ Hok Hs eq_refl) as [IH1 IH2].
    destruct (nth_member_off_inside _ _ _ _ _ Hok Hs En) as [Hu [Ho Hle]].
    cbn [fills_inside]. split; [tauto|]. constructor; assumption.
Qed.
Print Assumptions compile_fills_inside.

(* ------------------------------------------------------------------ *)
(* 3. dimensions                                                       *)
(* ------------------------------------------------------------------ *)

Lemma compile_dim_inv d cd :
  compile_dim d = Some cd ->
  exists sz blo blt no nt fl,
    type_size (TComposite (sd_members d)) = Some sz /\
    nth_member_off (sd_members d) (sd_bl_idx d) = Some (blo, blt) /\
    nth_member_off (sd_members d) (sd_n_idx d) = Some (no, nt) /\
    compile_fills (sd_members d) (sd_fills d) = Some fl /\
    cd = {| d_size := sz; d_bl_off := blo; d_bl_t := blt; d_n_off := no;
            d_n_t := nt; d_fills := fl |}.
Proof.
  unfold compile_dim.
  destruct (type_size (TComposite (sd_members d))) as [sz|]; [|discriminate].
  destruct (nth_member_off (sd_members d) (sd_bl_idx d)) as [[blo blt]|]; [|discriminate].
  destruct (nth_member_off (sd_members d) (sd_n_idx d)) as [[no nt]|]; [|discriminate].
  destruct (compile_fills (sd_members d) (sd_fills d)) as [fl|]; [|discriminate].
  intros H; inversion H; subst. exists sz, blo, blt, no, nt, fl. auto 10.
Qed.

Theorem compile_dim_wf : stmt_compile_dim_wf.
Proof.
  unfold stmt_compile_dim_wf. intros d cd [Hok Hne] H.
  apply compile_dim_inv in H.
  destruct H as [sz [blo [blt [no [nt [fl [Hs [Hb [Hn [_ ->]]]]]]]]]].
  destruct (nth_member_off_inside _ _ _ _ _ Hok Hs Hb) as [Hub [Hb0 Hb1]].
  destruct (nth_member_off_inside _ _ _ _ _ Hok Hs Hn) as [Hun [Hn0 Hn1]].
  pose proof (nth_member_off_disjoint _ _ _ _ _ _ _ Hok Hne Hb Hn) as Hd.
  pose proof (type_size_nonneg _ _ Hok Hs) as Hsz.
  unfold wf_dim, is_unsigned_ity.
  cbn [d_size d_bl_off d_bl_t d_n_off d_n_t].
  repeat split; assumption.
Qed.
Print Assumptions compile_dim_wf.

(* ------------------------------------------------------------------ *)
(* 4. the compiled level table                                         *)
(* ------------------------------------------------------------------ *)

Lemma dl_types_unsigned : forall ds cds,
  dl_types ds = Some cds -> Forall (fun t => is_signed t = false) cds.
Proof.
  induction ds as [|p r IH]; intros cds H; cbn [dl_types] in H.
  - inversion H; constructor.
  - destruct (prim_ity p) as [t|] eqn:Ep; [|discriminate].
    fold dl_types in H.
    destruct (dl_types r) as [ts|] eqn:Er; [|discriminate].
    inversion H; subst. constructor; [|apply IH; reflexivity].
    apply prim_ity_spec in Ep. tauto.
Qed.

Lemma block_length_ge explicit minimal b :
  block_length explicit minimal = Some b -> minimal <= b.
Proof. intros H. apply block_length_covers in H. tauto. Qed.

Theorem compile_level_table_wf : stmt_compile_level_table_wf.
Proof.
  unfold stmt_compile_level_table_wf.
  apply (slevel_mut
    (fun l => forall lv minbl, slevel_ok l -> compile_level l = Some (lv, minbl) ->
       wf_table_level lv /\ 0 <= minbl /\
       Forall (fun f => 0 <= f_off f /\ f_off f + f_size f <= minbl) (level_fields lv))
    (fun gs => forall cgs, sgroups_ok gs -> compile_groups gs = Some cgs ->
       wf_table_groups cgs)).
  - intros fs gs IHgs ds lv minbl Hok H.
    rewrite slevel_ok_eq in Hok. destruct Hok as [Hfs Hgs].
    apply compile_level_inv in H.
    destruct H as [fl [cgs [cds [Hl [Hg [Hd ->]]]]]].
    destruct (layout_no_overlap fs 0 fl minbl Hfs ltac:(lia) Hl) as [Hord [Hmin Hin]].
    rewrite wf_table_level_eq. cbn [level_fields].
    split; [split; [|split]|split].
    + (* offsets and sizes non-negative *)
      clear Hl Hin Hmin. assert (H0 : 0 <= 0) by lia. revert H0 Hord.
      generalize 0 at 2 3 as cur. induction fl as [|f r IHr]; intros cur Hcur Hord.
      * constructor.
      * cbn [fields_in_order] in Hord. destruct Hord as [H1 [H2 H3]].
        constructor; [lia|]. apply (IHr (f_off f + f_size f)); [lia|exact H3].
    + eapply dl_types_unsigned; eassumption.
    + eapply IHgs; eassumption.
    + exact Hmin.
    + apply Forall_forall. intros f Hf. apply Hin in Hf. lia.
  - intros cgs _ H. cbn in H. inversion H; subst. exact I.
  - intros d bl l IHl rest IHrest cgs Hok H.
    rewrite sgroups_ok_cons in Hok. destruct Hok as [Hokd [_ [Hokl Hokr]]].
    apply compile_groups_inv in H.
    destruct H as [cd [cl [minbl [crest [cbl [Hd [Hl [Hr [Hb ->]]]]]]]]].
    destruct (IHl _ _ Hokl Hl) as [Hwl [Hmin _]].
    apply block_length_ge in Hb.
    rewrite wf_table_groups_cons.
    split; [apply (compile_dim_wf d cd Hokd Hd)|].
    split; [lia|]. split; [exact Hwl|]. eapply IHrest; eassumption.
Qed.
Print Assumptions compile_level_table_wf.

(* ------------------------------------------------------------------ *)
(* 6. the message header                                               *)
(* ------------------------------------------------------------------ *)

Theorem compile_message_header_ok : stmt_compile_message_header_ok.
Proof.
  unfold stmt_compile_message_header_ok. intros sm m Hok Hlok _ H.
  unfold compile_message in H.
  destruct (type_size (TComposite (sm_header sm))) as [hsz|] eqn:Es; [|discriminate].
  destruct (nth_member_off (sm_header sm) (sm_bl_idx sm)) as [[blo blt]|] eqn:Eb; [|discriminate].
  destruct (compile_level (sm_level sm)) as [[cl minbl]|] eqn:El; [|discriminate].
  destruct (compile_fills (sm_header sm) (sm_fills sm)) as [fl|] eqn:Ef; [|discriminate].
  destruct (block_length (sm_block_length sm) minbl) as [cbl|] eqn:Ebl; [|discriminate].
  inversion H; subst; clear H.
  cbn [m_bl_t m_bl_off m_hdr_size m_cbl m_level].
  destruct (nth_member_off_inside _ _ _ _ _ Hok Es Eb) as [Hu [H0 H1]].
  destruct (compile_level_table_wf _ _ _ Hlok El) as [Hw [Hmin Hin]].
  apply block_length_ge in Ebl.
  repeat split; try assumption; try lia.
  eapply Forall_impl; [|exact Hin]. cbn beta. intros f Hf. lia.
Qed.
Print Assumptions compile_message_header_ok.
