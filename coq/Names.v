(* Names.v — model of sbeppc's naming decisions.

   names_generator.hpp:
     [make_mangled_name]        first "<name>_<n>", n = 0,1,.., not in any of
                                the reserved sets
     [generate_type_names]      generate_type_names + handle_composite_elements
     [generate_message_names]   generate_message_names + handle_message_level
                                + make_mangled_group_info
   traits_generator.hpp:
     [message_size_params]      parameter names of message_traits::size_bytes
     [group_size_params]        parameter names of group_traits::size_bytes
                                (make_unique_param_name, FIXED code; the code
                                before the fix is in [Legacy])

   std::unordered_set<std::string> is a [list string] used only through
   membership; schema->types is an unordered_map, so the public encodings are
   given to the model in the iteration order of the run ([types] argument) and
   the theorems hold for every order.

   Definitions only (extracted).  Proofs: NamesProofs.v. *)
From Coq Require Import ZArith NArith List Bool Ascii String.
From Sbepp Require Import Literals.
Import ListNotations.
Local Open Scope string_scope.

Definition mem (x : string) (l : list string) : bool := existsb (String.eqb x) l.

Definition render_nat (n : nat) : string := render_N (N.of_nat n).

(* fmt::format("{}_{}", name, n) *)
Definition suffixed (name : string) (n : nat) : string := name ++ "_" ++ render_nat n.

(* the loop `for(n = 0; n != max; n++) if(!reserved(candidate n)) return candidate n;`
   [first_free bad k n]: the first m in n, n+1, .., n+k-1 with [bad m = false]
   (n+k when there is none: NamesProofs shows this is never reached with the
   bounds used below, which is why the throw_error after the loop is dead) *)
Fixpoint first_free (bad : nat -> bool) (k n : nat) : nat :=
  match k with
  | O => n
  | S k' => if bad n then first_free bad k' (S n) else n
  end.

Definition make_mangled_name (name : string) (reserved : list string) : string :=
  suffixed name (first_free (fun n => mem (suffixed name n) reserved) (S (List.length reserved)) 0).

(* ------------------------------------------------------------------ *)
(* types                                                                *)
(* ------------------------------------------------------------------ *)
Inductive tkind := KConstOrArray | KRequired | KOptional.

Inductive enc :=
| EType (name : string) (k : tkind)
| EEnum (name : string) (values : list string)
| ESet (name : string) (choices : list string)
| EComposite (name : string) (elems : list elem)
with elem :=
| ERef (name : string)
| EEnc (e : enc).

Definition enc_name (e : enc) : string :=
  match e with EType n _ | EEnum n _ | ESet n _ | EComposite n _ => n end.
Definition elem_name (x : elem) : string :=
  match x with ERef n => n | EEnc e => enc_name e end.

(* get_member_names (FIXED code): for a scalar type the names the class gets
   from required_base / optional_base count as well, a class named like one of
   them hides it (injected class name) *)
Definition enc_members (e : enc) : list string :=
  match e with
  | EType _ KConstOrArray => []
  | EType _ KRequired => ["value_type"; "value"; "in_range"; "min_value"; "max_value"]
  | EType _ KOptional => ["value_type"; "value"; "in_range"; "min_value"; "max_value";
                          "value_or"; "has_value"; "null_value"]
  | EEnum _ vs => vs
  | ESet _ cs => cs
  | EComposite _ es => map elem_name es
  end.

(* public names of flat_group_base / nested_group_base: a group class named
   like one of them hides it (FIXED code: such a group gets a mangled name) *)
Definition group_base_names : list string :=
  ["value_type"; "reference"; "sbe_size_type"; "size_type"; "difference_type"; "iterator";
   "cursor_range_t"; "cursor_iterator"; "sbe_size"; "size"; "resize"; "max_size"; "empty"; "clear";
   "begin"; "end"; "front"; "back"; "cursor_range"; "cursor_subrange"; "cursor_begin"; "cursor_end"].

(* one naming decision: [a_public] public encoding (namespace types / alias)
   or one defined inside a composite (namespace detail::types); [a_impl] is
   the class name emitted; [a_mangled] = ctx.mangled_name has a value *)
Record assign := { a_public : bool; a_name : string; a_impl : string;
                   a_mangled : bool; a_members : list string }.

(* state: mangled_type_names, decisions so far (reversed) *)
Definition tstate := (list string * list assign)%type.

(* handle_composite_elements, one non-ref element *)
Definition nested_step (non_mangled : list string) (e : enc) (st : tstate) : tstate :=
  let '(mangled, out) := st in
  let members := enc_members e in
  let name := enc_name e in
  if mem name members || mem name mangled then
    let m := make_mangled_name name (members ++ mangled ++ non_mangled) in
    (m :: mangled, {| a_public := false; a_name := name; a_impl := m; a_mangled := true;
                      a_members := members |} :: out)
  else
    (name :: mangled, {| a_public := false; a_name := name; a_impl := name; a_mangled := false;
                         a_members := members |} :: out).

Fixpoint handle_enc_nested (non_mangled : list string) (e : enc) (st : tstate) : tstate :=
  let st1 := nested_step non_mangled e st in
  match e with
  | EComposite _ es =>
    (fix go (es : list elem) (st : tstate) : tstate :=
       match es with
       | [] => st
       | ERef _ :: r => go r st
       | EEnc x :: r => go r (handle_enc_nested non_mangled x st)
       end) es st1
  | _ => st1
  end.

Fixpoint handle_elems (non_mangled : list string) (es : list elem) (st : tstate) : tstate :=
  match es with
  | [] => st
  | ERef _ :: r => handle_elems non_mangled r st
  | EEnc x :: r => handle_elems non_mangled r (handle_enc_nested non_mangled x st)
  end.

(* generate_type_names, one public encoding *)
Definition public_step (non_mangled : list string) (e : enc) (st : tstate) : tstate :=
  let '(mangled, out) := st in
  let members := enc_members e in
  let name := enc_name e in
  let st1 :=
    if mem name members then
      let m := make_mangled_name name (members ++ mangled ++ non_mangled) in
      (m :: mangled, {| a_public := true; a_name := name; a_impl := m; a_mangled := true;
                        a_members := members |} :: out)
    else
      (mangled, {| a_public := true; a_name := name; a_impl := name; a_mangled := false;
                   a_members := members |} :: out) in
  match e with
  | EComposite _ es => handle_elems non_mangled es st1
  | _ => st1
  end.

Record type_names := {
  tn_assigns : list assign;             (* in decision order *)
  tn_tag_types : option string }.       (* mangled_tag_types_name *)

Definition generate_type_names (types : list enc) : type_names :=
  let non_mangled := map enc_name types in
  let st := fold_left (fun st e => public_step non_mangled e st) types ([], []) in
  {| tn_assigns := rev (snd st);
     tn_tag_types := if mem "types" non_mangled
                     then Some (make_mangled_name "types" non_mangled) else None |}.

(* ------------------------------------------------------------------ *)
(* messages                                                             *)
(* ------------------------------------------------------------------ *)
Inductive group := Group (name : string) (fields : list string) (groups : list group) (data : list string).

Definition group_name (g : group) := match g with Group n _ _ _ => n end.
Definition group_subgroups (g : group) := match g with Group _ _ gs _ => gs end.
(* get_member_names(level_members) *)
Definition level_names (fields : list string) (groups : list group) (data : list string) : list string :=
  (fields ++ map group_name groups ++ data)%list.
Definition group_members (g : group) : list string :=
  match g with Group _ fs gs ds => level_names fs gs ds end.

Record message := { m_name : string; m_fields : list string; m_groups : list group; m_data : list string }.
Definition message_members (m : message) : list string :=
  level_names (m_fields m) (m_groups m) (m_data m).

Definition entry_of (group_name : string) : string := group_name ++ "_entry".

(* message or group decision.  [g_kind]: true = message *)
Record massign := { g_is_message : bool; g_name : string; g_impl : string; g_entry : string;
                    g_mangled : bool; g_members : list string }.
Definition mstate := (list string * list massign)%type.

(* make_mangled_group_info *)
Definition group_candidate_bad (name : string) (entry_members reserved : list string) (n : nat) : bool :=
  let gname := suffixed name n in
  let ename := entry_of gname in
  mem gname entry_members || mem gname reserved || mem ename entry_members || mem ename reserved.

Definition make_mangled_group_name (name : string) (entry_members reserved : list string) : string :=
  suffixed name (first_free (group_candidate_bad name entry_members reserved)
                            (S (2 * List.length (entry_members ++ reserved))) 0).

Definition group_step (non_mangled : list string) (g : group) (st : mstate) : mstate :=
  let '(mangled, out) := st in
  let name := group_name g in
  let entry_members := group_members g in
  let entry_name := entry_of name in
  if mem name mangled || mem entry_name mangled || mem entry_name entry_members || mem name entry_members
     || mem name group_base_names
  then
    let gn := make_mangled_group_name name entry_members (mangled ++ non_mangled) in
    (entry_of gn :: gn :: mangled,
     {| g_is_message := false; g_name := name; g_impl := gn; g_entry := entry_of gn;
        g_mangled := true; g_members := entry_members |} :: out)
  else
    (entry_name :: name :: mangled,
     {| g_is_message := false; g_name := name; g_impl := name; g_entry := entry_name;
        g_mangled := false; g_members := entry_members |} :: out).

(* handle_message_level *)
Fixpoint handle_group (non_mangled : list string) (g : group) (st : mstate) : mstate :=
  let st1 := group_step non_mangled g st in
  match g with
  | Group _ _ gs _ =>
    (fix go (gs : list group) (st : mstate) : mstate :=
       match gs with
       | [] => st
       | x :: r => go r (handle_group non_mangled x st)
       end) gs st1
  end.

Fixpoint handle_groups (non_mangled : list string) (gs : list group) (st : mstate) : mstate :=
  match gs with
  | [] => st
  | x :: r => handle_groups non_mangled r (handle_group non_mangled x st)
  end.

Definition message_step (non_mangled : list string) (m : message) (st : mstate) : mstate :=
  let '(mangled, out) := st in
  let members := message_members m in
  let name := m_name m in
  let st1 :=
    if mem name members then
      let mn := make_mangled_name name (members ++ mangled ++ non_mangled) in
      (mn :: mangled, {| g_is_message := true; g_name := name; g_impl := mn; g_entry := "";
                         g_mangled := true; g_members := members |} :: out)
    else
      (mangled, {| g_is_message := true; g_name := name; g_impl := name; g_entry := "";
                   g_mangled := false; g_members := members |} :: out) in
  handle_groups non_mangled (m_groups m) st1.

Record message_names := {
  mn_assigns : list massign;
  mn_tag_messages : option string }.

Definition generate_message_names (msgs : list message) : message_names :=
  let non_mangled := map m_name msgs in
  let st := fold_left (fun st m => message_step non_mangled m st) msgs ([], []) in
  {| mn_assigns := rev (snd st);
     mn_tag_messages := if mem "messages" non_mangled
                        then Some (make_mangled_name "messages" non_mangled) else None |}.

(* ------------------------------------------------------------------ *)
(* size_bytes parameter names (traits_generator.hpp)                    *)
(* ------------------------------------------------------------------ *)
Fixpoint join_path (path : list string) : string :=
  match path with
  | [] => ""
  | [x] => x
  | x :: r => x ++ "_" ++ join_path r
  end.

(* make_unique_param_name after the fix: the suffix starts at the level depth
   and is increased until the name is unused *)
Definition make_unique_param_name (desired : string) (existing : list string) (depth : nat) : string :=
  if mem desired existing
  then suffixed desired (first_free (fun n => mem (suffixed desired n) existing)
                                     (S (List.length existing)) depth)
  else desired.

Module Legacy.
  (* before the fix get_member_names(type) knew only the generated members *)
  Definition type_members (k : tkind) : list string :=
    match k with
    | KConstOrArray => []
    | KRequired => ["min_value"; "max_value"]
    | KOptional => ["min_value"; "max_value"; "null_value"]
    end.
  (* the class name a public scalar type got *)
  Definition public_type_impl (name : string) (k : tkind) (non_mangled : list string) : string :=
    if mem name (type_members k) then make_mangled_name name (type_members k ++ non_mangled) else name.
  (* the condition under which a group was given a mangled name *)
  Definition group_needs_mangling (g : group) (mangled : list string) : bool :=
    let name := group_name g in
    mem name mangled || mem (entry_of name) mangled || mem (entry_of name) (group_members g)
    || mem name (group_members g).

  (* before the fix: "<desired>_<depth>" without looking at the result *)
  Definition make_unique_param_name (desired : string) (existing : list string) (depth : nat) : string :=
    if mem desired existing then suffixed desired depth else desired.
End Legacy.

Section Params.
  Variable unique : string -> list string -> nat -> string.

  (* get_group_size_bytes_params: [path] is kept reversed *)
  Fixpoint message_group_params (g : group) (rpath : list string) (names : list string) : list string :=
    let rpath' := group_name g :: rpath in
    let names1 := (names ++ [unique (join_path (rev rpath') ++ "_num_in_group")%string names (List.length rpath' - 1)])%list in
    (fix go (gs : list group) (names : list string) : list string :=
       match gs with
       | [] => names
       | x :: r => go r (message_group_params x rpath' names)
       end) (group_subgroups g) names1.

  Fixpoint message_groups_params (gs : list group) (names : list string) : list string :=
    match gs with
    | [] => names
    | x :: r => message_groups_params r (message_group_params x [] names)
    end.

  Definition has_data_group := fix hd (g : group) : bool :=
    match g with Group _ _ gs ds =>
      negb (match ds with [] => true | _ => false end) ||
      (fix any (gs : list group) : bool := match gs with [] => false | x :: r => hd x || any r end) gs
    end.

  (* make_message_size_bytes *)
  Definition message_size_params (m : message) : list string :=
    let names := message_groups_params (m_groups m) [] in
    if negb (match m_data m with [] => true | _ => false end) || existsb has_data_group (m_groups m)
    then (names ++ ["total_data_size"])%list else names.

  (* make_group_size_bytes_impl: path of nested group names relative to [g] *)
  Fixpoint group_params_impl (g : group) (rpath : list string) (names : list string) : list string :=
    let names1 :=
      (names ++ [match rpath with
                 | [] => "num_in_group"
                 | _ => unique (join_path (rev rpath) ++ "_num_in_group")%string names (List.length rpath)
                 end])%list in
    (fix go (gs : list group) (names : list string) : list string :=
       match gs with
       | [] => names
       | x :: r => go r (group_params_impl x (group_name x :: rpath) names)
       end) (group_subgroups g) names1.

  Definition group_size_params (g : group) : list string :=
    let names := group_params_impl g [] [] in
    if has_data_group g then (names ++ ["total_data_size"])%list else names.
End Params.

(* ------------------------------------------------------------------ *)
(* the generated scopes (what the theorems talk about)                  *)
(* ------------------------------------------------------------------ *)

(* classes declared in namespace <schema>::detail::types: every encoding
   defined inside a composite and every public encoding with a mangled name *)
Definition in_detail (a : assign) : bool := negb (a_public a) || a_mangled a.
Definition detail_type_names (out : list assign) : list string := map a_impl (filter in_detail out).

(* names declared in namespace <schema>::types (classes or aliases) *)
Definition public_type_names (out : list assign) : list string := map a_name (filter a_public out).

(* structs declared in namespace <schema>::detail::schema::types: the tag of
   every public encoding (under its implementation name) and of every mangled
   nested one *)
Definition tag_scope_names (out : list assign) : list string :=
  map a_impl (filter (fun a => a_public a || a_mangled a) out).

(* classes declared in namespace <schema>::detail::messages: groups, entries
   and the messages with a mangled name *)
Definition msg_detail_names (a : massign) : list string :=
  if g_is_message a then (if g_mangled a then [g_impl a] else []) else [g_impl a; g_entry a].
Definition detail_message_names (out : list massign) : list string := flat_map msg_detail_names out.

Definition public_message_names (out : list massign) : list string :=
  map g_name (filter g_is_message out).

(* entry points of the extracted driver (unique names) *)
Definition c07_generate_type_names := generate_type_names.
Definition c07_generate_message_names := generate_message_names.
Definition c07_message_size_params := message_size_params make_unique_param_name.
Definition c07_group_size_params := group_size_params make_unique_param_name.
Definition c07_legacy_message_size_params := message_size_params Legacy.make_unique_param_name.
Definition c07_legacy_group_size_params := group_size_params Legacy.make_unique_param_name.
Definition c07_detail_type_names := detail_type_names.
Definition c07_detail_message_names := detail_message_names.
