(* CheckedAccess.v — the random-access API of sbepp.hpp with size checks
   enabled, as a sequence of explicit SBEPP_SIZE_CHECK(begin, end, offset,
   size) calls interleaved with the byte reads the library performs.

   Msg.v decides "outside the buffer" by [rd]/[in_buf] on the bytes that are
   READ.  The library decides by explicit checks whose (offset, size) arguments
   are a separate piece of code.  Here every operation is transcribed with its
   checks (Cursor.size_check, the macro of sbepp.hpp:286-292) in the order the
   C++ makes them; a read is performed WITHOUT looking at the buffer bounds
   ([slice] is total) and is recorded in the trace of touched ranges.

     AOk v touched        the call returned v; [touched] = every (offset,width)
                          byte range read from the buffer, in order
     AAssert touched why  the assertion handler was invoked; [touched] = what
                          had been read before; [why] = the failing check

   Line numbers refer to /repo/sbepp/src/sbepp/sbepp.hpp (view end pointer =
   end of the buffer, [len b]; the harness binds the message to [p, p+n)).
   Pointer arithmetic is exact (Z) as in Msg.v; size_t arithmetic of
   size_bytes goes through Msg.flat_group_size / Msg.flat_level_size.

   Definitions only (extracted).  Proofs: CheckedAccessProofs.v. *)
From Coq Require Import ZArith List Bool.
From Sbepp Require Import CInt Bytes Msg Cursor.
Import ListNotations.
Local Open Scope Z_scope.

Definition trace := list (Z * Z).

(* which assertion fired: a size check with its arguments (end = len b), or a
   precondition assert / invalid argument (SBEPP_ASSERT(pos < size()), no such
   member, the model's iteration bound) *)
Inductive why := WCheck (begin off size : Z) | WPre.

Inductive ares (A : Type) :=
| AOk (a : A) (touched : trace)
| AAssert (touched : trace) (w : why).
Arguments AOk {A}. Arguments AAssert {A}.

Definition abind {A B} (r : ares A) (f : A -> trace -> ares B) : ares B :=
  match r with AOk a t => f a t | AAssert t w => AAssert t w end.

Definition trace_of {A} (r : ares A) : trace :=
  match r with AOk _ t => t | AAssert t _ => t end.

Definition alift {A} (o : option A) (tr : trace) : ares A :=
  match o with Some a => AOk a tr | None => AAssert tr WPre end.

Definition pre (c : bool) (tr : trace) : ares unit :=
  if c then AOk tt tr else AAssert tr WPre.

(* a message or entry view: messages re-read blockLength from their header on
   every dynamic access (message_base, 1782-1820), entries carry the value read
   from the dimension when the iterator was made (entry_base, 1823-1883) *)
Inductive cview := CVMsg (base : Z) | CVEntry (pos bl : Z).

Section Ops.
  Variables (be : bool) (b : list Z).

  (* SBEPP_SIZE_CHECK(begin, view.end, off, size) *)
  Definition chk (begin off size : Z) (tr : trace) : ares unit :=
    if size_check begin (len b) off size then AOk tt tr
    else AAssert tr (WCheck begin off size).

  (* the `begin && begin <= end` conjuncts alone (evaluated before the size
     argument of the macro): size_check begin end 0 0 *)
  Definition chk_begin (begin : Z) (tr : trace) : ares unit := chk begin 0 0 tr.

  (* unchecked reads: get_primitive / memcpy of [n] bytes at [off] *)
  Definition touch_bytes (off n : Z) (tr : trace) : ares (list Z) :=
    AOk (slice b off n) (tr ++ [(off, n)]).

  Definition touch_val (off : Z) (t : ity) (tr : trace) : ares Z :=
    AOk (dec be (slice b off (tbytes t))) (tr ++ [(off, tbytes t)]).

  (* detail::get_value<T,U,E>(view, offset), 701-708:
       SBEPP_SIZE_CHECK(view.begin, view.end, offset, sizeof(U)); get_primitive *)
  Definition cget_value (begin off : Z) (t : ity) (tr : trace) : ares Z :=
    abind (chk begin off (tbytes t) tr) (fun _ tr => touch_val (begin + off) t tr).

  Definition cget_bytes (begin off n : Z) (tr : trace) : ares (list Z) :=
    abind (chk begin off n tr) (fun _ tr => touch_bytes (begin + off) n tr).

  (* ---- group header: flat_group_base 2344-2353 = nested_group_base 2592-2601
     operator()(get_header_tag): SBEPP_SIZE_CHECK(begin, end, 0, size_bytes(header)) *)
  Definition cgroup_header (d : dim) (g : Z) (tr : trace) : ares unit :=
    chk g 0 (d_size d) tr.

  (* size() = get_header().numInGroup().value(), 2366-2375 / 2615-2624 *)
  Definition cgroup_num (d : dim) (g : Z) (tr : trace) : ares Z :=
    abind (cgroup_header d g tr) (fun _ tr => cget_value g (d_n_off d) (d_n_t d) tr).

  (* get_header().blockLength().value() *)
  Definition cgroup_bl (d : dim) (g : Z) (tr : trace) : ares Z :=
    abind (cgroup_header d g tr) (fun _ tr => cget_value g (d_bl_off d) (d_bl_t d) tr).

  (* ---- <data>: dynamic_array_ref ---- *)
  (* size() = get_value<size_type>(self, 0), 3450-3459 *)
  Definition cdata_len (t : ity) (p : Z) (tr : trace) : ares Z := cget_value p 0 t tr.

  (* operator()(size_bytes_tag) = sizeof(size_type) + size(), 3664-3668 *)
  Definition cdata_size_bytes (t : ity) (p : Z) (tr : trace) : ares Z :=
    abind (cdata_len t p tr) (fun n tr => AOk (tbytes t + n) tr).

  (* the generated d_k() accessors: get_dynamic_field_view(self, d_{k-1}()) =
     prev.begin + prev(size_bytes_tag), 736-742 *)
  Fixpoint cdatas_end (ds : list ity) (p : Z) (tr : trace) : ares Z :=
    match ds with
    | [] => AOk p tr
    | t :: ds' => abind (cdata_size_bytes t p tr) (fun s tr => cdatas_end ds' (p + s) tr)
    end.

  (* forward_iterator::operator++ (1949-1955) at [ptr]; [lend p] computes the
     address past the last member of the entry at p (the generated entry
     size_bytes is  addressof(last) + size_bytes(last) - addressof(self)):
       SBEPP_SIZE_CHECK(ptr, end, 0, size_bytes(deref()));   -- begin <= end first,
       ptr += size_bytes(deref());                           -- then the size argument
     the entry size is evaluated twice *)
  Definition cincr (lend : Z -> trace -> ares Z) (ptr : Z) (tr : trace) : ares Z :=
    abind (chk_begin ptr tr) (fun _ tr =>
    abind (lend ptr tr) (fun e tr =>
    abind (chk ptr 0 (e - ptr) tr) (fun _ tr =>
    lend ptr tr))).

  (* [n] increments from [ptr] (the caller's `for(i < idx) ++it`) *)
  Fixpoint cwalk (lend : Z -> trace -> ares Z) (k : nat) (n ptr : Z) (tr : trace)
    {struct k} : ares Z :=
    if n <=? 0 then AOk ptr tr else
    match k with
    | O => AAssert tr WPre
    | S k' => abind (cincr lend ptr tr) (fun p' tr => cwalk lend k' (n - 1) p' tr)
    end.

  (* the range-for of nested_group_base::size_bytes (2603-2612): per entry
     `size += size_bytes(entry)` and then the increment *)
  Fixpoint csum (lend : Z -> trace -> ares Z) (k : nat) (n ptr : Z) (tr : trace)
    {struct k} : ares Z :=
    if n <=? 0 then AOk ptr tr else
    match k with
    | O => AAssert tr WPre
    | S k' =>
      abind (lend ptr tr) (fun _ tr =>
      abind (cincr lend ptr tr) (fun p' tr => csum lend k' (n - 1) p' tr))
    end.

  (* flat_group_base::operator()(size_bytes_tag), 2355-2363: one get_header, then
     size_bytes(dimension) + size_t(numInGroup) * blockLength *)
  Definition cflat_group_end (d : dim) (g : Z) (tr : trace) : ares Z :=
    abind (cgroup_header d g tr) (fun _ tr =>
    abind (cget_value g (d_n_off d) (d_n_t d) tr) (fun n tr =>
    abind (cget_value g (d_bl_off d) (d_bl_t d) tr) (fun bl tr =>
    abind (alift (flat_group_size d n bl) tr) (fun s tr => AOk (g + s) tr)))).

  (* nested_group_base::operator()(size_bytes_tag), 2603-2612:
       size = size_bytes(get_header);            -- header check
       begin(): get_header, blockLength          (2646-2654)
       end():   get_header.numInGroup, get_header.blockLength   (2657-2664)
       loop *)
  Definition cnested_group_end (lend : Z -> Z -> trace -> ares Z) (fuel : nat) (d : dim)
    (g : Z) (tr : trace) : ares Z :=
    abind (cgroup_header d g tr) (fun _ tr =>
    abind (cgroup_bl d g tr) (fun bl tr =>
    abind (cgroup_num d g tr) (fun n tr =>
    abind (cgroup_bl d g tr) (fun _ tr =>
    csum (lend bl) fuel n (g + d_size d) tr)))).

  (* [clevel_end l pos bl]: address past the last member of an ENTRY whose block
     starts at pos (get_first_dynamic_field_view = begin + block_length, then the
     chain of get_dynamic_field_view over all groups and all data);
     [cgroups_end gs p]: address after the groups gs laid out from p.
     Same recursion as Msg.level_end / Msg.groups_end. *)
  Fixpoint clevel_end (fuel : nat) (l : level) (pos bl : Z) (tr : trace) {struct l} : ares Z :=
    match l with
    | Level _ gs ds =>
      abind (cgroups_end fuel gs (pos + bl) tr) (fun p tr => cdatas_end ds p tr)
    end
  with cgroups_end (fuel : nat) (gs : groups) (p : Z) (tr : trace) {struct gs} : ares Z :=
    match gs with
    | GNil => AOk p tr
    | GCons d _ l rest =>
      abind
        (if is_flat l then cflat_group_end d p tr
         else cnested_group_end (fun bl q t => clevel_end fuel l q bl t) fuel d p tr)
        (fun p' tr => cgroups_end fuel rest p' tr)
    end.

  (* the generated g_k() accessors: g_0 = first dynamic view, g_k =
     get_dynamic_field_view(self, g_{k-1}()) *)
  Fixpoint cnth_group (fuel : nat) (gs : groups) (k : nat) (p : Z) (tr : trace)
    : ares (Z * dim * Z * level) :=
    match gs with
    | GNil => AAssert tr WPre
    | GCons d cbl l rest =>
      match k with
      | O => AOk (p, d, cbl, l) tr
      | S k' =>
        abind (cgroups_end fuel (GCons d cbl l GNil) p tr) (fun p' tr =>
        cnth_group fuel rest k' p' tr)
      end
    end.

  Fixpoint cnth_data (ds : list ity) (k : nat) (p : Z) (tr : trace) : ares (Z * ity) :=
    match ds with
    | [] => AAssert tr WPre
    | t :: ds' =>
      match k with
      | O => AOk (p, t) tr
      | S k' => abind (cdata_size_bytes t p tr) (fun s tr => cnth_data ds' k' (p + s) tr)
      end
    end.

  (* entry i of the group at g: flat_group_base::operator[] (2419-2432):
       SBEPP_ASSERT(pos < size()); get_header; blockLength; begin + dim + pos * bl
     nested groups: begin() (2646-2654) and i increments *)
  Definition centry_at (fuel : nat) (d : dim) (l : level) (g i : Z) (tr : trace)
    : ares (Z * Z) :=
    if is_flat l then
      abind (cgroup_num d g tr) (fun n tr =>
      abind (pre (i <? n) tr) (fun _ tr =>
      abind (cgroup_bl d g tr) (fun bl tr =>
      AOk (g + d_size d + i * bl, bl) tr)))
    else
      abind (cgroup_bl d g tr) (fun bl tr =>
      abind (cwalk (fun q t => clevel_end fuel l q bl t) fuel i (g + d_size d) tr) (fun p tr =>
      AOk (p, bl) tr)).

  Section Message.
    Variable m : message.

    (* message_base::operator()(get_header_tag), 1788-1797 *)
    Definition cmsg_header (base : Z) (tr : trace) : ares unit :=
      chk base 0 (m_hdr_size m) tr.

    (* operator()(get_block_length_tag), 1805-1810: get_header().blockLength().value() *)
    Definition cmsg_bl (base : Z) (tr : trace) : ares Z :=
      abind (cmsg_header base tr) (fun _ tr => cget_value base (m_bl_off m) (m_bl_t m) tr).

    Definition view_start (v : cview) : Z :=
      match v with CVMsg base => base | CVEntry pos _ => pos end.

    (* offset of the block inside the view: generated field offsets of a
       message are relative to the message start (header included) *)
    Definition view_hoff (v : cview) : Z :=
      match v with CVMsg _ => m_hdr_size m | CVEntry _ _ => 0 end.

    (* get_first_dynamic_field_view, 727-734:
         view(get_level_tag) + view(get_block_length_tag)
       message: get_level_tag (1799-1803) makes the header once more *)
    Definition cfirst_dyn (v : cview) (tr : trace) : ares Z :=
      match v with
      | CVMsg base =>
        abind (cmsg_header base tr) (fun _ tr =>
        abind (cmsg_bl base tr) (fun bl tr => AOk (base + m_hdr_size m + bl) tr))
      | CVEntry pos bl => AOk (pos + bl) tr
      end.

    (* address past the last member of a view (for the generated size_bytes) *)
    Definition cview_end (fuel : nat) (v : cview) (l : level) (tr : trace) : ares Z :=
      abind (cfirst_dyn v tr) (fun p0 tr =>
      abind (cgroups_end fuel (level_groups l) p0 tr) (fun p tr =>
      cdatas_end (level_datas l) p tr)).

    (* one path step as the caller does it:
         auto g = v.g_k();  if (idx >= g.size()) <invalid>;
         flat: g[idx]   nested: it = g.begin(); idx times ++it; *it *)
    Definition cstep (fuel : nat) (v : cview) (l : level) (k : nat) (i : Z) (tr : trace)
      : ares (cview * level) :=
      abind (cfirst_dyn v tr) (fun p0 tr =>
      abind (cnth_group fuel (level_groups l) k p0 tr) (fun r tr =>
        let '(g, d, _, sub) := r in
        abind (cgroup_num d g tr) (fun n tr =>
        abind (pre (negb ((i <? 0) || (n <=? i))) tr) (fun _ tr =>
        abind (centry_at fuel d sub g i tr) (fun e tr =>
        AOk (CVEntry (fst e) (snd e), sub) tr))))).

    Fixpoint cresolve (fuel : nat) (path : list step) (v : cview) (l : level) (tr : trace)
      : ares (cview * level) :=
      match path with
      | [] => AOk (v, l) tr
      | SGroup k i :: rest =>
        abind (cstep fuel v l k i tr) (fun r tr => cresolve fuel rest (fst r) (snd r) tr)
      end.

    Definition cmsg_resolve (base : Z) (path : list step) (tr : trace) : ares (cview * level) :=
      cresolve (default_fuel b) path (CVMsg base) (m_level m) tr.

    Definition cfield (l : level) (k : nat) (tr : trace) : ares fld :=
      alift (nth_error (level_fields l) k) tr.

    (* ---- the operations ---- *)

    (* scalar field getter: get_value(self, offset) *)
    Definition cget_field (base : Z) (path : list step) (k : nat) : ares (list Z) :=
      abind (cmsg_resolve base path []) (fun r tr =>
      abind (cfield (snd r) k tr) (fun f tr =>
      cget_bytes (view_start (fst r)) (view_hoff (fst r) + f_off f) (f_size f) tr)).

    (* array / composite field accessor: get_static_field_view, 719-725:
       SBEPP_SIZE_CHECK(begin, end, offset, 0); the new view starts at begin+offset *)
    Definition cstatic_view (v : cview) (f : fld) (tr : trace) : ares Z :=
      abind (chk (view_start v) (view_hoff v + f_off f) 0 tr) (fun _ tr =>
      AOk (view_start v + (view_hoff v + f_off f)) tr).

    (* static_array_ref::operator[] (3069-3073): SBEPP_ASSERT(pos < size());
       data() (3088-3097): SBEPP_SIZE_CHECK(begin, end, 0, N); then the element.
       raw() (3150-3158) is a view with the same begin and end. *)
    Definition carray_elem (a n i : Z) (tr : trace) : ares (list Z) :=
      abind (pre ((0 <=? i) && (i <? n)) tr) (fun _ tr =>
      abind (chk a 0 n tr) (fun _ tr => touch_bytes (a + i) 1 tr)).

    Definition cget_array_elem (base : Z) (path : list step) (k : nat) (i : Z) : ares (list Z) :=
      abind (cmsg_resolve base path []) (fun r tr =>
      abind (cfield (snd r) k tr) (fun f tr =>
      abind (cstatic_view (fst r) f tr) (fun a tr =>
      carray_elem a (f_size f) i tr))).

    (* all elements in index order (what the harness prints) *)
    Fixpoint carray_elems (a n : Z) (cnt : nat) (i : Z) (acc : list Z) (tr : trace)
      : ares (list Z) :=
      match cnt with
      | O => AOk acc tr
      | S c =>
        abind (carray_elem a n i tr) (fun x tr => carray_elems a n c (i + 1) (acc ++ x) tr)
      end.

    Definition cget_array (base : Z) (path : list step) (k : nat) : ares (list Z) :=
      abind (cmsg_resolve base path []) (fun r tr =>
      abind (cfield (snd r) k tr) (fun f tr =>
      abind (cstatic_view (fst r) f tr) (fun a tr =>
      carray_elems a (f_size f) (Z.to_nat (f_size f)) 0 [] tr))).

    (* member of a composite field: the field accessor makes the composite view,
       the member getter is get_value(composite, member offset) *)
    Definition cget_comp_member (base : Z) (path : list step) (k : nat) (moff msize : Z)
      : ares (list Z) :=
      abind (cmsg_resolve base path []) (fun r tr =>
      abind (cfield (snd r) k tr) (fun f tr =>
      abind (cstatic_view (fst r) f tr) (fun c tr =>
      cget_bytes c moff msize tr))).

    Definition cgroup_at_path (base : Z) (path : list step) (k : nat) (tr : trace)
      : ares (Z * dim * Z * level) :=
      abind (cmsg_resolve base path tr) (fun r tr =>
      abind (cfirst_dyn (fst r) tr) (fun p0 tr =>
      cnth_group (default_fuel b) (level_groups (snd r)) k p0 tr)).

    (* group geometry as the harness asks for it: sbepp::get_header(g) and its
       blockLength, then g.size() *)
    Definition cgroup_info (base : Z) (path : list step) (k : nat)
      : ares (gview * dim * Z * level) :=
      abind (cgroup_at_path base path k []) (fun q tr =>
        let '(g, d, cbl, sub) := q in
        abind (cgroup_bl d g tr) (fun bl tr =>
        abind (cgroup_num d g tr) (fun n tr =>
        AOk ({| gv_pos := g; gv_bl := bl; gv_n := n |}, d, cbl, sub) tr))).

    (* sbepp::size_bytes(group) *)
    Definition cgroup_size_bytes (base : Z) (path : list step) (k : nat) : ares Z :=
      abind (cgroup_at_path base path k []) (fun q tr =>
        let '(g, d, cbl, sub) := q in
        abind (cgroups_end (default_fuel b) (GCons d cbl sub GNil) g tr) (fun e tr =>
        AOk (e - g) tr)).

    (* generated size_bytes of a message / entry view:
         flat:   {header size} + size_t(view(get_block_length_tag))
         else:   addressof(last) + size_bytes(last) - addressof(self) *)
    Definition cview_size_bytes (v : cview) (l : level) (tr : trace) : ares Z :=
      if is_flat l then
        match v with
        | CVMsg base =>
          abind (cmsg_bl base tr) (fun bl tr => alift (flat_level_size (m_hdr_size m) bl) tr)
        | CVEntry _ bl => alift (flat_level_size 0 bl) tr
        end
      else
        abind (cview_end (default_fuel b) v l tr) (fun e tr => AOk (e - view_start v) tr).

    (* entry address and size *)
    Definition centry_size_bytes (base : Z) (path : list step) : ares Z :=
      abind (cmsg_resolve base path []) (fun r tr => cview_size_bytes (fst r) (snd r) tr).

    Definition centry_pos (base : Z) (path : list step) : ares Z :=
      abind (cmsg_resolve base path []) (fun r tr =>
      AOk (view_start (fst r) + view_hoff (fst r)) tr).

    Definition cmsg_size_bytes (base : Z) : ares Z :=
      cview_size_bytes (CVMsg base) (m_level m) [].

    Definition cdata_at_path (base : Z) (path : list step) (k : nat) (tr : trace)
      : ares (Z * ity) :=
      abind (cmsg_resolve base path tr) (fun r tr =>
      abind (cfirst_dyn (fst r) tr) (fun p0 tr =>
      abind (cgroups_end (default_fuel b) (level_groups (snd r)) p0 tr) (fun p tr =>
      cnth_data (level_datas (snd r)) k p tr))).

    (* address and length of a <data> member: d.size() *)
    Definition cdata_info (base : Z) (path : list step) (k : nat) : ares (Z * Z) :=
      abind (cdata_at_path base path k []) (fun q tr =>
      abind (cdata_len (snd q) (fst q) tr) (fun n tr => AOk (fst q, n) tr)).

    (* payload: n = d.size(); nothing else when n = 0; otherwise d.data() =
       data_checked (3707-3716): SBEPP_SIZE_CHECK(begin, end, sizeof(size_type), size())
       -- begin <= end first, then size() -- and data_unchecked (3718-3733):
       SBEPP_SIZE_CHECK(begin, end, 0, sizeof(size_type)); then n bytes are read *)
    Definition cget_data (base : Z) (path : list step) (k : nat) : ares (list Z) :=
      abind (cdata_at_path base path k []) (fun q tr =>
        let '(p, t) := q in
        abind (cdata_len t p tr) (fun n tr =>
        if n =? 0 then AOk [] tr else
        abind (chk_begin p tr) (fun _ tr =>
        abind (cdata_len t p tr) (fun n' tr =>
        abind (chk p (tbytes t) n' tr) (fun _ tr =>
        abind (chk p 0 (tbytes t) tr) (fun _ tr =>
        touch_bytes (p + tbytes t) n tr)))))).
  End Message.
End Ops.

(* unchecked counterparts that Msg.v does not define (the model driver computed
   them in OCaml): bytes of a composite member, one array element *)
Definition get_comp_member (be : bool) (b : list Z) (m : message) (base : Z) (path : list step)
  (k : nat) (moff msize : Z) : option (list Z) :=
  obind (msg_resolve be b m base path) (fun r =>
    let '(pos, _, l) := r in
    match nth_error (level_fields l) k with
    | Some f => rd_bytes b (pos + f_off f + moff) msize
    | None => None
    end).

Definition get_array_elem (be : bool) (b : list Z) (m : message) (base : Z) (path : list step)
  (k : nat) (i : Z) : option (list Z) :=
  obind (get_field be b m base path k) (fun bs =>
  if (0 <=? i) && (i <? len bs) then Some (slice bs i 1) else None).

Definition data_info (be : bool) (b : list Z) (m : message) (base : Z) (path : list step)
  (k : nat) : option (Z * Z) :=
  obind (locate_data be b m base path k) (fun q =>
  obind (rd be b (fst q) (snd q)) (fun n => Some (fst q, n))).

Definition entry_pos_at (be : bool) (b : list Z) (m : message) (base : Z) (path : list step)
  : option Z :=
  obind (msg_resolve be b m base path) (fun r => let '(pos, _, _) := r in Some pos).
