(* Properties_C13.v — C13: <data> views (sbepp::detail::dynamic_array_ref)
   behave like a std::vector bounded by their buffer.  Only statements closed
   by [exact]; the model is Dyn.v, the proofs are in DynProofs.v.

   v      the view: length type vT in {U8,U16,U32,U64}, byte order vbe, position
          voff and extent vcap inside the buffer, assertions on/off (vchk)
   wf     the view lies inside a buffer of bytes that can hold size() elements
          (the documented general precondition of the class)
   valid  the call is valid for a std::vector of the current size whose
          max_size() is Length::max_value() and whose capacity is what the
          buffer behind the view can hold
   exec   the transcription of the member functions (Ok / AssertFail / Fault)
   abs    payload of length dec(prefix) = the vector contents
   vec_step  the std::vector operation; [fresh] only supplies the unspecified
          values of elements created by resize(count, default_init)            *)
From Coq Require Import ZArith List.
From Sbepp Require Import CInt Dyn DynProofs.
Local Open Scope Z_scope.

(* every vector-valid call returns normally, leaves a well-formed view whose
   contents are exactly the vector's and returns the same position *)
Theorem C13_step_refines : forall v b o,
  wf v b = true -> valid v (size_of v b) o = true ->
  exists r b' fresh, exec v o b = Ok (r, b') /\ wf v b' = true /\
    vec_step fresh (abs v b) o = (abs v b', r).
Proof. exact step_refines. Qed.
Print Assumptions C13_step_refines.

(* the new length prefix is the vector's new size and no byte outside
   [voff, voff + sizeof(length) + max(old size, new size)) changes *)
Theorem C13_step_frame : forall v b o r b',
  wf v b = true -> valid v (size_of v b) o = true -> exec v o b = Ok (r, b') ->
  size_of v b' = new_size (size_of v b) o /\
  frame v b b' (Z.max (size_of v b) (new_size (size_of v b) o)).
Proof. exact step_frame. Qed.
Print Assumptions C13_step_frame.

(* a call that is valid for the vector never reaches the assertion handler
   and never touches memory outside the buffer *)
Theorem C13_no_spurious_assert : forall v b o,
  wf v b = true -> valid v (size_of v b) o = true ->
  exec v o b <> AssertFail /\ exec v o b <> Fault.
Proof. exact no_spurious_assert. Qed.
Print Assumptions C13_no_spurious_assert.

(* in particular erase(first, end()) is accepted and truncates at first *)
Theorem C13_erase_to_end : forall v b f,
  wf v b = true -> 0 <= f <= size_of v b ->
  exists b', exec v (EraseR f (size_of v b)) b = Ok (Some f, b') /\ wf v b' = true /\
    abs v b' = zfirstn f (abs v b) /\ size_of v b' = f.
Proof. exact erase_to_end_ok. Qed.
Print Assumptions C13_erase_to_end.

(* [fresh] matters only where std::vector has no counterpart: a growing
   resize(count, default_init) *)
Theorem C13_fresh_only_for_default_init : forall f1 f2 xs o,
  (forall c, o = ResizeDI c -> c <= zlen xs) -> vec_step f1 xs o = vec_step f2 xs o.
Proof. exact fresh_irrelevant. Qed.
Print Assumptions C13_fresh_only_for_default_init.

(* lifted to every sequence of calls: as long as each call is valid for the
   vector at the size reached so far, the whole run returns normally, ends in
   the vector's state with the vector's return values, and never writes
   outside [voff, voff + sizeof(length) + largest size reached) *)
Theorem C13_sequence_refines : forall v ops b,
  wf v b = true -> seq_valid v (size_of v b) ops = true ->
  exists rs b' oracle, exec_seq (exec v) ops b = Ok (rs, b') /\ wf v b' = true /\
    vec_run oracle (abs v b) ops = (abs v b', rs) /\
    frame v b b' (peak_size (size_of v b) ops).
Proof. exact seq_refines. Qed.
Print Assumptions C13_sequence_refines.
