(* CursorCounterexamples.v — stmt_trav_message_enc (CursorSpec.v) is false as
   written.  A concrete refutation (an artefact of the model's iteration bound); the corrected statement
   stmt_trav_message_enc' is defined and proved in CursorProofs.v. *)
From Coq Require Import ZArith List Bool Lia.
From Sbepp Require Import CInt Bytes Msg Layout Wire MsgSpec Cursor CursorSpec.
Import ListNotations.
Local Open Scope Z_scope.

(* (The first counterexample of the original file -- a member-less message
   with a non-zero wire blockLength, whose traversal left the cursor at the
   start of the block -- described a real defect of the generated code; it was
   repaired in /repo ("fix: move the cursor over the block of a message
   without members") and the model in Cursor.v follows the repaired code, so
   it no longer refutes the statement.) *)


(* ------------------------------------------------------------------ *)
(* 2. a flat group whose entries have wire blockLength 0 and whose      *)
(*    numInGroup exceeds default_fuel (buffer length + 1): the entry    *)
(*    loop of the model runs out of fuel and reports COob               *)
(* ------------------------------------------------------------------ *)
Module Ex2.
  Definition d : dim :=
    {| d_size := 4; d_bl_off := 0; d_bl_t := U16; d_n_off := 2; d_n_t := U16; d_fills := [] |}.
  Definition m : message :=
    {| m_hdr_size := 8; m_bl_off := 0; m_bl_t := U16; m_cbl := 1; m_fills := [];
       m_level := Level [ {| f_off := 0; f_size := 1 |} ]
                        (GCons d 0 (Level [] GNil []) GNil) [] |}.
  Definition cl : clevel :=
    CLevel [ {| ca_rel := 0; ca_abs := 8; ca_size := 1; ca_last := true; ca_view := false |} ]
           (CGCons (CLevel [] CGNil) CGNil).
  Definition hdrbg : list Z := [0;0;0;0;0;0;0;0].
  Fixpoint ents (n : nat) : ventries :=
    match n with O => VENil | S n' => VECons (VLevel [] VGNil []) (ents n') end.
  Definition v : vlevel := VLevel [7] (VGCons [0;0;0;0] (ents 20) VGNil) [].

  Lemma actual :
    trav_message false ([] ++ enc_message false m hdrbg v ++ []) m cl (len (@nil Z)) = COob.
  Proof. vm_compute. reflexivity. Qed.

  Lemma hyps :
    wf_message false m hdrbg v /\ wf_clevel (m_hdr_size m) (m_level m) cl /\
    fields_fit (m_level m) v /\ len ([] ++ enc_message false m hdrbg v ++ []) < 2 ^ 64.
  Proof.
    unfold wf_message, wf_dim, fits, is_unsigned_ity. cbn.
    repeat split; try lia; try reflexivity; try (vm_compute; congruence);
      try (left; vm_compute; congruence); repeat constructor; cbn; lia.
  Qed.
End Ex2.

Theorem trav_message_enc_false_2 : ~ stmt_trav_message_enc.
Proof.
  intros H. destruct Ex2.hyps as (H1 & H2 & H3 & H4).
  specialize (H false Ex2.m Ex2.cl Ex2.hdrbg Ex2.v [] [] H1 H2 H3 H4).
  rewrite Ex2.actual in H. discriminate H.
Qed.
Print Assumptions trav_message_enc_false_2.
