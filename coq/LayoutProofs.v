(* LayoutProofs.v — proofs of the layout statements of MsgSpec.v. *)
From Coq Require Import ZArith List Bool Lia.
From Sbepp Require Import CInt Bytes Msg Layout Wire MsgSpec.
Import ListNotations.
Local Open Scope Z_scope.

(* ------------------------------------------------------------------ *)
(* place                                                               *)
(* ------------------------------------------------------------------ *)

Lemma place_some explicit cur sz off cur' :
  place explicit cur sz = Some (off, cur') ->
  off = (match explicit with Some o => o | None => cur end) /\
  cur <= off /\ cur' = off + sz.
Proof.
  unfold place. destruct explicit as [o|].
  - destruct (Z.ltb_spec o cur) as [Hlt|Hge]; [discriminate|].
    intros H; inversion H; subst. lia.
  - intros H; inversion H; subst. lia.
Qed.

Lemma place_none explicit cur sz :
  place explicit cur sz = None <-> exists o, explicit = Some o /\ o < cur.
Proof.
  unfold place. destruct explicit as [o|].
  - destruct (Z.ltb_spec o cur) as [Hlt|Hge]; split; intros H'.
    + exists o; auto.
    + reflexivity.
    + discriminate.
    + destruct H' as [o' [E L]]. inversion E; subst. lia.
  - split; [discriminate|]. intros [o [E _]]. discriminate.
Qed.

(* ------------------------------------------------------------------ *)
(* layout_fields                                                       *)
(* ------------------------------------------------------------------ *)

Theorem layout_sbe_offsets : stmt_layout_sbe_offsets.
Proof.
  unfold stmt_layout_sbe_offsets.
  induction fs as [|f rest IH]; intros cur fl e H; cbn [layout_fields] in H.
  - inversion H; subst. cbn. auto.
  - cbn [sbe_offsets].
    destruct (type_size (sf_type f)) as [sz|] eqn:Ets; [|discriminate].
    destruct (sf_const f).
    + apply IH; assumption.
    + destruct (place (sf_off f) cur sz) as [[off cur']|] eqn:Ep; [|discriminate].
      destruct (layout_fields rest cur') as [[fl' e']|] eqn:El; [|discriminate].
      inversion H; subst; clear H.
      apply place_some in Ep. destruct Ep as [Eo [Hle Ec]]. subst cur'.
      destruct (IH _ _ _ El) as [IH1 IH2].
      cbn [f_off f_size fields_end]. repeat split; auto.
Qed.
Print Assumptions layout_sbe_offsets.

Theorem layout_accepts_iff : stmt_layout_accepts_iff.
Proof.
  unfold stmt_layout_accepts_iff.
  induction fs as [|f rest IH]; intros cur; cbn [layout_fields offsets_admissible].
  - split; [auto|]. intros _. eexists; reflexivity.
  - destruct (type_size (sf_type f)) as [sz|] eqn:Ets.
    2:{ split; [intros [r Hr]; discriminate|intros []]. }
    destruct (sf_const f); [apply IH|].
    unfold place. destruct (sf_off f) as [o|].
    + destruct (Z.ltb_spec o cur) as [Hlt|Hge].
      * split; [intros [r Hr]; discriminate|intros [Hc _]; lia].
      * rewrite <- IH. split.
        -- intros [r Hr]. split; [lia|].
           destruct (layout_fields rest (o + sz)) as [[fl e]|]; [|discriminate].
           eexists; reflexivity.
        -- intros [_ [[fl e] Hr]]. rewrite Hr. eexists; reflexivity.
    + rewrite <- IH. split.
      * intros [r Hr].
        destruct (layout_fields rest (cur + sz)) as [[fl e]|]; [|discriminate].
        eexists; reflexivity.
      * intros [[fl e] Hr]. rewrite Hr. eexists; reflexivity.
Qed.
Print Assumptions layout_accepts_iff.

(* ------------------------------------------------------------------ *)
(* sizes are non-negative for representable types                      *)
(* ------------------------------------------------------------------ *)

(* the anonymous fixpoints of [type_size] / [stype_ok], named *)
Definition comp_size : list smember -> Z -> option Z :=
  fix go (ms : list smember) (cur : Z) : option Z :=
    match ms with
    | [] => Some cur
    | SMember o c t :: rest =>
      match type_size t with
      | None => None
      | Some sz =>
        if c then go rest cur
        else match place o cur sz with
             | None => None
             | Some (_, cur') => go rest cur'
             end
      end
    end.

Definition members_ok : list smember -> Prop :=
  fix go (ms : list smember) : Prop :=
    match ms with
    | [] => True
    | SMember o _ t :: r =>
      (match o with Some x => 0 <= x | None => True end) /\ stype_ok t /\ go r
    end.

Lemma type_size_composite ms : type_size (TComposite ms) = comp_size ms 0.
Proof. reflexivity. Qed.

Lemma stype_ok_composite ms : stype_ok (TComposite ms) = members_ok ms.
Proof. reflexivity. Qed.

Lemma comp_size_cons o c t rest cur :
  comp_size (SMember o c t :: rest) cur =
  match type_size t with
  | None => None
  | Some sz =>
    if c then comp_size rest cur
    else match place o cur sz with
         | None => None
         | Some (_, cur') => comp_size rest cur'
         end
  end.
Proof. reflexivity. Qed.

Lemma members_ok_cons o c t r :
  members_ok (SMember o c t :: r) =
  ((match o with Some x => 0 <= x | None => True end) /\ stype_ok t /\ members_ok r).
Proof. reflexivity. Qed.

(* members advance the running offset when every member size is >= 0 *)
Lemma comp_size_mono_gen (P : stype -> Prop) :
  (forall t sz, P t -> stype_ok t -> type_size t = Some sz -> 0 <= sz) ->
  forall ms, (forall o c t, In (SMember o c t) ms -> P t) ->
  forall cur sz, members_ok ms -> comp_size ms cur = Some sz -> cur <= sz.
Proof.
  intros HP. induction ms as [|[o c t] r IH]; intros Hin cur sz Hok H.
  - cbn in H. inversion H; lia.
  - rewrite comp_size_cons in H. rewrite members_ok_cons in Hok.
    destruct Hok as [_ [Hokt Hokr]].
    assert (IH' : forall cur sz, comp_size r cur = Some sz -> cur <= sz).
    { intros c0 s0 H0. apply IH; auto. intros o' c' t' Hi. eapply Hin. right; eauto. }
    destruct (type_size t) as [tsz|] eqn:Ets; [|discriminate].
    assert (0 <= tsz) by (eapply HP; eauto; eapply Hin; left; reflexivity).
    destruct c; [apply IH'; assumption|].
    destruct (place o cur tsz) as [[off cur']|] eqn:Ep; [|discriminate].
    apply place_some in Ep. destruct Ep as [_ [Hle ->]].
    apply IH' in H. lia.
Qed.

Lemma type_size_nonneg : forall t sz, stype_ok t -> type_size t = Some sz -> 0 <= sz.
Proof.
  fix IH 1. intros t sz Hok H. destruct t as [p|p n|ms].
  - cbn in H. inversion H; lia.
  - cbn in H, Hok. inversion H. lia.
  - rewrite type_size_composite in H. rewrite stype_ok_composite in Hok.
    assert (Hcur : 0 <= 0) by lia. revert Hcur Hok H.
    generalize 0 at 2 3 as cur. intros cur. revert cur sz.
    induction ms as [|[o c t] r IHr]; intros cur sz Hcur Hok H.
    + cbn in H. inversion H; lia.
    + rewrite comp_size_cons in H. rewrite members_ok_cons in Hok.
      destruct Hok as [_ [Hokt Hokr]].
      destruct (type_size t) as [tsz|] eqn:Ets; [|discriminate].
      pose proof (IH t tsz Hokt Ets) as Hts.
      destruct c; [apply (IHr cur); assumption|].
      destruct (place o cur tsz) as [[off cur']|] eqn:Ep; [|discriminate].
      apply place_some in Ep. destruct Ep as [_ [Hle ->]].
      apply (IHr (off + tsz)); auto. lia.
Qed.

Lemma comp_size_mono ms cur sz :
  members_ok ms -> comp_size ms cur = Some sz -> cur <= sz.
Proof.
  apply (comp_size_mono_gen (fun _ => True)); auto.
  intros t s _. apply type_size_nonneg.
Qed.

Theorem layout_no_overlap : stmt_layout_no_overlap.
Proof.
  unfold stmt_layout_no_overlap.
  induction fs as [|f rest IH]; intros cur fl e Hok Hcur H; cbn [layout_fields] in H.
  - inversion H; subst. cbn. repeat split; try lia; contradiction.
  - inversion Hok as [|? ? Hf Hrest]; subst.
    destruct (type_size (sf_type f)) as [sz|] eqn:Ets; [|discriminate].
    destruct (sf_const f); [apply IH; assumption|].
    destruct (place (sf_off f) cur sz) as [[off cur']|] eqn:Ep; [|discriminate].
    destruct (layout_fields rest cur') as [[fl' e']|] eqn:El; [|discriminate].
    inversion H; subst; clear H.
    apply place_some in Ep. destruct Ep as [_ [Hle ->]].
    assert (Hsz : 0 <= sz) by (eapply type_size_nonneg; [apply Hf|exact Ets]).
    destruct (IH (off + sz) fl' e Hrest ltac:(lia) El) as [IH1 [IH2 IH3]].
    cbn [fields_in_order f_off f_size].
    split; [split; [lia|split; [lia|exact IH1]]|]. split; [lia|].
    intros g [<-|Hin]; cbn [f_off f_size]; [lia|]. apply IH3 in Hin. lia.
Qed.
Print Assumptions layout_no_overlap.

Theorem block_length_covers : stmt_block_length_covers.
Proof.
  unfold stmt_block_length_covers, block_length.
  intros [x|] minimal b H.
  - destruct (Z.ltb_spec x minimal) as [Hlt|Hge]; [discriminate|]. inversion H; subst.
    repeat split; [lia|discriminate|]. intros y E; inversion E; reflexivity.
  - inversion H; subst. repeat split; [lia|]. discriminate.
Qed.
Print Assumptions block_length_covers.

(* ------------------------------------------------------------------ *)
(* cursor offsets                                                      *)
(* ------------------------------------------------------------------ *)

Lemma layout_all_const fs cur fl e :
  layout_fields fs cur = Some (fl, e) ->
  forallb sf_const fs = match fl with [] => true | _ => false end.
Proof.
  revert cur fl e. induction fs as [|f rest IH]; intros cur fl e H; cbn [layout_fields] in H.
  - inversion H; reflexivity.
  - cbn [forallb].
    destruct (type_size (sf_type f)) as [sz|]; [|discriminate].
    destruct (sf_const f); [cbn; eapply IH; eassumption|].
    destruct (place (sf_off f) cur sz) as [[off cur']|]; [|discriminate].
    destruct (layout_fields rest cur') as [[fl' e']|]; [|discriminate].
    inversion H; reflexivity.
Qed.

Theorem cursor_offsets_agree : stmt_cursor_offsets_agree.
Proof.
  unfold stmt_cursor_offsets_agree.
  induction fs as [|f rest IH]; intros hdr cur fl e H;
    cbn [layout_fields] in H; cbn [cursor_fields].
  - inversion H; subst. exists []. split; [reflexivity|exact I].
  - destruct (type_size (sf_type f)) as [sz|] eqn:Ets; [|discriminate].
    destruct (sf_const f); [apply IH with (e := e); assumption|].
    destruct (place (sf_off f) cur sz) as [[off cur']|] eqn:Ep; [|discriminate].
    destruct (layout_fields rest cur') as [[fl' e']|] eqn:El; [|discriminate].
    inversion H; subst; clear H.
    destruct (IH hdr _ _ _ El) as [cl [Hc Hw]]. rewrite Hc.
    eexists. split; [reflexivity|].
    apply place_some in Ep. destruct Ep as [_ [Hle ->]].
    cbn [cursor_walk_ok c_rel c_abs c_size c_last f_off f_size].
    repeat split; try lia.
    + eapply layout_all_const; eassumption.
    + exact Hw.
Qed.
Print Assumptions cursor_offsets_agree.

Theorem cursor_rejects_iff : stmt_cursor_rejects_iff.
Proof.
  unfold stmt_cursor_rejects_iff.
  induction fs as [|f rest IH]; intros hdr cur; cbn [layout_fields cursor_fields].
  - split; discriminate.
  - destruct (type_size (sf_type f)) as [sz|]; [|tauto].
    destruct (sf_const f); [apply IH|].
    destruct (place (sf_off f) cur sz) as [[off cur']|]; [|tauto].
    specialize (IH hdr cur').
    destruct (cursor_fields rest hdr cur') as [cl|];
      destruct (layout_fields rest cur') as [[fl e]|].
    + split; discriminate.
    + exfalso. destruct IH as [_ IH]. specialize (IH eq_refl). discriminate.
    + exfalso. destruct IH as [IH _]. specialize (IH eq_refl). discriminate.
    + tauto.
Qed.
Print Assumptions cursor_rejects_iff.

(* ------------------------------------------------------------------ *)
(* composite members                                                   *)
(* ------------------------------------------------------------------ *)

Lemma member_offsets_gen : forall ms cur offs sz,
  members_ok ms -> member_offsets ms cur = Some offs -> comp_size ms cur = Some sz ->
  length offs = length ms /\
  forall k o m msz, nth_error offs k = Some (Some o) -> nth_error ms k = Some m ->
    type_size (sm_type m) = Some msz -> cur <= o /\ o + msz <= sz.
Proof.
  induction ms as [|[o c t] r IH]; intros cur offs sz Hok Hm Hs.
  - cbn in Hm. inversion Hm; subst. split; [reflexivity|].
    intros [|k] o m msz H; discriminate.
  - rewrite comp_size_cons in Hs. rewrite members_ok_cons in Hok.
    destruct Hok as [_ [Hokt Hokr]].
    cbn [member_offsets] in Hm.
    destruct (type_size t) as [tsz|] eqn:Ets; [|discriminate].
    destruct c.
    + destruct (member_offsets r cur) as [offs'|] eqn:Em; [|discriminate].
      cbn in Hm. inversion Hm; subst; clear Hm.
      destruct (IH _ _ _ Hokr Em Hs) as [IHl IHn].
      split; [cbn; congruence|].
      intros [|k] o' m msz Ho Hn Hsz; [discriminate|].
      cbn [nth_error] in Ho, Hn. eapply IHn; eassumption.
    + destruct (place o cur tsz) as [[off cur']|] eqn:Ep; [|discriminate].
      destruct (member_offsets r cur') as [offs'|] eqn:Em; [|discriminate].
      cbn in Hm. inversion Hm; subst; clear Hm.
      apply place_some in Ep. destruct Ep as [_ [Hle ->]].
      destruct (IH _ _ _ Hokr Em Hs) as [IHl IHn].
      pose proof (comp_size_mono _ _ _ Hokr Hs) as Hmono.
      pose proof (type_size_nonneg _ _ Hokt Ets) as Hts.
      split; [cbn; congruence|].
      intros [|k] o' m msz Ho Hn Hsz; cbn [nth_error] in Ho, Hn.
      * inversion Ho; inversion Hn; subst. cbn [sm_type] in Hsz.
        rewrite Ets in Hsz. inversion Hsz; subst. lia.
      * specialize (IHn _ _ _ _ Ho Hn Hsz). lia.
Qed.

Theorem member_offsets_in_order : stmt_member_offsets_in_order.
Proof.
  unfold stmt_member_offsets_in_order. intros ms offs sz Hok Hm Hs.
  rewrite stype_ok_composite in Hok. rewrite type_size_composite in Hs.
  apply (member_offsets_gen ms 0 offs sz Hok Hm Hs).
Qed.
Print Assumptions member_offsets_in_order.
