(* Rules.v — C08: schema AST (close to the XML, after attribute parsing) and the
   declarative acceptance specification [rules_ok].

   The AST keeps names and type references as strings, numeric attributes as
   already-parsed integers (a number outside its C++ type stands for an
   attribute text that std::from_chars rejects), and min/max/null/constant/
   validValue texts as [value_text] records that expose exactly what the
   validator inspects of such a text.

   [rules_ok] is a flat conjunction of per-entity rules.  It has no traversal
   state: no running offset, no processing-state map, no context map, no memo
   sets.  Sizes are given by the recursive definition [esize]; the minimum
   offset of a member is [end_of] of the members before it.

   Definitions only (extracted); stdlib only. *)
From Coq Require Import ZArith List Bool String Ascii.
(* [String]/[Ascii] are only used to write constants, see [lit] *)
From Sbepp Require Import Bytes.
Import ListNotations.
Local Open Scope Z_scope.

(* ------------------------------------------------------------------ *)
(* strings: lists of byte codes (Coq's [string] is not used so that *)
(* the extracted model has no type called "string")                   *)
(* ------------------------------------------------------------------ *)

Definition str := list Z.

(* only used under [Eval compute] to write constants *)
Definition lit (s : string) : str := map (fun c => Z.of_nat (nat_of_ascii c)) (list_ascii_of_string s).

Fixpoint str_eqb (a b : str) : bool :=
  match a, b with
  | [], [] => true
  | x :: a', y :: b' => ((x =? y) && str_eqb a' b')%bool
  | _, _ => false
  end.

Definition lower_char (c : Z) : Z := if ((65 <=? c) && (c <=? 90))%bool then c + 32 else c.

Definition to_lower (s : str) : str := map lower_char s.

Definition is_digit (c : Z) : bool := ((48 <=? c) && (c <=? 57))%bool.

Definition is_alpha (c : Z) : bool :=
  (((65 <=? c) && (c <=? 90)) || ((97 <=? c) && (c <=? 122)))%bool.

Definition is_name_char (c : Z) : bool := (is_digit c || is_alpha c || (c =? 95))%bool.

(* sbe_schema_validator::is_sbe_symbolic_name *)
Definition is_symbolic (s : str) : bool :=
  match s with
  | [] => false
  | c :: _ => (negb (is_digit c) && forallb is_name_char s)%bool
  end.

Definition cpp_keywords : list str := Eval compute in map lit
  ["alignas"; "alignof"; "and"; "and_eq"; "asm"; "auto"; "bitand"; "bitor"; "bool";
   "break"; "case"; "catch"; "char"; "char8_t"; "char16_t"; "char32_t"; "class";
   "compl"; "concept"; "const"; "consteval"; "constexpr"; "constinit"; "const_cast";
   "continue"; "co_await"; "co_return"; "co_yield"; "decltype"; "default"; "delete";
   "do"; "double"; "dynamic_cast"; "else"; "enum"; "explicit"; "export"; "extern";
   "false"; "float"; "for"; "friend"; "goto"; "if"; "inline"; "int"; "long";
   "mutable"; "namespace"; "new"; "noexcept"; "not"; "not_eq"; "nullptr"; "operator";
   "or"; "or_eq"; "private"; "protected"; "public"; "register"; "reinterpret_cast";
   "requires"; "return"; "short"; "signed"; "sizeof"; "static"; "static_assert";
   "static_cast"; "struct"; "switch"; "template"; "this"; "thread_local"; "throw";
   "true"; "try"; "typedef"; "typeid"; "typename"; "union"; "unsigned"; "using";
   "virtual"; "void"; "volatile"; "wchar_t"; "while"; "xor"; "xor_eq"]%string.

Definition mem_str (s : str) (l : list str) : bool := existsb (str_eqb s) l.

Definition is_keyword (s : str) : bool := mem_str s cpp_keywords.

(* a name the generator can emit: SBE symbolic name and not a C++ keyword *)
Definition name_ok (s : str) : bool := (is_symbolic s && negb (is_keyword s))%bool.

Definition k_std : str := Eval compute in lit "std".
Definition k_posix : str := Eval compute in lit "posix".

(* schema (namespace) name *)
Definition schema_name_ok (s : str) : bool :=
  (is_symbolic s && negb (is_keyword s) && negb (str_eqb s k_std) && negb (str_eqb s k_posix))%bool.

Fixpoint nodup_str (l : list str) : bool :=
  match l with
  | [] => true
  | x :: r => (negb (mem_str x r) && nodup_str r)%bool
  end.

Fixpoint mem_z (x : Z) (l : list Z) : bool :=
  match l with [] => false | y :: r => ((x =? y) || mem_z x r)%bool end.

Fixpoint nodup_z (l : list Z) : bool :=
  match l with [] => true | x :: r => (negb (mem_z x r) && nodup_z r)%bool end.

(* utils::parse_value_ref: split at the first '.' *)
Fixpoint split_dot (s : str) : option (str * str) :=
  match s with
  | [] => None
  | c :: r =>
    if c =? 46 then Some ([], r)
    else match split_dot r with
         | Some (a, b) => Some (c :: a, b)
         | None => None
         end
  end.

Definition is_empty (s : str) : bool := match s with [] => true | _ => false end.

Definition k_char : str := Eval compute in lit "char".
Definition k_int8 : str := Eval compute in lit "int8".
Definition k_uint8 : str := Eval compute in lit "uint8".
Definition k_int16 : str := Eval compute in lit "int16".
Definition k_uint16 : str := Eval compute in lit "uint16".
Definition k_int32 : str := Eval compute in lit "int32".
Definition k_uint32 : str := Eval compute in lit "uint32".
Definition k_int64 : str := Eval compute in lit "int64".
Definition k_uint64 : str := Eval compute in lit "uint64".
Definition k_float : str := Eval compute in lit "float".
Definition k_double : str := Eval compute in lit "double".
Definition k_schemaId : str := Eval compute in lit "schemaId".
Definition k_templateId : str := Eval compute in lit "templateId".
Definition k_version : str := Eval compute in lit "version".
Definition k_blockLength : str := Eval compute in lit "blockLength".
Definition k_numInGroup : str := Eval compute in lit "numInGroup".
Definition k_length : str := Eval compute in lit "length".
Definition k_varData : str := Eval compute in lit "varData".

(* ------------------------------------------------------------------ *)
(* primitive types                                                     *)
(* ------------------------------------------------------------------ *)

Definition prim_of_name (s : str) : option prim :=
  if str_eqb s k_char then Some PChar else
  if str_eqb s k_int8 then Some PI8 else
  if str_eqb s k_uint8 then Some PU8 else
  if str_eqb s k_int16 then Some PI16 else
  if str_eqb s k_uint16 then Some PU16 else
  if str_eqb s k_int32 then Some PI32 else
  if str_eqb s k_uint32 then Some PU32 else
  if str_eqb s k_int64 then Some PI64 else
  if str_eqb s k_uint64 then Some PU64 else
  if str_eqb s k_float then Some PF32 else
  if str_eqb s k_double then Some PF64 else None.

Definition psize (p : prim) : Z := Z.of_nat (prim_size p).

Definition is_fp (p : prim) : bool := match p with PF32 | PF64 => true | _ => false end.
Definition is_single_byte (p : prim) : bool := match p with PChar | PI8 | PU8 => true | _ => false end.
Definition is_unsigned_prim (p : prim) : bool :=
  match p with PU8 | PU16 | PU32 | PU64 => true | _ => false end.

(* range of the C++ type std::from_chars parses into (char is signed here) *)
Definition prim_min (p : prim) : Z :=
  match p with
  | PChar | PI8 => -128 | PI16 => -32768 | PI32 => -2147483648
  | PI64 => -9223372036854775808 | _ => 0
  end.
Definition prim_max (p : prim) : Z :=
  match p with
  | PChar | PI8 => 127 | PU8 => 255 | PI16 => 32767 | PU16 => 65535
  | PI32 => 2147483647 | PU32 => 4294967295
  | PI64 => 9223372036854775807 | PU64 => 18446744073709551615
  | _ => 0
  end.

Definition max_u64 : Z := 18446744073709551615.
Definition u64_ok (z : Z) : bool := ((0 <=? z) && (z <=? max_u64))%bool.
Definition opt_u64_ok (o : option Z) : bool := match o with Some z => u64_ok z | None => true end.

(* what the validator looks at in a value text *)
Record value_text := {
  v_int : option Z;   (* Some z: the text is a from_chars integer literal of value z *)
  v_fp : bool;        (* can_be_parsed_as_fp accepts the text (oracle: strtof/strtod) *)
  v_len : Z;          (* number of bytes of the text *)
  v_first : Z }.      (* first byte as a (signed) char *)

Definition int_fits (z : Z) (p : prim) : bool :=
  if is_fp p then true else ((prim_min p <=? z) && (z <=? prim_max p))%bool.

(* value_fits_into_type *)
Definition value_fits (v : value_text) (p : prim) : bool :=
  if v_len v <=? 0 then false
  else if is_fp p then v_fp v
  else match v_int v with
       | Some z => ((prim_min p <=? z) && (z <=? prim_max p))%bool
       | None => false
       end.

(* ------------------------------------------------------------------ *)
(* AST                                                                 *)
(* ------------------------------------------------------------------ *)

Inductive presence_kind := PRequired | POptional | PConstant.

Definition presence_eqb (a b : presence_kind) : bool :=
  match a, b with
  | PRequired, PRequired | POptional, POptional | PConstant, PConstant => true
  | _, _ => false
  end.

Record type_def := {
  t_name : str; t_prim : str; t_presence : presence_kind; t_length : Z;
  t_offset : option Z; t_min : option value_text; t_max : option value_text; t_null : option value_text;
  t_const : option value_text; t_vref : option str }.

Record enum_def := {
  e_name : str; e_type : str; e_offset : option Z;
  e_values : list (str * value_text) }.

Record set_def := {
  s_name : str; s_type : str; s_offset : option Z;
  s_choices : list (str * Z) }.

Inductive element_def :=
| EType (t : type_def)
| EEnum (e : enum_def)
| ESet (s : set_def)
| ERef (name : str) (type : str) (offset : option Z)
| EComposite (name : str) (offset : option Z) (els : list element_def).

Definition ename (e : element_def) : str :=
  match e with
  | EType t => t_name t | EEnum e => e_name e | ESet s => s_name s
  | ERef n _ _ => n | EComposite n _ _ => n
  end.

Definition eoffset (e : element_def) : option Z :=
  match e with
  | EType t => t_offset t | EEnum e => e_offset e | ESet s => s_offset s
  | ERef _ _ o => o | EComposite _ o _ => o
  end.

Record field_def := {
  f_name : str; f_type : str; f_offset : option Z; f_presence : presence_kind;
  f_vref : option str }.

Record data_def := { d_name : str; d_type : str }.

Inductive group_def :=
| GroupDef (name : str) (dim : str) (bl : option Z)
        (fields : list field_def) (groups : list group_def) (data : list data_def).

Record message_def := {
  m_name : str; m_id : Z; m_bl : option Z;
  m_fields : list field_def; m_groups : list group_def; m_data : list data_def }.

Record schema_def := {
  sc_name : str;          (* --schema-name or messageSchema.package *)
  sc_header : str;        (* headerType *)
  sc_types : list element_def;   (* public encodings *)
  sc_messages : list message_def }.

(* get_encoding: case-insensitive lookup among the public encodings *)
Fixpoint lookup (env : list element_def) (lname : str) : option element_def :=
  match env with
  | [] => None
  | e :: r => if str_eqb (to_lower (ename e)) lname then Some e else lookup r lname
  end.

Definition get_encoding (env : list element_def) (name : str) : option element_def :=
  lookup env (to_lower name).

(* utils::find_composite_element: first element with exactly this name *)
Fixpoint find_element (els : list element_def) (name : str) : option element_def :=
  match els with
  | [] => None
  | e :: r => if str_eqb (ename e) name then Some e else find_element r name
  end.

(* ------------------------------------------------------------------ *)
(* sizes, declaratively                                                *)
(* ------------------------------------------------------------------ *)

(* a composite member takes no space when it is a constant type, or a ref to a
   public constant type *)
Definition is_const_type (e : element_def) : bool :=
  match e with EType t => presence_eqb (t_presence t) PConstant | _ => false end.

Definition takes_no_space (env : list element_def) (e : element_def) : bool :=
  match e with
  | ERef _ ty _ => match get_encoding env ty with Some tgt => is_const_type tgt | None => false end
  | _ => is_const_type e
  end.

(* primitive type an enum/set is encoded with: a primitive name, or a public
   <type> of length 1 *)
Definition encoding_prim_name (env : list element_def) (ty : str) : option str :=
  match prim_of_name ty with
  | Some _ => Some ty
  | None =>
    match get_encoding env ty with
    | Some (EType t) => if t_length t =? 1 then Some (t_prim t) else None
    | _ => None
    end
  end.

Definition encoding_prim (env : list element_def) (ty : str) : option prim :=
  match encoding_prim_name env ty with Some n => prim_of_name n | None => None end.

(* end of a sequence of members given last-to-first: the last member sits at
   its explicit offset or right after its predecessor *)
Fixpoint end_of (rev_items : list (option Z * option Z)) : Z :=
  match rev_items with
  | [] => 0
  | (_, None) :: before => end_of before               (* takes no space *)
  | (Some o, Some sz) :: _ => o + sz
  | (None, Some sz) :: before => end_of before + sz
  end.

(* [esize env fuel e]: encoded size of [e]; None when a reference chain does
   not end within [fuel] steps, a type is unknown or of no size *)
Fixpoint esize (env : list element_def) (fuel : nat) (e : element_def) {struct fuel} : option Z :=
  match fuel with
  | O => None
  | S fuel' =>
    (fix go (e : element_def) : option Z :=
       match e with
       | EType t => match prim_of_name (t_prim t) with
                    | Some p => Some (t_length t * psize p)
                    | None => None
                    end
       | EEnum en => option_map psize (encoding_prim env (e_type en))
       | ESet st => option_map psize (encoding_prim env (s_type st))
       | ERef _ ty _ => match get_encoding env ty with
                        | Some tgt => esize env fuel' tgt
                        | None => None
                        end
       | EComposite _ _ els =>
         (fix items (els : list element_def) (acc : list (option Z * option Z)) : option Z :=
            match els with
            | [] => Some (end_of acc)
            | m :: r =>
              match go m with
              | None => None
              | Some sz =>
                items r ((eoffset m, if takes_no_space env m then None else Some sz) :: acc)
              end
            end) els []
       end) e
  end.

Definition size_of (env : list element_def) (e : element_def) : option Z :=
  esize env (S (List.length env)) e.

(* (explicit offset, size or None for no space) of the members, first to last *)
Definition member_item (env : list element_def) (m : element_def) : option (option Z * option Z) :=
  match size_of env m with
  | None => None
  | Some sz => Some (eoffset m, if takes_no_space env m then None else Some sz)
  end.

Fixpoint items_of (env : list element_def) (els : list element_def) : option (list (option Z * option Z)) :=
  match els with
  | [] => Some []
  | m :: r => match member_item env m, items_of env r with
              | Some i, Some l => Some (i :: l)
              | _, _ => None
              end
  end.

(* THE OFFSET RULE: every explicit offset of a space-taking member is at least
   the end of the members before it, and no member ends beyond 2^64-1 *)
Fixpoint offsets_ok_from (before_rev rest : list (option Z * option Z)) : bool :=
  match rest with
  | [] => true
  | it :: r =>
    (match it with
     | (Some o, Some _) => end_of before_rev <=? o
     | _ => true
     end && (end_of (it :: before_rev) <=? max_u64) && offsets_ok_from (it :: before_rev) r)%bool
  end.

Definition offsets_ok (items : list (option Z * option Z)) : bool := offsets_ok_from [] items.

(* ------------------------------------------------------------------ *)
(* per-entity rules                                                    *)
(* ------------------------------------------------------------------ *)

Definition opt_fits (o : option value_text) (p : prim) : bool :=
  match o with Some v => value_fits v p | None => true end.

(* a valueRef "Enum.Value" names a validValue of a public enum whose value is
   representable in [p] *)
Definition enum_value_fits (en : enum_def) (v : value_text) (p : prim) : bool :=
  if str_eqb (e_type en) k_char then int_fits (v_first v) p else value_fits v p.

Fixpoint find_value (vals : list (str * value_text)) (n : str) : option value_text :=
  match vals with
  | [] => None
  | (m, v) :: r => if str_eqb m n then Some v else find_value r n
  end.

Definition resolve_value_ref (env : list element_def) (vref : str) : option (enum_def * value_text) :=
  match split_dot vref with
  | Some (en, vn) =>
    if (is_empty en || is_empty vn)%bool then None else
    match get_encoding env en with
    | Some (EEnum e) => match find_value (e_values e) vn with
                        | Some v => Some (e, v)
                        | None => None
                        end
    | _ => None
    end
  | None => None
  end.

Definition value_ref_ok (env : list element_def) (vref : str) (p : prim) : bool :=
  match resolve_value_ref env vref with
  | Some (e, v) => enum_value_fits e v p
  | None => false
  end.

(* RULE (values): min/max/null/constant are representable in the primitive
   type; arrays are single-byte; a constant has exactly one of value/valueRef *)
Definition type_sem (env : list element_def) (t : type_def) : bool :=
  match prim_of_name (t_prim t) with
  | None => false
  | Some p =>
    match t_presence t with
    | PConstant =>
      match t_vref t, t_const t with
      | Some r, None => (value_ref_ok env r p && (t_length t =? 1))%bool
      | None, Some v =>
        match p with
        | PChar => v_len v <=? t_length t
        | _ => (value_fits v p && (t_length t =? 1))%bool
        end
      | _, _ => false
      end
    | pr =>
      if t_length t =? 1
      then (opt_fits (t_min t) p && opt_fits (t_max t) p &&
            (if presence_eqb pr POptional then opt_fits (t_null t) p else true))%bool
      else is_single_byte p
    end
  end.

(* RULE (enum): encoded as char or an integer; every validValue representable *)
Definition enum_sem (env : list element_def) (e : enum_def) : bool :=
  match encoding_prim env (e_type e) with
  | Some p =>
    (negb (is_fp p) &&
     forallb (fun nv => match p with
                        | PChar => v_len (snd nv) =? 1
                        | _ => value_fits (snd nv) p
                        end) (e_values e))%bool
  | None => false
  end.

(* RULE (set): encoded as an unsigned integer; every choice index inside it *)
Definition set_sem (env : list element_def) (s : set_def) : bool :=
  match encoding_prim env (s_type s) with
  | Some p => (is_unsigned_prim p && forallb (fun nc => snd nc <? 8 * psize p) (s_choices s))%bool
  | None => false
  end.

(* the semantic rule of one element, not looking inside nested composites *)
Definition sem_ok (env : list element_def) (e : element_def) : bool :=
  match e with
  | EType t => type_sem env t
  | EEnum en => enum_sem env en
  | ESet st => set_sem env st
  | ERef _ ty _ => match get_encoding env ty with Some _ => true | None => false end
  | EComposite _ _ els =>
    match items_of env els with
    | Some items => offsets_ok items
    | None => false
    end
  end.

(* names an element introduces *)
Definition own_names (e : element_def) : list str :=
  ename e :: match e with
             | EEnum en => map fst (e_values en)
             | ESet st => map fst (s_choices st)
             | _ => []
             end.

(* RULE (numbers): numeric attributes are representable in their C++ types
   (offset_t, length_t: 64 bit; choice_index_t: 8 bit) *)
Definition numbers_ok (e : element_def) : bool :=
  (opt_u64_ok (eoffset e) &&
   match e with
   | EType t => u64_ok (t_length t)
   | ESet st => forallb (fun nc => (0 <=? snd nc) && (snd nc <=? 255)) (s_choices st)
   | _ => true
   end)%bool.

(* RULE (uniqueness) inside one element *)
Definition unique_ok (e : element_def) : bool :=
  match e with
  | EEnum en => nodup_str (map fst (e_values en))
  | ESet st => nodup_str (map fst (s_choices st))
  | EComposite _ _ els => nodup_str (map ename els)
  | _ => true
  end.

Definition element_rule (env : list element_def) (e : element_def) : bool :=
  (forallb name_ok (own_names e) && numbers_ok e && unique_ok e && sem_ok env e)%bool.

(* every element of the schema, nested ones included *)
Fixpoint flatten (e : element_def) : list element_def :=
  e :: match e with
       | EComposite _ _ els =>
         (fix fl (els : list element_def) : list element_def :=
            match els with [] => [] | m :: r => flatten m ++ fl r end) els
       | _ => []
       end.

Definition all_elements (env : list element_def) : list element_def := flat_map flatten env.

Definition is_ref (e : element_def) : bool := match e with ERef _ _ _ => true | _ => false end.

(* ------------------------------------------------------------------ *)
(* level headers                                                       *)
(* ------------------------------------------------------------------ *)

(* the <type> behind a header member: the member itself or the public type a
   ref names *)
Definition header_member_type (env : list element_def) (els : list element_def) (name : str)
  : option type_def :=
  match find_element els name with
  | Some (EType t) => Some t
  | Some (ERef _ ty _) => match get_encoding env ty with Some (EType t) => Some t | _ => None end
  | _ => None
  end.

Definition scalar_member_ok (env : list element_def) (els : list element_def) (name : str) : bool :=
  match header_member_type env els name with
  | Some t => ((t_length t =? 1) && negb (presence_eqb (t_presence t) PConstant))%bool
  | None => false
  end.

Definition level_header_ok (env : list element_def) (ty : str) (required : list str) : bool :=
  match get_encoding env ty with
  | Some (EComposite _ _ els) => forallb (scalar_member_ok env els) required
  | _ => false
  end.

Definition message_header_members : list str := [k_schemaId; k_templateId; k_version; k_blockLength].
Definition group_header_members : list str := [k_numInGroup; k_blockLength].

Definition data_header_ok (env : list element_def) (ty : str) : bool :=
  match get_encoding env ty with
  | Some (EComposite _ _ els) =>
    (scalar_member_ok env els k_length &&
     match header_member_type env els k_varData with
     | Some t => t_length t =? 0
     | None => false
     end)%bool
  | _ => false
  end.

(* ------------------------------------------------------------------ *)
(* message levels                                                      *)
(* ------------------------------------------------------------------ *)

(* presence the generator uses for a field (get_actual_presence) *)
Definition field_is_constant (env : list element_def) (f : field_def) : bool :=
  match prim_of_name (f_type f) with
  | Some _ => presence_eqb (f_presence f) PConstant
  | None =>
    match get_encoding env (f_type f) with
    | Some (EType t) => presence_eqb (t_presence t) PConstant
    | Some (ESet _) => false
    | Some _ => presence_eqb (f_presence f) PConstant
    | None => false
    end
  end.

Definition field_size (env : list element_def) (f : field_def) : option Z :=
  match prim_of_name (f_type f) with
  | Some p => Some (psize p)
  | None => match get_encoding env (f_type f) with
            | Some e => size_of env e
            | None => None
            end
  end.

Definition field_item (env : list element_def) (f : field_def) : option (option Z * option Z) :=
  match field_size env f with
  | None => None
  | Some sz => Some (f_offset f, if field_is_constant env f then None else Some sz)
  end.

Fixpoint field_items (env : list element_def) (fs : list field_def) : option (list (option Z * option Z)) :=
  match fs with
  | [] => Some []
  | f :: r => match field_item env f, field_items env r with
              | Some i, Some l => Some (i :: l)
              | _, _ => None
              end
  end.

(* a constant field takes its value_text from a valueRef *)
Definition constant_field_ok (env : list element_def) (f : field_def) : bool :=
  match prim_of_name (f_type f) with
  | Some p => match f_vref f with Some r => value_ref_ok env r p | None => false end
  | None =>
    match get_encoding env (f_type f) with
    | Some (EType _) => true
    | Some (EEnum _) =>
      match f_vref f with
      | Some r => match resolve_value_ref env r with
                  | Some (e, _) => str_eqb (to_lower (f_type f)) (to_lower (e_name e))
                  | None => false
                  end
      | None => false
      end
    | _ => false
    end
  end.

(* RULE (field): its type exists; a constant field has a usable valueRef *)
Definition field_sem (env : list element_def) (f : field_def) : bool :=
  (match field_size env f with Some _ => true | None => false end &&
   (if field_is_constant env f then constant_field_ok env f else true))%bool.

(* RULE (block): field offsets in order, blockLength covers the fields *)
Definition block_ok (env : list element_def) (fs : list field_def) (bl : option Z) : bool :=
  match field_items env fs with
  | Some items =>
    (offsets_ok items &&
     match bl with Some b => end_of (rev items) <=? b | None => true end)%bool
  | None => false
  end.

Definition level_names (fs : list field_def) (gnames : list str) (ds : list data_def) : list str :=
  map f_name fs ++ gnames ++ map d_name ds.

Definition level_rule (env : list element_def) (fs : list field_def) (gnames : list str)
           (ds : list data_def) (bl : option Z) : bool :=
  (forallb (fun f => name_ok (f_name f)) fs && forallb (fun d => name_ok (d_name d)) ds &&
   forallb (fun f => opt_u64_ok (f_offset f)) fs && opt_u64_ok bl &&
   nodup_str (level_names fs gnames ds) &&
   forallb (field_sem env) fs && block_ok env fs bl &&
   forallb (fun d => data_header_ok env (d_type d)) ds)%bool.

Definition gname (g : group_def) : str := match g with GroupDef n _ _ _ _ _ => n end.

Fixpoint group_rule (env : list element_def) (g : group_def) : bool :=
  match g with
  | GroupDef n dim bl fs gs ds =>
    (name_ok n && level_header_ok env dim group_header_members &&
     level_rule env fs (map gname gs) ds bl &&
     (fix all (gs : list group_def) : bool :=
        match gs with [] => true | g' :: r => group_rule env g' && all r end) gs)%bool
  end.

Definition message_rule (env : list element_def) (m : message_def) : bool :=
  (name_ok (m_name m) && (0 <=? m_id m) && (m_id m <=? 4294967295) &&
   level_rule env (m_fields m) (map gname (m_groups m)) (m_data m) (m_bl m) &&
   forallb (group_rule env) (m_groups m))%bool.

(* ------------------------------------------------------------------ *)
(* the specification                                                   *)
(* ------------------------------------------------------------------ *)

Definition rules_ok (s : schema_def) : bool :=
  let env := sc_types s in
  (schema_name_ok (sc_name s) &&
   (* public encodings: no refs, names unique ignoring case *)
   forallb (fun e => negb (is_ref e)) env &&
   nodup_str (map (fun e => to_lower (ename e)) env) &&
   (* every entity satisfies its own rule *)
   forallb (element_rule env) (all_elements env) &&
   (* every reference chain ends: each public encoding has a size *)
   forallb (fun e => match size_of env e with Some _ => true | None => false end) env &&
   (* headers *)
   level_header_ok env (sc_header s) message_header_members &&
   (* messages *)
   nodup_str (map m_name (sc_messages s)) && nodup_z (map m_id (sc_messages s)) &&
   forallb (message_rule env) (sc_messages s))%bool.

(* ------------------------------------------------------------------ *)
(* layouts (for accepted_no_overlap)                                   *)
(* ------------------------------------------------------------------ *)

(* offsets assigned to space-taking members, first to last: (offset, size) *)
Fixpoint assign (cur : Z) (items : list (option Z * option Z)) : list (Z * Z) :=
  match items with
  | [] => []
  | (_, None) :: r => assign cur r
  | (Some o, Some sz) :: r => (o, sz) :: assign (o + sz) r
  | (None, Some sz) :: r => (cur, sz) :: assign (cur + sz) r
  end.
