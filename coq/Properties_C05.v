(* Properties_C05.v — C05: all size computations agree with the encoded size. *)
From Coq Require Import ZArith List.
From Sbepp Require Import CInt Bytes BytesFacts Msg Layout Wire MsgSpec LayoutProofs MsgProofs.
Import ListNotations.
Local Open Scope Z_scope.

(* run-time size_bytes(message) = length of the SBE image, for every shape and
   every wire block length *)
Theorem C05_msg_size_bytes_is_image_length : stmt_msg_size_bytes_enc.
Proof. exact msg_size_bytes_enc. Qed.
Print Assumptions C05_msg_size_bytes_is_image_length.

(* every nested level / group: the walk used by size_bytes of groups, entries
   and by get_dynamic_field_view ends at the end of the member's image *)
Theorem C05_level_end_is_image_end : stmt_level_end_enc.
Proof. exact level_end_enc. Qed.
Print Assumptions C05_level_end_is_image_end.

Theorem C05_groups_end_is_image_end : stmt_groups_end_enc.
Proof. exact groups_end_enc. Qed.
Print Assumptions C05_groups_end_is_image_end.

(* flat groups: the arithmetic size (through CInt, in size_t) is exact for
   every header type pair whenever the true size fits size_t *)
Theorem C05_flat_group_size_exact : forall d n bl,
  is_unsigned_ity (d_bl_t d) -> 0 <= d_size d -> 0 <= n -> 0 <= bl ->
  d_size d + n * bl < 2 ^ 64 -> n < 2 ^ 64 -> bl < 2 ^ 64 ->
  flat_group_size d n bl = Some (d_size d + n * bl).
Proof. exact flat_group_size_ok. Qed.
Print Assumptions C05_flat_group_size_exact.

(* the code before the fix: the product is formed in the promoted header
   types -- undefined (signed int overflow) for uint16 x uint16, wraps modulo
   2^32 for uint32 x uint32 *)
Example C05_legacy_refuted_u16 :
  Msg.LegacyMsg.flat_group_size
    {| d_size := 4; d_bl_off := 0; d_bl_t := U16; d_n_off := 2; d_n_t := U16; d_fills := nil |}
    65535 65535 = None.
Proof. vm_compute. reflexivity. Qed.

Example C05_legacy_refuted_u32 :
  Msg.LegacyMsg.flat_group_size
    {| d_size := 8; d_bl_off := 0; d_bl_t := U32; d_n_off := 4; d_n_t := U32; d_fills := nil |}
    65536 65536 = Some 8.
Proof. vm_compute. reflexivity. Qed.

(* a level without groups and data: header size + wire blockLength, in size_t,
   for every blockLength header type *)
Theorem C05_flat_level_size_exact : forall hdr bl,
  0 <= hdr -> 0 <= bl -> hdr + bl < 2 ^ 64 -> flat_level_size hdr bl = Some (hdr + bl).
Proof. exact flat_level_size_ok. Qed.
Print Assumptions C05_flat_level_size_exact.

(* the code before 4be05dc added an int literal to the blockLength in the
   blockLength's own type: a uint32 blockLength of 2^32-4 and an 10-byte header
   gave 6 *)
Example C05_legacy_flat_level_refuted_u32 :
  (Msg.LegacyMsg.flat_level_size U32 10 4294967292 = Some 6) /\
  (flat_level_size 10 4294967292 = Some 4294967302).
Proof. vm_compute. split; reflexivity. Qed.

From Sbepp Require Import Cursor CursorSpec CursorProofs.

(* the generated trait-level formula message_traits::size_bytes(counts...,
   total_data_size) -- one count per group in pre-order times the per-entry
   constant, plus headers and total data -- equals the length of the image for
   every value tree encoded under the current schema *)
Theorem C05_trait_size_is_image_length : stmt_trait_size_is_image_length.
Proof. exact trait_size_is_image_length. Qed.
Print Assumptions C05_trait_size_is_image_length.

(* the cursor-based size after a full traversal: the cursor ends at the end of
   the image *)
Theorem C05_cursor_size_after_traversal : stmt_trav_message_enc''.
Proof. exact trav_message_enc''. Qed.
Print Assumptions C05_cursor_size_after_traversal.
