(* Constness.v — capability model of sbepp's compile-time const protection
   (property C11).

   sbepp views (message / group / entry / composite / static_array_ref /
   dynamic_array_ref) and cursors are class templates over a byte type.  What a
   client may do with a view is decided at compile time by three SFINAE guards
   of sbepp.hpp

     enable_if_writable_t<Byte>                 = enable_if<!is_const<Byte>>
     enable_if_convertible_t<From, To>          = enable_if<is_convertible<From*, To*>>
     enable_if_cursor_compatible_t<Byte, CByte> = enable_if_convertible_t<Byte, CByte>
     enable_if_cursor_writeable_t<Byte, CByte>  = enable_if<is_convertible<Byte*, CByte*>
                                                    && !is_const<Byte> && !is_const<CByte>>

   and, behind the guard, by whether the body of the selected function template
   is well formed for that byte type (a body that stores through a
   [const char*] is ill formed).  This file records, for every kind of
   operation the library and the generated classes offer,

     [guard_of]   the requirement in the *declaration* (what overload
                  resolution / SFINAE / is_invocable sees),
     [body_of]    the requirement of the *body* once selected,
     [is_mutator] whether the operation stores into the buffer,
     [uses_cursor], [result_byte] (byte type of the view / cursor / pointer the
                  operation hands back).

   [viable] is what a detection idiom observes, [can_call] is "the call
   compiles".  Byte types range over {char, const char}: the two constness
   levels the guards distinguish.

   The main definitions describe the code with the repair of fix_c11.diff
   (group [resize]/[clear] carry enable_if_writable_t like every other mutator);
   [Legacy] is the code before it, where the two were unguarded templates-free
   members whose bodies fail for a const byte type.

   Everything lives in [Module C11] so that the extracted OCaml names cannot
   clash with other models.  Definitions only; lemmas are in
   ConstnessProofs.v. *)
From Coq Require Import Bool List.
Import ListNotations.

Module C11.

(* byte type of a view: char / const char *)
Inductive byte_const := ByteMut | ByteConst.
(* byte type of a cursor (or cursor wrapper) *)
Inductive cursor_const := CursorMut | CursorConst.

Definition is_const (b : byte_const) : bool :=
  match b with ByteConst => true | ByteMut => false end.
Definition cur_is_const (c : cursor_const) : bool :=
  match c with CursorConst => true | CursorMut => false end.
Definition cursor_of_byte (b : byte_const) : cursor_const :=
  match b with ByteConst => CursorConst | ByteMut => CursorMut end.
Definition byte_of_cursor (c : cursor_const) : byte_const :=
  match c with CursorConst => ByteConst | CursorMut => ByteMut end.

(* std::is_convertible<From*, To*>::value for From, To in {char, const char}:
   a qualification conversion may add const, never drop it *)
Definition ptr_convertible (from_const to_const : bool) : bool :=
  implb from_const to_const.

(* [b2] is at least as const as [b1] *)
Definition const_le (b1 b2 : byte_const) : bool :=
  ptr_convertible (is_const b1) (is_const b2).

(* ------------------------------------------------------------------ *)
(* compile-time requirements on (Byte, CursorByte)                     *)
(* ------------------------------------------------------------------ *)
Inductive req :=
| ReqTrue             (* no requirement *)
| ReqWritable         (* !is_const<Byte>                      enable_if_writable_t *)
| ReqCompatible       (* is_convertible<Byte*, CByte*>        enable_if_cursor_compatible_t *)
| ReqCursorWriteable  (* compatible && !const Byte && !const CByte   enable_if_cursor_writeable_t *)
| ReqCursorMutable    (* !is_const<CByte>: stores through the cursor's own pointer *)
| ReqCursorToView     (* is_convertible<CByte*, Byte*>: entry_base(cursor<CByte>&, Byte*, ...) *)
| ReqSameByte         (* both of the above: Byte and CByte equally const *)
| ReqFalse.           (* never well formed (no such member) *)

Definition eval_req (r : req) (b : byte_const) (c : cursor_const) : bool :=
  match r with
  | ReqTrue => true
  | ReqWritable => negb (is_const b)
  | ReqCompatible => ptr_convertible (is_const b) (cur_is_const c)
  | ReqCursorWriteable =>
      ptr_convertible (is_const b) (cur_is_const c)
      && negb (is_const b) && negb (cur_is_const c)
  | ReqCursorMutable => negb (cur_is_const c)
  | ReqCursorToView => ptr_convertible (cur_is_const c) (is_const b)
  | ReqSameByte =>
      ptr_convertible (is_const b) (cur_is_const c) && ptr_convertible (cur_is_const c) (is_const b)
  | ReqFalse => false
  end.

Definition req_is_true (r : req) : bool :=
  match r with ReqTrue => true | _ => false end.

(* ------------------------------------------------------------------ *)
(* operations                                                          *)
(* ------------------------------------------------------------------ *)
(* value-semantics members (getter + setter) *)
Inductive vkind := ValScalar | ValEnum | ValSet.
(* reference-semantics members (getter returning a view) *)
Inductive rkind := RefArray | RefComposite | RefGroup | RefData.
(* any member of a message / entry / composite *)
Inductive mkind := MemValue (k : vkind) | MemConstant | MemRef (r : rkind).
(* members that have cursor accessors (constants have none) *)
Inductive ckind := CMemValue (k : vkind) | CMemRef (r : rkind).

(* v.f(...)  or  sbepp::get_by_tag<Tag>(v, ...) / set_by_tag<Tag>(v, ...) *)
Inductive access := AccDirect | AccByTag.
(* setters are also reachable through the variadic get_by_tag<Tag>(v, x) *)
Inductive saccess := SetAccDirect | SetAccByTag | SetAccViaGetByTag.
(* how the cursor is passed: c, cursor_ops::init(c), dont_move(c),
   init_dont_move(c), skip(c) *)
Inductive cform := CurPlain | CurInit | CurDontMove | CurInitDontMove | CurSkip.

Inductive group_reader :=
  GrSize | GrSbeSize | GrEmpty | GrMaxSize | GrBegin | GrEnd | GrDerefBegin | GrFront
| GrIndex | GrBack.                      (* the last two: flat groups only *)
Inductive group_cursor_op :=
  GcRange | GcSubrange1 | GcSubrange2 | GcBegin | GcEnd.

Inductive arr_reader :=
  ArIndex | ArFront | ArBack | ArData | ArBegin | ArEnd | ArRBegin | ArREnd
| ArSize | ArEmpty | ArMaxSize | ArRaw.
(* ways to obtain an lvalue of an element and assign to it *)
Inductive elem_way :=
  EwIndex | EwFront | EwBack | EwData | EwBegin | EwRBegin | EwRawIndex.

Inductive sarr_mut :=
  SmAssignString | SmAssignStringRange | SmAssignRange | SmFill
| SmAssignCount | SmAssignIter | SmAssignIlist.
Inductive darr_mut :=
  DmClear | DmResize | DmResizeValue | DmResizeDefaultInit | DmPushBack | DmPopBack
| DmErase | DmEraseRange | DmInsert | DmInsertCount | DmInsertIter | DmInsertIlist
| DmAssignCount | DmAssignIter | DmAssignIlist | DmAssignString | DmAssignRange.

Inductive arr_class := ArrStatic | ArrDynamic.

Inductive op :=
(* generated accessors of message / group-entry / composite classes *)
| CapGet (m : mkind) (a : access)                (* v.f() *)
| CapSetV (k : vkind) (a : saccess)              (* v.f(x) *)
| CapSetExplicitArgs (k : vkind)                 (* v.template f<void, void>(x): default guard argument overridden *)
| CapCurGet (m : ckind) (a : access) (w : cform) (* v.f(c) *)
| CapCurSet (k : vkind) (a : access) (w : cform) (* v.f(x, c) *)
(* header fillers *)
| CapFillMessageHeader | CapFillGroupHeader
(* whole-view helpers *)
| CapGetHeader | CapAddressof | CapSizeBytes | CapSizeBytesCursor | CapSizeBytesChecked
| CapInitCursor | CapInitConstCursor
| CapVisit | CapVisitChildren
| CapVisitCursor (group : bool) | CapVisitChildrenCursor (group : bool)
    (* visit(v, c, visitor) with a visitor that descends; [group]: v is itself a
       group view, whose entries are produced by v.cursor_range(c), i.e.
       Entry<Byte>{cursor<CByte>&, ...}.  (Groups reached from a message or an
       entry are obtained through the cursor accessor and already have the
       cursor's byte type.) *)
| CapMakeView | CapMakeConstView                    (* [b] is the constness of the pointer argument *)
(* groups *)
| CapGroupRead (r : group_reader)
| CapGroupResize | CapGroupClear
| CapGroupCursor (g : group_cursor_op)
| CapGroupCursorDeref                            (* *g.cursor_begin(c) *)
(* arrays *)
| CapSArrRead (r : arr_reader) | CapSArrStrlen | CapSArrStrlenR | CapSArrMut (m : sarr_mut)
| CapDArrRead (r : arr_reader) | CapDArrSbeSize | CapDArrMut (m : darr_mut)
| CapElemWrite (a : arr_class) (w : elem_way).   (* a[i] = x, *a.data() = x, ... *)

(* does the operation store into the buffer when it runs? *)
Definition is_mutator (o : op) : bool :=
  match o with
  | CapSetV _ _ | CapSetExplicitArgs _ | CapCurSet _ _ _
  | CapFillMessageHeader | CapFillGroupHeader
  | CapGroupResize | CapGroupClear
  | CapSArrMut _ | CapDArrMut _ | CapElemWrite _ _ => true
  | _ => false
  end.

Definition uses_cursor (o : op) : bool :=
  match o with
  | CapCurGet _ _ _ | CapCurSet _ _ _ | CapSizeBytesCursor | CapVisitCursor _ | CapVisitChildrenCursor _
  | CapGroupCursor _ | CapGroupCursorDeref => true
  | _ => false
  end.

(* requirement in the declaration: what SFINAE sees *)
Definition guard_of (o : op) : req :=
  match o with
  | CapGet _ _ => ReqTrue
  | CapSetV _ _ => ReqWritable
  | CapSetExplicitArgs _ => ReqTrue                 (* the caller supplied the guard's template argument *)
  | CapCurGet _ _ _ => ReqCompatible
  | CapCurSet _ _ _ => ReqCursorWriteable
  | CapFillMessageHeader | CapFillGroupHeader => ReqWritable
  | CapGetHeader | CapAddressof | CapSizeBytes | CapSizeBytesChecked => ReqTrue
  | CapSizeBytesCursor => ReqTrue                   (* size_bytes(T, cursor<B>) has no SFINAE *)
  | CapInitCursor | CapInitConstCursor => ReqTrue
  | CapVisit | CapVisitChildren | CapVisitCursor _ | CapVisitChildrenCursor _ => ReqTrue
  | CapMakeView | CapMakeConstView => ReqTrue
  | CapGroupRead _ => ReqTrue
  | CapGroupResize | CapGroupClear => ReqWritable
  | CapGroupCursor _ => ReqCompatible
  | CapGroupCursorDeref => ReqCompatible
  | CapSArrRead _ | CapDArrRead _ | CapSArrStrlen | CapSArrStrlenR | CapDArrSbeSize => ReqTrue
  | CapSArrMut _ | CapDArrMut _ => ReqWritable
  | CapElemWrite _ _ => ReqWritable                 (* element_type = apply_cv_qualifiers_t<Byte, Value> *)
  end.

(* requirement of the body once the declaration has been selected *)
Definition body_of (o : op) : req :=
  match o with
  | CapSetV _ _ | CapSetExplicitArgs _ => ReqWritable  (* set_primitive(Byte*, v) *)
  | CapCurSet _ _ CurPlain | CapCurSet _ _ CurDontMove => ReqCursorMutable  (* set_primitive(cursor ptr, v) *)
  | CapCurSet _ _ CurInit | CapCurSet _ _ CurInitDontMove => ReqWritable    (* set_primitive(view ptr, v) *)
  | CapCurSet _ _ CurSkip => ReqFalse                 (* skip_cursor_wrapper has no set_value *)
  | CapFillMessageHeader | CapFillGroupHeader => ReqWritable
  | CapSizeBytesCursor | CapVisitCursor false | CapVisitChildrenCursor false => ReqCompatible
  | CapVisitCursor true | CapVisitChildrenCursor true => ReqSameByte
  | CapGroupResize | CapGroupClear => ReqWritable      (* header.numInGroup(count) *)
  | CapGroupCursorDeref => ReqCursorToView          (* Entry<Byte>{cursor<CByte>&, ...} *)
  | CapSArrMut _ | CapDArrMut _ | CapElemWrite _ _ => ReqWritable
  | _ => ReqTrue
  end.

Definition viable (b : byte_const) (c : cursor_const) (o : op) : bool :=
  eval_req (guard_of o) b c.

Definition can_call (b : byte_const) (c : cursor_const) (o : op) : bool :=
  eval_req (guard_of o) b c && eval_req (body_of o) b c.

(* byte constness of the view / cursor / pointer / element reference the
   operation returns; [None] when it returns a value, void or an iterator
   object *)
Definition result_byte (o : op) (b : byte_const) (c : cursor_const) : option byte_const :=
  match o with
  | CapGet (MemRef _) _ => Some b
  | CapCurGet (CMemRef _) _ CurSkip => None
  | CapCurGet (CMemRef _) _ _ => Some (byte_of_cursor c)
  | CapFillMessageHeader | CapFillGroupHeader | CapGetHeader | CapAddressof => Some b
  | CapInitCursor => Some b
  | CapInitConstCursor => Some ByteConst
  | CapMakeView => Some b
  | CapMakeConstView => Some ByteConst
  | CapGroupRead GrDerefBegin | CapGroupRead GrFront | CapGroupRead GrIndex | CapGroupRead GrBack => Some b
  | CapGroupCursorDeref => Some b
  | CapSArrRead r | CapDArrRead r =>
      match r with
      | ArIndex | ArFront | ArBack | ArData | ArBegin | ArEnd | ArRaw => Some b
      | _ => None
      end
  | _ => None
  end.

(* ------------------------------------------------------------------ *)
(* conversions between instances of one view / cursor template         *)
(* ------------------------------------------------------------------ *)
Inductive vclass :=
  ViewMessage | ViewFlatGroup | ViewNestedGroup | ViewEntry | ViewComposite | ViewStaticArray | ViewDynArray.
(* is_convertible<From, To>, is_constructible<To, From>, is_assignable<To&, From> *)
Inductive conv_form := ConvImplicit | ConvConstruct | ConvAssign.

(* byte_range(const byte_range<Byte2>&) / entry_base(const entry_base<Byte2,..>&),
   both guarded by enable_if_convertible_t<Byte2, Byte>; assignment goes
   through the converting constructor and the implicit copy assignment *)
Definition view_conv (v : vclass) (f : conv_form) (from to : byte_const) : bool :=
  ptr_convertible (is_const from) (is_const to).

(* cursor(cursor<Byte2>) and operator=(cursor<Byte2>), same guard *)
Definition cursor_conv (f : conv_form) (from to : cursor_const) : bool :=
  ptr_convertible (cur_is_const from) (cur_is_const to).

(* ------------------------------------------------------------------ *)
(* enumeration of all operations (used by the harness to check that    *)
(* every operation kind is covered by at least one probe)              *)
(* ------------------------------------------------------------------ *)
Definition all_vkind := [ValScalar; ValEnum; ValSet].
Definition all_rkind := [RefArray; RefComposite; RefGroup; RefData].
Definition all_mkind := map MemValue all_vkind ++ [MemConstant] ++ map MemRef all_rkind.
Definition all_ckind := map CMemValue all_vkind ++ map CMemRef all_rkind.
Definition all_access := [AccDirect; AccByTag].
Definition all_saccess := [SetAccDirect; SetAccByTag; SetAccViaGetByTag].
Definition all_cform := [CurPlain; CurInit; CurDontMove; CurInitDontMove; CurSkip].
Definition all_group_reader :=
  [GrSize; GrSbeSize; GrEmpty; GrMaxSize; GrBegin; GrEnd; GrDerefBegin; GrFront; GrIndex; GrBack].
Definition all_group_cursor_op :=
  [GcRange; GcSubrange1; GcSubrange2; GcBegin; GcEnd].
Definition all_arr_reader :=
  [ArIndex; ArFront; ArBack; ArData; ArBegin; ArEnd; ArRBegin; ArREnd; ArSize; ArEmpty; ArMaxSize; ArRaw].
Definition all_elem_way := [EwIndex; EwFront; EwBack; EwData; EwBegin; EwRBegin; EwRawIndex].
Definition all_sarr_mut :=
  [SmAssignString; SmAssignStringRange; SmAssignRange; SmFill; SmAssignCount; SmAssignIter; SmAssignIlist].
Definition all_darr_mut :=
  [DmClear; DmResize; DmResizeValue; DmResizeDefaultInit; DmPushBack; DmPopBack; DmErase; DmEraseRange;
   DmInsert; DmInsertCount; DmInsertIter; DmInsertIlist; DmAssignCount; DmAssignIter; DmAssignIlist;
   DmAssignString; DmAssignRange].
Definition all_arr_class := [ArrStatic; ArrDynamic].

Definition all_ops : list op :=
  flat_map (fun m => map (CapGet m) all_access) all_mkind
  ++ flat_map (fun k => map (CapSetV k) all_saccess) all_vkind
  ++ map CapSetExplicitArgs all_vkind
  ++ flat_map (fun m => flat_map (fun a => map (CapCurGet m a) all_cform) all_access) all_ckind
  ++ flat_map (fun k => flat_map (fun a => map (CapCurSet k a) all_cform) all_access) all_vkind
  ++ [CapFillMessageHeader; CapFillGroupHeader; CapGetHeader; CapAddressof; CapSizeBytes; CapSizeBytesCursor;
      CapSizeBytesChecked; CapInitCursor; CapInitConstCursor; CapVisit; CapVisitChildren;
      CapVisitCursor false; CapVisitCursor true; CapVisitChildrenCursor false; CapVisitChildrenCursor true;
      CapMakeView; CapMakeConstView]
  ++ map CapGroupRead all_group_reader
  ++ [CapGroupResize; CapGroupClear]
  ++ map CapGroupCursor all_group_cursor_op
  ++ [CapGroupCursorDeref]
  ++ map CapSArrRead all_arr_reader ++ [CapSArrStrlen; CapSArrStrlenR] ++ map CapSArrMut all_sarr_mut
  ++ map CapDArrRead all_arr_reader ++ [CapDArrSbeSize] ++ map CapDArrMut all_darr_mut
  ++ flat_map (fun a => map (CapElemWrite a) all_elem_way) all_arr_class.

Definition all_vclass :=
  [ViewMessage; ViewFlatGroup; ViewNestedGroup; ViewEntry; ViewComposite; ViewStaticArray; ViewDynArray].
Definition all_conv_form := [ConvImplicit; ConvConstruct; ConvAssign].

(* ------------------------------------------------------------------ *)
(* the code before fix_c11.diff                                        *)
(* ------------------------------------------------------------------ *)
Module Legacy.
  (* flat_group_base::resize/clear and nested_group_base::resize/clear were
     plain member functions: always declared, body ill formed for const Byte *)
  Definition guard_of (o : op) : req :=
    match o with
    | CapGroupResize | CapGroupClear => ReqTrue
    | _ => guard_of o
    end.

  Definition viable (b : byte_const) (c : cursor_const) (o : op) : bool :=
    eval_req (guard_of o) b c.

  Definition can_call (b : byte_const) (c : cursor_const) (o : op) : bool :=
    eval_req (guard_of o) b c && eval_req (body_of o) b c.
End Legacy.

End C11.
