(* NamesProofs.v — proofs about Names.v (C07, part 2). *)
From Coq Require Import ZArith NArith List Bool Ascii String Lia Permutation.
From Sbepp Require Import Literals LiteralsProofs Names.
Import ListNotations.
Local Open Scope string_scope.

(* ------------------------------------------------------------------ *)
(* membership, suffixes                                                 *)
(* ------------------------------------------------------------------ *)
Lemma mem_In x l : mem x l = true <-> In x l.
Proof.
  unfold mem. rewrite existsb_exists. split.
  - intros (y & Hy & E). apply String.eqb_eq in E. subst. exact Hy.
  - intros H. exists x. split; [exact H|apply String.eqb_refl].
Qed.

Lemma mem_false x l : mem x l = false <-> ~ In x l.
Proof. rewrite <- mem_In. destruct (mem x l); split; congruence. Qed.

Lemma mem_app x a b : mem x (a ++ b) = mem x a || mem x b.
Proof. unfold mem. apply existsb_app. Qed.

Lemma append_inj_l a x y : (a ++ x = a ++ y)%string -> x = y.
Proof. induction a as [|c a IH]; cbn; [auto|]. intros [= H]. auto. Qed.

Lemma render_nat_inj n m : render_nat n = render_nat m -> n = m.
Proof.
  unfold render_nat. intros H.
  pose proof (parse_render (N.of_nat n)) as Hn. pose proof (parse_render (N.of_nat m)) as Hm.
  rewrite H in Hn. rewrite Hn in Hm. injection Hm as Hm. lia.
Qed.

Lemma suffixed_inj name n m : suffixed name n = suffixed name m -> n = m.
Proof.
  unfold suffixed. intros H. apply append_inj_l in H. apply (append_inj_l "_") in H.
  apply render_nat_inj. exact H.
Qed.

Lemma app_inj_len a : forall b x y, String.length a = String.length b ->
  (a ++ x = b ++ y)%string -> a = b /\ x = y.
Proof.
  induction a as [|c a IH]; intros [|d b] x y Hl H; cbn in *; try discriminate; [auto|].
  injection H as -> H. injection Hl as Hl. destruct (IH _ _ _ Hl H) as [-> ->]. auto.
Qed.

Lemma entry_of_inj a b : entry_of a = entry_of b -> a = b.
Proof.
  unfold entry_of. intros H. apply (app_inj_len a b "_entry" "_entry"); [|exact H].
  apply (f_equal String.length) in H. rewrite !string_length_app in H. lia.
Qed.

Lemma entry_of_neq a : entry_of a <> a.
Proof.
  unfold entry_of. intros H. apply (f_equal String.length) in H.
  rewrite string_length_app in H. cbn in H. lia.
Qed.

(* ------------------------------------------------------------------ *)
(* the search loop                                                      *)
(* ------------------------------------------------------------------ *)
Lemma first_free_good bad k n m :
  (n <= m < n + k)%nat -> bad m = false -> bad (first_free bad k n) = false.
Proof.
  revert n. induction k as [|k IH]; intros n Hm Hb; [lia|]. cbn [first_free].
  destruct (bad n) eqn:E; [|exact E].
  apply IH; [|exact Hb]. assert (m <> n) by (intros ->; congruence). lia.
Qed.

Lemma first_free_ge bad k n : (n <= first_free bad k n)%nat.
Proof.
  revert n. induction k as [|k IH]; intros n; cbn; [lia|].
  destruct (bad n); [|lia]. specialize (IH (S n)). lia.
Qed.

Lemma forallb_false_ex {A} (p : A -> bool) l : forallb p l = false -> exists x, In x l /\ p x = false.
Proof.
  induction l as [|a l IH]; cbn; [discriminate|]. destruct (p a) eqn:E.
  - intros H. destruct (IH H) as (x & Hx & Hp). exists x. auto.
  - intros _. exists a. auto.
Qed.

(* pigeonhole: an injective family cannot send |R|+1 indices into R *)
Lemma exists_free {B} (f : nat -> B) (inR : B -> bool) (R : list B) n :
  (forall x, inR x = true -> In x R) ->
  (forall a b, f a = f b -> a = b) ->
  exists m, (n <= m < n + S (List.length R))%nat /\ inR (f m) = false.
Proof.
  intros HR Hinj.
  destruct (forallb (fun m => inR (f m)) (seq n (S (List.length R)))) eqn:E.
  - exfalso. rewrite forallb_forall in E.
    assert (Hnd : NoDup (map f (seq n (S (List.length R))))).
    { apply FinFun.Injective_map_NoDup; [exact Hinj|apply seq_NoDup]. }
    assert (Hincl : incl (map f (seq n (S (List.length R)))) R).
    { intros x Hx. apply in_map_iff in Hx as (m & <- & Hm). apply HR, E, Hm. }
    pose proof (NoDup_incl_length Hnd Hincl) as Hl. rewrite map_length, seq_length in Hl. lia.
  - apply forallb_false_ex in E as (m & Hm & Hb). exists m. split; [|exact Hb].
    apply in_seq in Hm. lia.
Qed.

Lemma make_mangled_fresh name reserved : ~ In (make_mangled_name name reserved) reserved.
Proof.
  unfold make_mangled_name. apply mem_false.
  destruct (exists_free (suffixed name) (fun x => mem x reserved) reserved 0) as (m & Hm & Hb).
  - intros x. apply mem_In.
  - apply suffixed_inj.
  - exact (first_free_good (fun n => mem (suffixed name n) reserved) _ 0 m Hm Hb).
Qed.

Lemma make_mangled_shape name reserved : exists n, make_mangled_name name reserved = suffixed name n.
Proof. eexists. reflexivity. Qed.

Lemma suffixed_neq name n : suffixed name n <> name.
Proof.
  unfold suffixed. intros H. apply (f_equal String.length) in H.
  rewrite string_length_app in H. cbn in H. lia.
Qed.

(* make_mangled_group_info: both the group name and the entry name are new *)
Lemma group_bad_false name em res n :
  group_candidate_bad name em res n = false <->
  ~ In (suffixed name n) (em ++ res) /\ ~ In (entry_of (suffixed name n)) (em ++ res).
Proof.
  unfold group_candidate_bad. rewrite !orb_false_iff, !mem_false, !in_app_iff. tauto.
Qed.

Lemma make_mangled_group_fresh name em res :
  let g := make_mangled_group_name name em res in
  ~ In g (em ++ res) /\ ~ In (entry_of g) (em ++ res).
Proof.
  cbn zeta. unfold make_mangled_group_name. apply group_bad_false.
  set (R := (em ++ res)%list).
  set (T := (map (pair true) R ++ map (pair false) R)%list).
  set (h := fun n => if mem (suffixed name n) R then (true, suffixed name n)
                     else (false, entry_of (suffixed name n))).
  set (inT := fun x : bool * string => mem (snd x) R).
  destruct (exists_free h inT T 0) as (m & Hm & Hb).
  - intros [b x]. unfold inT. cbn. rewrite mem_In. intros Hx. unfold T.
    apply in_app_iff. destruct b; [left|right]; apply in_map; exact Hx.
  - intros a b. unfold h.
    destruct (mem (suffixed name a) R), (mem (suffixed name b) R); intros [= H];
      [apply suffixed_inj in H; exact H|apply entry_of_inj, suffixed_inj in H; exact H].
  - assert (Hlen : List.length T = (2 * List.length R)%nat).
    { unfold T. rewrite app_length, !map_length. lia. }
    rewrite Hlen in Hm.
    eapply (first_free_good _ _ 0 m Hm).
    unfold h, inT in Hb. unfold group_candidate_bad.
    fold R. replace (mem (suffixed name m) em || mem (suffixed name m) res) with (mem (suffixed name m) R)
      by (unfold R; apply mem_app).
    rewrite <- orb_assoc.
    replace (mem (entry_of (suffixed name m)) em || mem (entry_of (suffixed name m)) res)
      with (mem (entry_of (suffixed name m)) R) by (unfold R; apply mem_app).
    destruct (mem (suffixed name m) R) eqn:E1; cbn in Hb.
    + rewrite E1 in Hb. discriminate.
    + exact Hb.
Qed.

(* ------------------------------------------------------------------ *)
(* induction over nested encodings / groups                             *)
(* ------------------------------------------------------------------ *)
Definition elemP (P : enc -> Prop) (x : elem) : Prop :=
  match x with ERef _ => True | EEnc e => P e end.

Section EncInd.
  Variable P : enc -> Prop.
  Hypothesis HT : forall n k, P (EType n k).
  Hypothesis HE : forall n v, P (EEnum n v).
  Hypothesis HS : forall n c, P (ESet n c).
  Hypothesis HC : forall n es, Forall (elemP P) es -> P (EComposite n es).
  Fixpoint enc_ind' (e : enc) : P e :=
    match e with
    | EType n k => HT n k
    | EEnum n v => HE n v
    | ESet n c => HS n c
    | EComposite n es =>
      HC n es ((fix go (es : list elem) : Forall (elemP P) es :=
                  match es with
                  | [] => @Forall_nil _ (elemP P)
                  | x :: r => @Forall_cons _ (elemP P) x r
                      (match x return elemP P x with
                       | ERef _ => I
                       | EEnc e => enc_ind' e
                       end) (go r)
                  end) es)
    end.
End EncInd.

Section GroupInd.
  Variable P : group -> Prop.
  Hypothesis HG : forall n fs gs ds, Forall P gs -> P (Group n fs gs ds).
  Fixpoint group_ind' (g : group) : P g :=
    match g with
    | Group n fs gs ds =>
      HG n fs gs ds ((fix go (gs : list group) : Forall P gs :=
                        match gs with
                        | [] => @Forall_nil _ _
                        | x :: r => @Forall_cons _ _ x r (group_ind' x) (go r)
                        end) gs)
    end.
End GroupInd.

Lemma handle_enc_nested_eq NM e st :
  handle_enc_nested NM e st =
  match e with
  | EComposite _ es => handle_elems NM es (nested_step NM e st)
  | _ => nested_step NM e st
  end.
Proof.
  destruct e as [n k|n v|n c|n es]; try reflexivity. cbn [handle_enc_nested].
  generalize (nested_step NM (EComposite n es) st). induction es as [|x r IH]; intros s; [reflexivity|].
  destruct x; cbn [handle_elems]; apply IH.
Qed.

Lemma handle_group_eq NM g st :
  handle_group NM g st = handle_groups NM (group_subgroups g) (group_step NM g st).
Proof.
  destruct g as [n fs gs ds]. cbn [handle_group group_subgroups].
  generalize (group_step NM (Group n fs gs ds) st). induction gs as [|x r IH]; intros s; [reflexivity|].
  cbn [handle_groups]. apply IH.
Qed.

(* ------------------------------------------------------------------ *)
(* types                                                                *)
(* ------------------------------------------------------------------ *)
Record TInv (NM : list string) (st : tstate) : Prop := {
  ti_nodup : NoDup (detail_type_names (snd st));
  ti_incl : incl (detail_type_names (snd st)) (fst st);
  ti_mangled : forall a, In a (snd st) -> a_mangled a = true ->
               ~ In (a_impl a) NM /\ exists n, a_impl a = suffixed (a_name a) n;
  ti_members : forall a, In a (snd st) -> ~ In (a_impl a) (a_members a);
  ti_plain : forall a, In a (snd st) -> a_mangled a = false -> a_impl a = a_name a }.

Lemma TInv_add NM mangled out a newm :
  TInv NM (mangled, out) ->
  incl mangled newm ->
  (in_detail a = true -> ~ In (a_impl a) mangled /\ In (a_impl a) newm) ->
  (a_mangled a = true -> ~ In (a_impl a) NM /\ exists n, a_impl a = suffixed (a_name a) n) ->
  ~ In (a_impl a) (a_members a) ->
  (a_mangled a = false -> a_impl a = a_name a) ->
  TInv NM (newm, a :: out).
Proof.
  intros [I1 I2 I3 I4 I5] Hincl Hd Hm Hmem Hp. cbn [fst snd] in *.
  constructor; cbn [fst snd].
  - unfold detail_type_names. cbn [filter]. destruct (in_detail a) eqn:E; [|exact I1].
    cbn [map]. constructor; [|exact I1]. intros Hin. apply I2 in Hin. destruct (Hd eq_refl). contradiction.
  - unfold detail_type_names. cbn [filter]. destruct (in_detail a) eqn:E.
    + cbn [map]. intros x [<-|Hx]; [apply Hd; reflexivity|apply Hincl, I2, Hx].
    + intros x Hx. apply Hincl, I2, Hx.
  - intros b [<-|Hb]; [exact Hm|apply I3; exact Hb].
  - intros b [<-|Hb]; [exact Hmem|apply I4; exact Hb].
  - intros b [<-|Hb]; [exact Hp|apply I5; exact Hb].
Qed.

Lemma nested_step_inv NM e st : TInv NM st -> TInv NM (nested_step NM e st).
Proof.
  destruct st as [mangled out]. intros H. unfold nested_step.
  destruct (mem (enc_name e) (enc_members e) || mem (enc_name e) mangled) eqn:E.
  - pose proof (make_mangled_fresh (enc_name e) (enc_members e ++ mangled ++ NM)) as Hf.
    rewrite !in_app_iff in Hf.
    apply (TInv_add NM mangled out _ _ H); cbn [a_impl a_mangled a_members a_name a_public in_detail].
    + intros x Hx. right. exact Hx.
    + intros _. split; [tauto|left; reflexivity].
    + intros _. split; [tauto|apply make_mangled_shape].
    + tauto.
    + discriminate.
  - apply orb_false_iff in E as [E1 E2]. apply mem_false in E1, E2.
    apply (TInv_add NM mangled out _ _ H); cbn [a_impl a_mangled a_members a_name a_public in_detail].
    + intros x Hx. right. exact Hx.
    + intros _. split; [exact E2|left; reflexivity].
    + discriminate.
    + exact E1.
    + reflexivity.
Qed.

Lemma handle_elems_inv_gen NM es :
  Forall (elemP (fun e => forall st, TInv NM st -> TInv NM (handle_enc_nested NM e st))) es ->
  forall st, TInv NM st -> TInv NM (handle_elems NM es st).
Proof.
  induction 1 as [|x r Hx _ IH]; intros st H; [exact H|].
  destruct x; cbn [handle_elems]; apply IH; [exact H|apply Hx; exact H].
Qed.

Lemma handle_enc_nested_inv NM e : forall st, TInv NM st -> TInv NM (handle_enc_nested NM e st).
Proof.
  induction e as [n k|n v|n c|n es IH] using enc_ind'; intros st H; rewrite handle_enc_nested_eq;
    try (apply nested_step_inv; exact H).
  apply handle_elems_inv_gen; [exact IH|apply nested_step_inv; exact H].
Qed.

Lemma handle_elems_inv NM es st : TInv NM st -> TInv NM (handle_elems NM es st).
Proof.
  apply handle_elems_inv_gen. apply Forall_forall. intros [n|e] _; [exact I|].
  cbn [elemP]. intros s Hs. apply handle_enc_nested_inv. exact Hs.
Qed.

Lemma public_step_inv NM e st : TInv NM st -> TInv NM (public_step NM e st).
Proof.
  destruct st as [mangled out]. intros H. unfold public_step.
  set (st1 := if mem (enc_name e) (enc_members e) then _ else _).
  assert (H1 : TInv NM st1).
  { unfold st1. destruct (mem (enc_name e) (enc_members e)) eqn:E.
    - pose proof (make_mangled_fresh (enc_name e) (enc_members e ++ mangled ++ NM)) as Hf.
      rewrite !in_app_iff in Hf.
      apply (TInv_add NM mangled out _ _ H); cbn [a_impl a_mangled a_members a_name a_public in_detail].
      + intros x Hx. right. exact Hx.
      + intros _. split; [tauto|left; reflexivity].
      + intros _. split; [tauto|apply make_mangled_shape].
      + tauto.
      + discriminate.
    - apply mem_false in E.
      apply (TInv_add NM mangled out _ _ H); cbn [a_impl a_mangled a_members a_name a_public in_detail negb orb].
      + apply incl_refl.
      + discriminate.
      + discriminate.
      + exact E.
      + reflexivity. }
  destruct e; try exact H1. apply handle_elems_inv. exact H1.
Qed.

Lemma fold_public_inv NM types st :
  TInv NM st -> TInv NM (fold_left (fun st e => public_step NM e st) types st).
Proof.
  revert st. induction types as [|e r IH]; intros st H; [exact H|]. cbn [fold_left].
  apply IH, public_step_inv, H.
Qed.

Lemma TInv_init NM : TInv NM ([], []).
Proof.
  constructor; cbn [fst snd]; try (intros a []); try constructor.
Qed.

(* the public names are the schema names, in the order given *)
Lemma nested_step_public_names NM e st :
  public_type_names (snd (nested_step NM e st)) = public_type_names (snd st).
Proof.
  destruct st as [m o]; unfold nested_step;
  match goal with |- context [if ?b then _ else _] => destruct b end; reflexivity.
Qed.

Lemma elems_public_names_gen NM es :
  Forall (elemP (fun e => forall st, public_type_names (snd (handle_enc_nested NM e st)) =
                                     public_type_names (snd st))) es ->
  forall st, public_type_names (snd (handle_elems NM es st)) = public_type_names (snd st).
Proof.
  induction 1 as [|x r Hx _ IH]; intros st; [reflexivity|].
  destruct x; cbn [handle_elems]; rewrite IH; [reflexivity|apply Hx].
Qed.

Lemma nested_public_names NM e : forall st,
  public_type_names (snd (handle_enc_nested NM e st)) = public_type_names (snd st).
Proof.
  induction e as [n k|n v|n c|n es IH] using enc_ind'; intros st; rewrite handle_enc_nested_eq;
    try apply nested_step_public_names.
  rewrite (elems_public_names_gen NM es IH). apply nested_step_public_names.
Qed.

Lemma elems_public_names NM es st :
  public_type_names (snd (handle_elems NM es st)) = public_type_names (snd st).
Proof.
  apply elems_public_names_gen. apply Forall_forall. intros [n|e] _; [exact I|].
  cbn [elemP]. apply nested_public_names.
Qed.

Lemma public_step_names NM e st :
  public_type_names (snd (public_step NM e st)) = enc_name e :: public_type_names (snd st).
Proof.
  destruct st as [m o]. unfold public_step.
  set (st1 := if mem (enc_name e) (enc_members e) then _ else _).
  assert (H1 : public_type_names (snd st1) = enc_name e :: public_type_names o).
  { unfold st1. destruct (mem (enc_name e) (enc_members e)); reflexivity. }
  destruct e; try exact H1. rewrite elems_public_names. exact H1.
Qed.

Lemma fold_public_names NM types st :
  public_type_names (snd (fold_left (fun st e => public_step NM e st) types st)) =
  (rev (map enc_name types) ++ public_type_names (snd st))%list.
Proof.
  revert st. induction types as [|e r IH]; intros st; [reflexivity|]. cbn [fold_left map rev].
  rewrite IH, public_step_names, <- app_assoc. reflexivity.
Qed.

Lemma filter_rev {A} (f : A -> bool) l : filter f (rev l) = rev (filter f l).
Proof.
  induction l as [|a l IH]; [reflexivity|]. cbn [rev filter]. rewrite filter_app, IH. cbn [filter].
  destruct (f a); [reflexivity|apply app_nil_r].
Qed.

(* C07 (2), type side *)
Theorem type_names_ok : forall types,
  let r := generate_type_names types in
  let names := map enc_name types in
  NoDup (detail_type_names (tn_assigns r)) /\
  (forall a, In a (tn_assigns r) -> ~ In (a_impl a) (a_members a)) /\
  (forall a, In a (tn_assigns r) -> a_mangled a = true ->
     ~ In (a_impl a) names /\ exists n, a_impl a = suffixed (a_name a) n) /\
  (forall a, In a (tn_assigns r) -> a_mangled a = false -> a_impl a = a_name a) /\
  public_type_names (tn_assigns r) = names /\
  match tn_tag_types r with
  | Some t => In "types" names /\ ~ In t names /\ t <> "types"
  | None => ~ In "types" names
  end.
Proof.
  intros types r names.
  pose proof (fold_public_inv names types _ (TInv_init names)) as [I1 I2 I3 I4 I5].
  unfold r, generate_type_names. cbn [tn_assigns tn_tag_types]. fold names.
  set (st := fold_left _ types _) in *.
  repeat split.
  - unfold detail_type_names. rewrite filter_rev, map_rev. apply NoDup_rev. exact I1.
  - intros a Ha. apply I4. apply in_rev. exact Ha.
  - apply I3; [apply in_rev|]; assumption.
  - apply I3; [apply in_rev|]; assumption.
  - intros a Ha. apply I5. apply in_rev. exact Ha.
  - unfold public_type_names. rewrite filter_rev, map_rev.
    pose proof (fold_public_names names types ([], [])) as Hn. fold st in Hn.
    unfold public_type_names in Hn. rewrite Hn. cbn. rewrite app_nil_r, rev_involutive. reflexivity.
  - destruct (mem "types" names) eqn:E.
    + apply mem_In in E. repeat split; [exact E|apply make_mangled_fresh|].
      destruct (make_mangled_shape "types" names) as (n & ->). apply suffixed_neq.
    + apply mem_false. exact E.
Qed.

(* before the fix a scalar type named like a member it inherits from
   required_base kept its name: the class name hides that member *)
Example type_names_legacy_refuted :
  Legacy.public_type_impl "value" KRequired ["value"] = "value" /\
  In "value" (enc_members (EType "value" KRequired)) /\
  Legacy.group_needs_mangling (Group "size" ["x"] [] []) [] = false /\
  In "size" group_base_names.
Proof. vm_compute. repeat split; tauto. Qed.

Example type_names_nonvacuous :
  let r := generate_type_names
    [EComposite "C" [EEnc (EType "C" KRequired); EEnc (EEnum "min_value" ["x"])];
     EType "min_value" KRequired; EType "min_value_0" KRequired; ESet "types" ["a"]] in
  map a_impl (tn_assigns r) = ["C_0"; "C"; "min_value"; "min_value_1"; "min_value_0"; "types"] /\
  tn_tag_types r = Some "types_0".
Proof. vm_compute. split; reflexivity. Qed.

(* ------------------------------------------------------------------ *)
(* messages                                                             *)
(* ------------------------------------------------------------------ *)
Record MInv (NM : list string) (st : mstate) : Prop := {
  mi_nodup : NoDup (detail_message_names (snd st));
  mi_incl : incl (detail_message_names (snd st)) (fst st);
  mi_mangled : forall a, In a (snd st) -> g_mangled a = true ->
     ~ In (g_impl a) NM /\ (g_is_message a = false -> ~ In (g_entry a) NM) /\
     exists n, g_impl a = suffixed (g_name a) n;
  mi_members : forall a, In a (snd st) ->
     ~ In (g_impl a) (g_members a) /\ (g_is_message a = false -> ~ In (g_entry a) (g_members a));
  mi_plain : forall a, In a (snd st) -> g_mangled a = false -> g_impl a = g_name a;
  mi_entry : forall a, In a (snd st) -> g_is_message a = false -> g_entry a = entry_of (g_impl a) }.

Lemma NoDup_app' {A} (l l' : list A) :
  NoDup l -> NoDup l' -> (forall x, In x l -> ~ In x l') -> NoDup (l ++ l').
Proof.
  induction l as [|a l IH]; intros H1 H2 H3; [exact H2|]. cbn. inversion H1; subst.
  constructor.
  - rewrite in_app_iff. intros [H|H]; [contradiction|]. apply (H3 a); [left; reflexivity|exact H].
  - apply IH; auto. intros x Hx. apply H3. right. exact Hx.
Qed.

Lemma MInv_add NM mangled out a newm :
  MInv NM (mangled, out) ->
  incl mangled newm ->
  NoDup (msg_detail_names a) ->
  (forall x, In x (msg_detail_names a) -> ~ In x mangled /\ In x newm) ->
  (g_mangled a = true ->
     ~ In (g_impl a) NM /\ (g_is_message a = false -> ~ In (g_entry a) NM) /\
     exists n, g_impl a = suffixed (g_name a) n) ->
  (~ In (g_impl a) (g_members a) /\ (g_is_message a = false -> ~ In (g_entry a) (g_members a))) ->
  (g_mangled a = false -> g_impl a = g_name a) ->
  (g_is_message a = false -> g_entry a = entry_of (g_impl a)) ->
  MInv NM (newm, a :: out).
Proof.
  intros [I1 I2 I3 I4 I5 I6] Hincl Hnd Hd Hm Hmem Hp He. cbn [fst snd] in *.
  constructor; cbn [fst snd].
  - unfold detail_message_names. cbn [flat_map]. apply NoDup_app'; [exact Hnd|exact I1|].
    intros x Hx Hin. apply I2 in Hin. destruct (Hd x Hx). contradiction.
  - unfold detail_message_names. cbn [flat_map]. intros x Hx. apply in_app_iff in Hx as [Hx|Hx].
    + apply Hd; exact Hx.
    + apply Hincl, I2, Hx.
  - intros b [<-|Hb]; [exact Hm|apply I3; exact Hb].
  - intros b [<-|Hb]; [exact Hmem|apply I4; exact Hb].
  - intros b [<-|Hb]; [exact Hp|apply I5; exact Hb].
  - intros b [<-|Hb]; [exact He|apply I6; exact Hb].
Qed.

Lemma group_step_inv NM g st : MInv NM st -> MInv NM (group_step NM g st).
Proof.
  destruct st as [mangled out]. intros H. unfold group_step.
  set (name := group_name g). set (em := group_members g).
  destruct (mem name mangled || mem (entry_of name) mangled || mem (entry_of name) em || mem name em
            || mem name group_base_names) eqn:E.
  - pose proof (make_mangled_group_fresh name em (mangled ++ NM)) as [F1 F2]. cbn zeta in F1, F2.
    set (gn := make_mangled_group_name name em (mangled ++ NM)) in *.
    rewrite !in_app_iff in F1, F2.
    apply (MInv_add NM mangled out _ _ H);
      cbn [g_impl g_mangled g_members g_name g_entry g_is_message msg_detail_names].
    + intros x Hx. right. right. exact Hx.
    + constructor; [|constructor; [intros []|constructor]].
      intros [Hc|[]]. apply (entry_of_neq gn). exact Hc.
    + intros x [<-|[<-|[]]]; split; try tauto; [right; left; reflexivity|left; reflexivity].
    + intros _. split; [tauto|]. split; [tauto|]. eexists. reflexivity.
    + tauto.
    + discriminate.
    + reflexivity.
  - rewrite !orb_false_iff in E. destruct E as [[[[E1 E2] E3] E4] _]. apply mem_false in E1, E2, E3, E4.
    apply (MInv_add NM mangled out _ _ H);
      cbn [g_impl g_mangled g_members g_name g_entry g_is_message msg_detail_names].
    + intros x Hx. right. right. exact Hx.
    + constructor; [|constructor; [intros []|constructor]].
      intros [Hc|[]]. apply (entry_of_neq name). exact Hc.
    + intros x [<-|[<-|[]]]; split; try assumption; [right; left; reflexivity|left; reflexivity].
    + discriminate.
    + split; [exact E4|intros _; exact E3].
    + reflexivity.
    + reflexivity.
Qed.

Lemma handle_groups_inv_gen NM gs :
  Forall (fun g => forall st, MInv NM st -> MInv NM (handle_group NM g st)) gs ->
  forall st, MInv NM st -> MInv NM (handle_groups NM gs st).
Proof.
  induction 1 as [|x r Hx _ IH]; intros st H; [exact H|]. cbn [handle_groups]. apply IH, Hx, H.
Qed.

Lemma handle_group_inv NM g : forall st, MInv NM st -> MInv NM (handle_group NM g st).
Proof.
  induction g as [n fs gs ds IH] using group_ind'. intros st H. rewrite handle_group_eq.
  cbn [group_subgroups]. apply handle_groups_inv_gen; [exact IH|apply group_step_inv; exact H].
Qed.

Lemma handle_groups_inv NM gs st : MInv NM st -> MInv NM (handle_groups NM gs st).
Proof.
  apply handle_groups_inv_gen. apply Forall_forall. intros g _. apply handle_group_inv.
Qed.

Lemma message_step_inv NM m st : MInv NM st -> MInv NM (message_step NM m st).
Proof.
  destruct st as [mangled out]. intros H. unfold message_step. apply handle_groups_inv.
  destruct (mem (m_name m) (message_members m)) eqn:E.
  - pose proof (make_mangled_fresh (m_name m) (message_members m ++ mangled ++ NM)) as Hf.
    rewrite !in_app_iff in Hf.
    apply (MInv_add NM mangled out _ _ H);
      cbn [g_impl g_mangled g_members g_name g_entry g_is_message msg_detail_names].
    + intros x Hx. right. exact Hx.
    + constructor; [intros []|constructor].
    + intros x [<-|[]]. split; [tauto|left; reflexivity].
    + intros _. split; [tauto|]. split; [discriminate|apply make_mangled_shape].
    + split; [tauto|discriminate].
    + discriminate.
    + discriminate.
  - apply mem_false in E.
    apply (MInv_add NM mangled out _ _ H);
      cbn [g_impl g_mangled g_members g_name g_entry g_is_message msg_detail_names].
    + apply incl_refl.
    + constructor.
    + intros x [].
    + discriminate.
    + split; [exact E|discriminate].
    + reflexivity.
    + discriminate.
Qed.

Lemma fold_message_inv NM msgs st :
  MInv NM st -> MInv NM (fold_left (fun st m => message_step NM m st) msgs st).
Proof.
  revert st. induction msgs as [|m r IH]; intros st H; [exact H|]. cbn [fold_left].
  apply IH, message_step_inv, H.
Qed.

Lemma MInv_init NM : MInv NM ([], []).
Proof. constructor; cbn [fst snd]; try (intros a []); try constructor. Qed.

Lemma group_step_public NM g st :
  public_message_names (snd (group_step NM g st)) = public_message_names (snd st).
Proof.
  destruct st as [m o]. unfold group_step.
  match goal with |- context [if ?b then _ else _] => destruct b end; reflexivity.
Qed.

Lemma groups_public_gen NM gs :
  Forall (fun g => forall st, public_message_names (snd (handle_group NM g st)) =
                              public_message_names (snd st)) gs ->
  forall st, public_message_names (snd (handle_groups NM gs st)) = public_message_names (snd st).
Proof.
  induction 1 as [|x r Hx _ IH]; intros st; [reflexivity|]. cbn [handle_groups]. rewrite IH. apply Hx.
Qed.

Lemma group_public NM g : forall st,
  public_message_names (snd (handle_group NM g st)) = public_message_names (snd st).
Proof.
  induction g as [n fs gs ds IH] using group_ind'. intros st. rewrite handle_group_eq.
  cbn [group_subgroups]. rewrite (groups_public_gen NM gs IH). apply group_step_public.
Qed.

Lemma groups_public NM gs st :
  public_message_names (snd (handle_groups NM gs st)) = public_message_names (snd st).
Proof. apply groups_public_gen. apply Forall_forall. intros g _. apply group_public. Qed.

Lemma message_step_public NM m st :
  public_message_names (snd (message_step NM m st)) = m_name m :: public_message_names (snd st).
Proof.
  destruct st as [mg o]. unfold message_step. rewrite groups_public.
  destruct (mem (m_name m) (message_members m)); reflexivity.
Qed.

Lemma fold_message_public NM msgs st :
  public_message_names (snd (fold_left (fun st m => message_step NM m st) msgs st)) =
  (rev (map m_name msgs) ++ public_message_names (snd st))%list.
Proof.
  revert st. induction msgs as [|m r IH]; intros st; [reflexivity|]. cbn [fold_left map rev].
  rewrite IH, message_step_public, <- app_assoc. reflexivity.
Qed.

(* C07 (2), message side *)
Theorem message_names_ok : forall msgs,
  let r := generate_message_names msgs in
  let names := map m_name msgs in
  NoDup (detail_message_names (mn_assigns r)) /\
  (forall a, In a (mn_assigns r) ->
     ~ In (g_impl a) (g_members a) /\
     (g_is_message a = false -> ~ In (g_entry a) (g_members a) /\ g_entry a = entry_of (g_impl a))) /\
  (forall a, In a (mn_assigns r) -> g_mangled a = true ->
     ~ In (g_impl a) names /\ (g_is_message a = false -> ~ In (g_entry a) names) /\
     exists n, g_impl a = suffixed (g_name a) n) /\
  (forall a, In a (mn_assigns r) -> g_mangled a = false -> g_impl a = g_name a) /\
  public_message_names (mn_assigns r) = names /\
  match mn_tag_messages r with
  | Some t => In "messages" names /\ ~ In t names /\ t <> "messages"
  | None => ~ In "messages" names
  end.
Proof.
  intros msgs r names.
  pose proof (fold_message_inv names msgs _ (MInv_init names)) as [I1 I2 I3 I4 I5 I6].
  unfold r, generate_message_names. cbn [mn_assigns mn_tag_messages]. fold names.
  set (st := fold_left _ msgs _) in *.
  split; [|split; [|split; [|split; [|split]]]].
  - unfold detail_message_names. eapply Permutation_NoDup; [|exact I1].
    apply Permutation_flat_map, Permutation_rev.
  - intros a Ha. apply in_rev in Ha. destruct (I4 a Ha) as [M1 M2]. split; [exact M1|].
    intros Hg. split; [apply M2; exact Hg|apply I6; assumption].
  - intros a Ha Hm. apply in_rev in Ha. apply I3; assumption.
  - intros a Ha. apply I5. apply in_rev. exact Ha.
  - unfold public_message_names. rewrite filter_rev, map_rev.
    pose proof (fold_message_public names msgs ([], [])) as Hn. fold st in Hn.
    unfold public_message_names in Hn. rewrite Hn. cbn. rewrite app_nil_r, rev_involutive. reflexivity.
  - destruct (mem "messages" names) eqn:E.
    + apply mem_In in E. repeat split; [exact E|apply make_mangled_fresh|].
      destruct (make_mangled_shape "messages" names) as (n & ->). apply suffixed_neq.
    + apply mem_false. exact E.
Qed.

Example message_names_nonvacuous :
  let r := generate_message_names
    [{| m_name := "a"; m_fields := ["a"]; m_groups := [Group "a" ["a_entry"] [] []]; m_data := [] |};
     {| m_name := "messages"; m_fields := []; m_groups := [Group "a" ["x"] [] []]; m_data := [] |}] in
  map g_impl (mn_assigns r) = ["a_0"; "a_1"; "messages"; "a"] /\
  map g_entry (mn_assigns r) = [""; "a_1_entry"; ""; "a_entry"] /\
  mn_tag_messages r = Some "messages_0".
Proof. vm_compute. repeat split. Qed.

(* ------------------------------------------------------------------ *)
(* size_bytes parameter names                                           *)
(* ------------------------------------------------------------------ *)
Fixpoint last_char (s : string) (d : ascii) : ascii :=
  match s with EmptyString => d | String c r => last_char r c end.

Lemma last_char_app a c r d : last_char (a ++ String c r) d = last_char r c.
Proof. revert d. induction a as [|x a IH]; intros d; cbn; [reflexivity|apply IH]. Qed.

Lemma last_char_digit r : forall c, all_chars is_digit (String c r) = true -> is_digit (last_char r c) = true.
Proof.
  induction r as [|x r IH]; intros c H; cbn in *.
  - rewrite andb_true_r in H. exact H.
  - apply andb_true_iff in H as [_ H]. apply IH. exact H.
Qed.

Definition pname (x : string) : Prop :=
  last_char x "x" = "p"%char \/ is_digit (last_char x "x") = true.

Lemma pname_not_total x : pname x -> x <> "total_data_size".
Proof. intros [H|H] ->; cbn in H; discriminate. Qed.

Lemma pname_desired y : pname (y ++ "_num_in_group").
Proof. left. apply (last_char_app y "_" "num_in_group"). Qed.

Lemma pname_suffixed z n : pname (suffixed z n).
Proof.
  right. unfold suffixed, render_nat.
  pose proof (render_N_digits (N.of_nat n)) as Hd. pose proof (render_N_nonempty (N.of_nat n)) as Hne.
  destruct (render_N (N.of_nat n)) as [|c r]; [congruence|].
  rewrite <- string_app_assoc. rewrite last_char_app. apply last_char_digit. exact Hd.
Qed.

Lemma unique_fresh desired existing depth :
  ~ In (make_unique_param_name desired existing depth) existing.
Proof.
  unfold make_unique_param_name. destruct (mem desired existing) eqn:E; [|apply mem_false; exact E].
  apply mem_false.
  destruct (exists_free (suffixed desired) (fun x => mem x existing) existing depth) as (m & Hm & Hb).
  - intros x. apply mem_In.
  - apply suffixed_inj.
  - exact (first_free_good (fun n => mem (suffixed desired n) existing) _ depth m Hm Hb).
Qed.

Lemma unique_pname y existing depth :
  pname (make_unique_param_name (y ++ "_num_in_group") existing depth).
Proof.
  unfold make_unique_param_name. destruct (mem _ existing); [apply pname_suffixed|apply pname_desired].
Qed.

Definition PInv (names : list string) : Prop := NoDup names /\ Forall pname names.

Lemma PInv_snoc names x : PInv names -> ~ In x names -> pname x -> PInv (names ++ [x]).
Proof.
  intros [H1 H2] Hx Hp. split.
  - apply NoDup_app'; [exact H1|constructor; [intros []|constructor]|].
    intros y Hy [<-|[]]. contradiction.
  - apply Forall_app. split; [exact H2|constructor; [exact Hp|constructor]].
Qed.

Notation U := make_unique_param_name.

Lemma mgp_eq g rpath names :
  message_group_params U g rpath names =
  fold_left (fun nm x => message_group_params U x (group_name g :: rpath) nm) (group_subgroups g)
    (names ++ [U (join_path (rev (group_name g :: rpath)) ++ "_num_in_group") names
                 (List.length (group_name g :: rpath) - 1)])%list.
Proof.
  destruct g as [n fs gs ds]. cbn [message_group_params group_subgroups group_name].
  generalize (names ++ [U (join_path (rev (n :: rpath)) ++ "_num_in_group") names
                          (List.length (n :: rpath) - 1)])%list.
  induction gs as [|x r IH]; intros l; [reflexivity|]. cbn [fold_left]. apply IH.
Qed.

Lemma mgp_inv g : forall rpath names, PInv names -> PInv (message_group_params U g rpath names).
Proof.
  induction g as [n fs gs ds IH] using group_ind'. intros rpath names H. rewrite mgp_eq.
  cbn [group_subgroups group_name].
  assert (H1 : PInv (names ++ [U (join_path (rev (n :: rpath)) ++ "_num_in_group") names
                                  (List.length (n :: rpath) - 1)])).
  { apply PInv_snoc; [exact H|apply unique_fresh|apply unique_pname]. }
  revert H1. generalize (names ++ [U (join_path (rev (n :: rpath)) ++ "_num_in_group") names
                                     (List.length (n :: rpath) - 1)])%list.
  induction IH as [|x r Hx _ IHr]; intros l Hl; [exact Hl|]. cbn [fold_left]. apply IHr, Hx, Hl.
Qed.

Lemma mgsp_inv gs : forall names, PInv names -> PInv (message_groups_params U gs names).
Proof.
  induction gs as [|x r IH]; intros names H; [exact H|]. cbn [message_groups_params].
  apply IH, mgp_inv, H.
Qed.

Lemma PInv_total names : PInv names -> NoDup (names ++ ["total_data_size"]).
Proof.
  intros [H1 H2]. apply NoDup_app'; [exact H1|constructor; [intros []|constructor]|].
  intros y Hy [<-|[]]. rewrite Forall_forall in H2. exact (pname_not_total _ (H2 _ Hy) eq_refl).
Qed.

(* message_traits<M>::size_bytes and group_traits<G>::size_bytes never declare
   two parameters with the same name *)
Theorem message_size_params_distinct : forall m, NoDup (message_size_params U m).
Proof.
  intros m. unfold message_size_params.
  assert (H : PInv (message_groups_params U (m_groups m) [])).
  { apply mgsp_inv. split; constructor. }
  destruct (_ || _); [apply PInv_total; exact H|apply H].
Qed.

Lemma gpi_eq g rpath names :
  group_params_impl U g rpath names =
  fold_left (fun nm x => group_params_impl U x (group_name x :: rpath) nm) (group_subgroups g)
    (names ++ [match rpath with
               | [] => "num_in_group"
               | _ => U (join_path (rev rpath) ++ "_num_in_group") names (List.length rpath)
               end])%list.
Proof.
  destruct g as [n fs gs ds]. cbn [group_params_impl group_subgroups].
  generalize (names ++ [match rpath with
                        | [] => "num_in_group"
                        | _ => U (join_path (rev rpath) ++ "_num_in_group") names (List.length rpath)
                        end])%list.
  induction gs as [|x r IH]; intros l; [reflexivity|]. cbn [fold_left]. apply IH.
Qed.

Lemma gpi_inv g : forall rpath names, rpath <> [] -> PInv names ->
  PInv (group_params_impl U g rpath names).
Proof.
  induction g as [n fs gs ds IH] using group_ind'. intros rpath names Hr H. rewrite gpi_eq.
  cbn [group_subgroups].
  set (x0 := match rpath with [] => "num_in_group" | _ => _ end).
  assert (H1 : PInv (names ++ [x0])).
  { apply PInv_snoc; [exact H| |]; unfold x0; (destruct rpath; [congruence|]);
      [apply unique_fresh|apply unique_pname]. }
  revert H1. generalize (names ++ [x0])%list.
  induction IH as [|x r Hx _ IHr]; intros l Hl; [exact Hl|]. cbn [fold_left].
  apply IHr, Hx; [discriminate|exact Hl].
Qed.

Theorem group_size_params_distinct : forall g, NoDup (group_size_params U g).
Proof.
  intros g. unfold group_size_params.
  assert (H : PInv (group_params_impl U g [] [])).
  { rewrite gpi_eq. cbn [app].
    assert (H0 : PInv ["num_in_group"]).
    { split; [constructor; [intros []|constructor]|constructor; [left; reflexivity|constructor]]. }
    revert H0. generalize ["num_in_group"]. generalize (group_subgroups g).
    induction l as [|x r IH]; intros l0 H0; [exact H0|]. cbn [fold_left].
    apply IH, gpi_inv; [discriminate|exact H0]. }
  destruct (has_data_group g); [apply PInv_total; exact H|apply H].
Qed.

Definition clash_groups : list group :=
  [Group "a" [] [Group "b_c_d" ["x"] [] []] [];
   Group "a_b" [] [Group "c_d" ["x"] [] []] [];
   Group "a_b_c" [] [Group "d" ["x"] [] ["dd"]] []].
Definition clash_message : message :=
  {| m_name := "M"; m_fields := []; m_groups := clash_groups; m_data := [] |}.

Example size_params_nonvacuous :
  message_size_params U clash_message =
    ["a_num_in_group"; "a_b_c_d_num_in_group"; "a_b_num_in_group"; "a_b_c_d_num_in_group_1";
     "a_b_c_num_in_group"; "a_b_c_d_num_in_group_2"; "total_data_size"].
Proof. vm_compute. reflexivity. Qed.

(* before the fix the third group path that joins to the same text at the same
   depth got the same "_1" suffix as the second *)
Example size_params_legacy_refuted :
  ~ NoDup (message_size_params Legacy.make_unique_param_name clash_message).
Proof.
  vm_compute. intros H.
  repeat match goal with
  | H : NoDup (_ :: _) |- _ => inversion H; clear H; subst
  end.
  match goal with H : ~ In "a_b_c_d_num_in_group_1" _ |- _ => apply H; cbn; tauto end.
Qed.

(* ------------------------------------------------------------------ *)
(* group classes are never named like a member of their base class      *)
(* ------------------------------------------------------------------ *)
Lemma base_names_not_suffixed name n : ~ In (suffixed name n) group_base_names.
Proof.
  intros H. destruct (pname_suffixed name n) as [Hp|Hd].
  - assert (Hl : Forall (fun x => last_char x "x" <> "p"%char) group_base_names)
      by (repeat constructor; discriminate).
    rewrite Forall_forall in Hl. exact (Hl _ H Hp).
  - assert (Hl : Forall (fun x => is_digit (last_char x "x") = false) group_base_names)
      by (repeat constructor).
    rewrite Forall_forall in Hl. rewrite (Hl _ H) in Hd. discriminate.
Qed.

Definition BInv (st : mstate) : Prop :=
  forall a, In a (snd st) -> g_is_message a = false -> ~ In (g_impl a) group_base_names.

Lemma group_step_binv NM g st : BInv st -> BInv (group_step NM g st).
Proof.
  destruct st as [mangled out]. intros H. unfold group_step.
  destruct (mem (group_name g) mangled || mem (entry_of (group_name g)) mangled
            || mem (entry_of (group_name g)) (group_members g) || mem (group_name g) (group_members g)
            || mem (group_name g) group_base_names) eqn:E; intros a [<-|Ha] Hg; cbn [g_impl];
    try (apply H; assumption).
  - unfold make_mangled_group_name. apply base_names_not_suffixed.
  - apply orb_false_iff in E as [_ E]. apply mem_false. exact E.
Qed.

Lemma handle_groups_binv_gen NM gs :
  Forall (fun g => forall st, BInv st -> BInv (handle_group NM g st)) gs ->
  forall st, BInv st -> BInv (handle_groups NM gs st).
Proof.
  induction 1 as [|x r Hx _ IH]; intros st H; [exact H|]. cbn [handle_groups]. apply IH, Hx, H.
Qed.

Lemma handle_group_binv NM g : forall st, BInv st -> BInv (handle_group NM g st).
Proof.
  induction g as [n fs gs ds IH] using group_ind'. intros st H. rewrite handle_group_eq.
  cbn [group_subgroups]. apply handle_groups_binv_gen; [exact IH|apply group_step_binv; exact H].
Qed.

Lemma message_step_binv NM m st : BInv st -> BInv (message_step NM m st).
Proof.
  destruct st as [mangled out]. intros H. unfold message_step.
  apply handle_groups_binv_gen; [apply Forall_forall; intros g _; apply handle_group_binv|].
  destruct (mem (m_name m) (message_members m)); intros a [<-|Ha] Hg; try discriminate; apply H; assumption.
Qed.

Theorem group_names_not_base : forall msgs a,
  In a (mn_assigns (generate_message_names msgs)) -> g_is_message a = false ->
  ~ In (g_impl a) group_base_names.
Proof.
  intros msgs a Ha. unfold generate_message_names in Ha. cbn [mn_assigns] in Ha. apply in_rev in Ha.
  revert a Ha. change (BInv (fold_left (fun st m => message_step (map m_name msgs) m st) msgs ([], []))).
  generalize (map m_name msgs). intros NM.
  assert (H0 : BInv ([], [])) by (intros a []).
  revert H0. generalize (@nil string, @nil massign). induction msgs as [|m r IH]; intros st H; [exact H|].
  cbn [fold_left]. apply IH, message_step_binv, H.
Qed.
