(* ScriptProofs.v — C01: the in-order setter script of a value tree produces
   the reference image over the background (statement in ScriptSpec.v).

   Method: every buffer met while the script runs has the fixed length [L];
   "b' has prefix p" ([pref p b']) is the only thing navigation may depend on.
   The main induction (over the value tree) carries, besides the result of the
   script, the navigation facts over the part already written, stated for
   EVERY buffer sharing the written prefix (so later writes cannot disturb
   them). *)
From Coq Require Import ZArith List Bool Lia.
From Sbepp Require Import CInt CIntFacts Bytes BytesFacts Msg Layout Wire MsgSpec LayoutProofs
  MsgProofs Cursor CursorSpec CursorProofs Checked ScriptSpec FillProofs.
Import ListNotations.
Local Open Scope Z_scope.

Scheme wlevel_mind := Induction for wlevel Sort Prop
  with wgroups_mind := Induction for wgroups Sort Prop
  with wentries_mind := Induction for wentries Sort Prop.
Combined Scheme wtree_mutind from wlevel_mind, wgroups_mind, wentries_mind.

(* ================================================================== *)
(* take / drop                                                         *)
(* ================================================================== *)

Lemma take_drop n l : take n l ++ drop n l = l.
Proof. apply firstn_skipn. Qed.

Lemma len_take n l : 0 <= n <= len l -> len (take n l) = n.
Proof. intros H. unfold take, len in *. rewrite firstn_length. lia. Qed.

Lemma len_drop n l : 0 <= n <= len l -> len (drop n l) = len l - n.
Proof. intros H. unfold drop, len in *. rewrite skipn_length. lia. Qed.

Lemma skipn_add {A} a c : forall l : list A, skipn c (skipn a l) = skipn (a + c) l.
Proof.
  induction a as [|a IH]; intros l; [reflexivity|].
  destruct l as [|x l]; cbn [skipn Nat.add]; [now rewrite skipn_nil|apply IH].
Qed.

Lemma drop_drop a c l : 0 <= a -> 0 <= c -> drop c (drop a l) = drop (a + c) l.
Proof.
  intros Ha Hc. unfold drop. rewrite skipn_add. f_equal. lia.
Qed.

Lemma wr_app_mid pre mid post bs : length bs = length mid ->
  wr (pre ++ mid ++ post) (len pre) bs = Some (pre ++ bs ++ post).
Proof.
  intros Hl. unfold wr.
  replace (in_buf (pre ++ mid ++ post) (len pre) (len bs)) with true.
  - f_equal. apply splice_app_mid. exact Hl.
  - symmetry. apply in_buf_iff. rewrite !len_app.
    pose proof (len_nonneg pre). pose proof (len_nonneg post). unfold len in *. lia.
Qed.

Lemma wr_mid pre mid post off bs : in_buf mid off (len bs) = true ->
  wr (pre ++ mid ++ post) (len pre + off) bs = Some (pre ++ splice mid off bs ++ post).
Proof.
  intros H. unfold wr. rewrite in_buf_mid by exact H. f_equal. apply splice_mid. exact H.
Qed.

(* ================================================================== *)
(* unfolding equations of the reference encoder                        *)
(* ================================================================== *)

Lemma over_datas_cons be t ds p wds bg :
  over_datas be (t :: ds) (p :: wds) bg =
  (enc be (tw t) (len p) ++ p ++ fst (over_datas be ds wds (drop (tbytes t + len p) bg)),
   snd (over_datas be ds wds (drop (tbytes t + len p) bg))).
Proof.
  cbn [over_datas]. destruct (over_datas be ds wds (drop (tbytes t + len p) bg)). reflexivity.
Qed.

Lemma over_level_eq be l cbl fv wgs wds bg :
  over_level be l cbl (WLevel fv wgs wds) bg =
  (put_fields (level_fields l) fv (take cbl bg)
     ++ fst (over_groups be (level_groups l) wgs (drop cbl bg))
     ++ fst (over_datas be (level_datas l) wds
               (snd (over_groups be (level_groups l) wgs (drop cbl bg)))),
   snd (over_datas be (level_datas l) wds
          (snd (over_groups be (level_groups l) wgs (drop cbl bg))))).
Proof.
  cbn [over_level]. destruct (over_groups be (level_groups l) wgs (drop cbl bg)) as [gi bg2].
  cbn [fst snd]. destruct (over_datas be (level_datas l) wds bg2). reflexivity.
Qed.

Lemma over_groups_cons be d cbl l rest es wrest bg :
  over_groups be (GCons d cbl l rest) (WGCons es wrest) bg =
  (put_fills be (d_fills d) cbl (wecount es) (take (d_size d) bg)
     ++ fst (over_entries be l cbl es (drop (d_size d) bg))
     ++ fst (over_groups be rest wrest (snd (over_entries be l cbl es (drop (d_size d) bg)))),
   snd (over_groups be rest wrest (snd (over_entries be l cbl es (drop (d_size d) bg))))).
Proof.
  cbn [over_groups]. destruct (over_entries be l cbl es (drop (d_size d) bg)) as [ei bg2].
  cbn [fst snd]. destruct (over_groups be rest wrest bg2). reflexivity.
Qed.

Lemma over_entries_cons be l cbl e r bg :
  over_entries be l cbl (WECons e r) bg =
  (fst (over_level be l cbl e bg) ++ fst (over_entries be l cbl r (snd (over_level be l cbl e bg))),
   snd (over_entries be l cbl r (snd (over_level be l cbl e bg)))).
Proof.
  cbn [over_entries]. destruct (over_level be l cbl e bg) as [i1 bg1].
  cbn [fst snd]. destruct (over_entries be l cbl r bg1). reflexivity.
Qed.

(* ================================================================== *)
(* sizes                                                               *)
(* ================================================================== *)

Lemma wdatas_size_nonneg : forall ds wds, 0 <= wdatas_size ds wds.
Proof.
  induction ds as [|t ds IH]; intros [|p wds]; cbn [wdatas_size]; try lia.
  specialize (IH wds). pose proof (tbytes_pos t). pose proof (len_nonneg p). lia.
Qed.

Lemma wecount_nonneg es : 0 <= wecount es.
Proof. induction es as [|e r IH]; cbn [wecount]; lia. Qed.

Lemma dim_fills_ok_size d : dim_fills_ok d -> 1 <= d_size d.
Proof. intros (Hd & _). apply wf_dim_size_pos, Hd. Qed.

Lemma sizes_nonneg :
  (forall w cbl l, wf_wlevel cbl l w -> cbl <= wlevel_size cbl l w) /\
  (forall wgs gs, wf_wgroups gs wgs -> 0 <= wgroups_size gs wgs) /\
  (forall es cbl l, wf_wentries cbl l es -> 0 <= wentries_size cbl l es).
Proof.
  apply wtree_mutind.
  - intros fv wgs IHg wds cbl l Hwf. cbn [wf_wlevel] in Hwf. destruct Hwf as (_ & _ & Hg & _).
    cbn [wlevel_size]. specialize (IHg _ Hg).
    pose proof (wdatas_size_nonneg (level_datas l) wds). lia.
  - intros gs _. destruct gs; cbn [wgroups_size]; lia.
  - intros es IHe wrest IHr gs Hwf. destruct gs as [|d cbl l rest]; [contradiction|].
    cbn [wf_wgroups] in Hwf. destruct Hwf as (Hd & _ & _ & _ & He & Hr).
    cbn [wgroups_size]. specialize (IHe _ _ He). specialize (IHr _ Hr).
    pose proof (dim_fills_ok_size d Hd). lia.
  - intros cbl l _. cbn [wentries_size]. lia.
  - intros e IHl r IHr cbl l Hwf. cbn [wf_wentries] in Hwf. destruct Hwf as [He Hr].
    cbn [wentries_size]. specialize (IHl _ _ He). specialize (IHr _ _ Hr).
    assert (0 <= cbl) by (destruct e; cbn [wf_wlevel] in He; tauto). lia.
Qed.

Lemma wlevel_size_nested cbl l w : wf_wlevel cbl l w -> is_flat l = false ->
  cbl + 1 <= wlevel_size cbl l w.
Proof.
  intros Hwf Hfl. destruct w as [fv wgs wds]. cbn [wf_wlevel] in Hwf.
  destruct Hwf as (Hc & _ & Hg & Hd). cbn [wlevel_size].
  pose proof (proj1 (proj2 sizes_nonneg) _ _ Hg) as Hg0.
  pose proof (wdatas_size_nonneg (level_datas l) wds) as Hd0.
  unfold is_flat in Hfl.
  destruct (level_groups l) as [|d c sub rest] eqn:Egs.
  - destruct (level_datas l) as [|t ds] eqn:Eds; [discriminate|].
    destruct wds as [|p wds]; [contradiction|]. cbn [wdatas_size].
    pose proof (tbytes_pos t). pose proof (len_nonneg p).
    pose proof (wdatas_size_nonneg ds wds). lia.
  - destruct wgs as [|es wrest]; [contradiction|].
    cbn [wf_wgroups] in Hg. destruct Hg as (Hdd & _ & _ & _ & He & Hr).
    cbn [wgroups_size].
    pose proof (proj2 (proj2 sizes_nonneg) _ _ _ He).
    pose proof (proj1 (proj2 sizes_nonneg) _ _ Hr).
    pose proof (dim_fills_ok_size d Hdd). lia.
Qed.

(* ---- lengths of the encoder's outputs ---- *)

Lemma len_put_pieces base fsz : forall ps block,
  0 <= base -> base + fsz <= len block -> pieces_ok fsz ps ->
  len (put_pieces base ps block) = len block.
Proof.
  induction ps as [|[o bs] r IH]; intros block Hb Hle Hok; cbn [put_pieces]; [reflexivity|].
  cbn [pieces_ok] in Hok. destruct Hok as (Ho & Hole & Hr).
  assert (Hin : in_buf block (base + o) (len bs) = true).
  { apply in_buf_iff. pose proof (len_nonneg bs). lia. }
  rewrite IH; [apply len_splice; exact Hin|exact Hb| |exact Hr].
  rewrite len_splice by exact Hin. exact Hle.
Qed.

Lemma len_put_fields cbl : forall fs fv block,
  fvals_ok cbl fs fv -> len block = cbl -> len (put_fields fs fv block) = cbl.
Proof.
  induction fs as [|f fs IH]; intros [|ps fv] block Hok Hl; cbn [put_fields]; try exact Hl.
  cbn [fvals_ok] in Hok. destruct Hok as (Ho & Hle & Hp & Hr).
  apply IH; [exact Hr|].
  rewrite (len_put_pieces (f_off f) (f_size f)); [exact Hl|exact Ho|lia|exact Hp].
Qed.

Lemma over_datas_lens be : forall ds wds bg,
  wdatas_ok ds wds -> wdatas_size ds wds <= len bg ->
  len (fst (over_datas be ds wds bg)) = wdatas_size ds wds /\
  len (snd (over_datas be ds wds bg)) = len bg - wdatas_size ds wds.
Proof.
  induction ds as [|t ds IH]; intros [|p wds] bg Hok Hle; try contradiction.
  - cbn [over_datas fst snd wdatas_size]. rewrite len_nil. lia.
  - cbn [wdatas_ok] in Hok. destruct Hok as (_ & _ & Hr).
    cbn [wdatas_size] in *. rewrite over_datas_cons. cbn [fst snd].
    pose proof (tbytes_pos t). pose proof (len_nonneg p).
    pose proof (wdatas_size_nonneg ds wds).
    assert (Hd : len (drop (tbytes t + len p) bg) = len bg - (tbytes t + len p))
      by (apply len_drop; lia).
    destruct (IH wds (drop (tbytes t + len p) bg) Hr ltac:(lia)) as [IH1 IH2].
    rewrite !len_app, len_enc_tw, IH1, IH2. lia.
Qed.

Lemma over_lens be :
  (forall w cbl l bg, wf_wlevel cbl l w -> wlevel_size cbl l w <= len bg ->
     len (fst (over_level be l cbl w bg)) = wlevel_size cbl l w /\
     len (snd (over_level be l cbl w bg)) = len bg - wlevel_size cbl l w) /\
  (forall wgs gs bg, wf_wgroups gs wgs -> wgroups_size gs wgs <= len bg ->
     len (fst (over_groups be gs wgs bg)) = wgroups_size gs wgs /\
     len (snd (over_groups be gs wgs bg)) = len bg - wgroups_size gs wgs) /\
  (forall es cbl l bg, wf_wentries cbl l es -> wentries_size cbl l es <= len bg ->
     len (fst (over_entries be l cbl es bg)) = wentries_size cbl l es /\
     len (snd (over_entries be l cbl es bg)) = len bg - wentries_size cbl l es).
Proof.
  apply wtree_mutind.
  - intros fv wgs IHg wds cbl l bg Hwf Hle. pose proof Hwf as Hwf0.
    cbn [wf_wlevel] in Hwf. destruct Hwf as (Hc & Hf & Hg & Hd).
    cbn [wlevel_size] in *. rewrite over_level_eq. cbn [fst snd].
    pose proof (proj1 (proj2 sizes_nonneg) _ _ Hg) as Hg0.
    pose proof (wdatas_size_nonneg (level_datas l) wds) as Hd0.
    assert (Hdr : len (drop cbl bg) = len bg - cbl) by (apply len_drop; lia).
    destruct (IHg (level_groups l) (drop cbl bg) Hg ltac:(lia)) as [G1 G2].
    destruct (over_datas_lens be (level_datas l) wds _ Hd ltac:(rewrite G2; lia)) as [D1 D2].
    rewrite !len_app, G1, D1, D2, G2.
    rewrite (len_put_fields cbl _ _ _ Hf) by (apply len_take; lia). lia.
  - intros gs bg _ _. destruct gs; cbn [over_groups wgroups_size fst snd]; rewrite len_nil; lia.
  - intros es IHe wrest IHr gs bg Hwf Hle. destruct gs as [|d cbl l rest]; [contradiction|].
    cbn [wf_wgroups] in Hwf. destruct Hwf as (Hd & _ & _ & _ & He & Hr).
    cbn [wgroups_size] in *. rewrite over_groups_cons. cbn [fst snd].
    pose proof (dim_fills_ok_size d Hd) as Hs.
    pose proof (proj2 (proj2 sizes_nonneg) _ _ _ He) as He0.
    pose proof (proj1 (proj2 sizes_nonneg) _ _ Hr) as Hr0.
    assert (Hdr : len (drop (d_size d) bg) = len bg - d_size d) by (apply len_drop; lia).
    destruct (IHe cbl l (drop (d_size d) bg) He ltac:(lia)) as [E1 E2].
    destruct (IHr rest _ Hr ltac:(rewrite E2; lia)) as [R1 R2].
    rewrite !len_app, E1, R1, R2, E2.
    rewrite (len_put_fills be cbl (wecount es) (d_size d)).
    + lia.
    + apply len_take. lia.
    + destruct Hd as (_ & Hin & _). exact Hin.
  - intros cbl l bg _ _. cbn [over_entries wentries_size fst snd]. rewrite len_nil. lia.
  - intros e IHl r IHr cbl l bg Hwf Hle. cbn [wf_wentries] in Hwf. destruct Hwf as [He Hr].
    cbn [wentries_size] in *. rewrite over_entries_cons. cbn [fst snd].
    pose proof (proj1 sizes_nonneg _ _ _ He) as He0.
    pose proof (proj2 (proj2 sizes_nonneg) _ _ _ Hr) as Hr0.
    destruct (IHl cbl l bg He ltac:(lia)) as [L1 L2].
    destruct (IHr cbl l _ Hr ltac:(rewrite L2; lia)) as [R1 R2].
    rewrite !len_app, L1, R1, R2, L2. lia.
Qed.

(* ================================================================== *)
(* scripts and navigation: generic facts                               *)
(* ================================================================== *)

Lemma exec_app be m base : forall s1 s2 b,
  exec_script be m base b (s1 ++ s2)
  = obind (exec_script be m base b s1) (fun b' => exec_script be m base b' s2).
Proof.
  induction s1 as [|o r IH]; intros s2 b; cbn [exec_script app obind]; [reflexivity|].
  destruct (exec_sop be m base b o) as [b1|]; cbn [obind]; [apply IH|reflexivity].
Qed.

Lemma resolve_app be b fuel st : forall path l pos bl,
  resolve be b fuel (path ++ [st]) l pos bl
  = obind (resolve be b fuel path l pos bl) (fun r =>
      let '(p, bl', l') := r in resolve be b fuel [st] l' p bl').
Proof.
  induction path as [|[k i] rest IH]; intros l pos bl.
  - reflexivity.
  - cbn [app]. rewrite !resolve_cons.
    destruct (nth_group_pos be b fuel (level_groups l) k (pos + bl)) as [[[[gpos d] c] sub]|];
      cbn [obind]; [|reflexivity].
    destruct (group_at be b d gpos) as [g|]; cbn [obind]; [|reflexivity].
    destruct (entry_pos be b fuel d sub g i) as [epos|]; cbn [obind]; [|reflexivity].
    apply IH.
Qed.

(* the k-th group of the level found at [path] *)
Definition gloc (be : bool) (m : message) (b : list Z) (path : list step) (k : nat)
  : option (Z * dim * Z * level) :=
  obind (msg_resolve be b m 0 path) (fun r =>
    let '(pos, bl, l) := r in
    nth_group_pos be b (default_fuel b) (level_groups l) k (pos + bl)).

Lemma group_fill_header_gloc be m b path k n :
  group_fill_header be b m 0 path k n
  = obind (gloc be m b path k) (fun q =>
      let '(gpos, d, cbl, _) := q in do_fills be b gpos (d_fills d) cbl n).
Proof.
  unfold group_fill_header, gloc.
  destruct (msg_resolve be b m 0 path) as [[[pos bl] l]|]; reflexivity.
Qed.

Lemma msg_resolve_snoc be m b path k i :
  msg_resolve be b m 0 (path ++ [SGroup k i])
  = obind (gloc be m b path k) (fun q =>
      let '(gpos, d, _, sub) := q in
      obind (group_at be b d gpos) (fun g =>
      obind (entry_pos be b (default_fuel b) d sub g i) (fun epos =>
      Some (epos, gv_bl g, sub)))).
Proof.
  unfold gloc, msg_resolve.
  destruct (msg_block_length be b m 0) as [bl|]; cbn [obind]; [|reflexivity].
  rewrite resolve_app.
  destruct (resolve be b (default_fuel b) path (m_level m) (0 + m_hdr_size m) bl)
    as [[[p bl'] l']|]; cbn [obind]; [|reflexivity].
  rewrite resolve_cons.
  destruct (nth_group_pos be b (default_fuel b) (level_groups l') k (p + bl'))
    as [[[[gpos d] c] sub]|]; cbn [obind]; [|reflexivity].
  destruct (group_at be b d gpos) as [g|]; cbn [obind]; [|reflexivity].
  destruct (entry_pos be b (default_fuel b) d sub g i) as [epos|]; reflexivity.
Qed.

Lemma locate_data_eq be m b path k :
  locate_data be b m 0 path k
  = obind (msg_resolve be b m 0 path) (fun r =>
      let '(pos, bl, l) := r in
      obind (groups_end be b (default_fuel b) (level_groups l) (pos + bl)) (fun p =>
      nth_data_pos be b (level_datas l) k p)).
Proof. reflexivity. Qed.

(* one more entry walked *)
Lemma entries_walk_snoc be b fuel l bl : forall k i p q q',
  0 <= i -> i < Z.of_nat k ->
  entries_walk be b fuel l bl k i p = Some q ->
  level_end be b fuel l q bl = Some q' ->
  entries_walk be b fuel l bl k (i + 1) p = Some q'.
Proof.
  induction k as [|k IH]; intros i p q q' Hi Hk Hw Hl; [lia|].
  destruct (Z.eq_dec i 0) as [->|Hne].
  - rewrite entries_walk_0 in Hw. inversion Hw; subst q.
    rewrite entries_walk_S by lia. rewrite Hl. cbn [obind].
    replace (0 + 1 - 1) with 0 by lia. apply entries_walk_0.
  - rewrite entries_walk_S in Hw by lia. rewrite entries_walk_S by lia.
    destruct (level_end be b fuel l p bl) as [p'|]; cbn [obind] in *; [|discriminate].
    replace (i + 1 - 1) with (i - 1 + 1) by lia.
    apply (IH (i - 1) p' q q'); try lia; assumption.
Qed.

Lemma groups_end_single be b fuel d cbl l rest pos :
  groups_end be b fuel (GCons d cbl l rest) pos
  = obind (groups_end be b fuel (GCons d cbl l GNil) pos) (fun p => groups_end be b fuel rest p).
Proof.
  rewrite !groups_end_cons.
  destruct (rd be b (pos + d_bl_off d) (d_bl_t d)) as [bl|]; cbn [obind]; [|reflexivity].
  destruct (rd be b (pos + d_n_off d) (d_n_t d)) as [n|]; cbn [obind]; [|reflexivity].
  destruct (if is_flat l then obind (flat_group_size d n bl) (fun s => Some (pos + s))
            else entries_walk be b fuel l bl fuel n (pos + d_size d)) as [p|];
    cbn [obind groups_end]; reflexivity.
Qed.

(* ================================================================== *)
(* the main induction                                                  *)
(* ================================================================== *)

Section Script.
  Variables (be : bool) (m : message) (L : Z).
  Local Notation fuel := (S (Z.to_nat L)).

  (* a buffer of the fixed length that starts with [p] *)
  Definition pref (p b' : list Z) : Prop := len b' = L /\ exists q, b' = p ++ q.

  Lemma pref_app p x b' : pref (p ++ x) b' -> pref p b'.
  Proof.
    intros [Hl [q Hq]]. split; [exact Hl|]. exists (x ++ q). rewrite Hq. now rewrite <- app_assoc.
  Qed.

  Lemma pref_self p q : len (p ++ q) = L -> pref p (p ++ q).
  Proof. intros H. split; [exact H|]. exists q. reflexivity. Qed.

  Lemma pref_fuel p b' : pref p b' -> default_fuel b' = fuel.
  Proof. intros [Hl _]. unfold default_fuel, len in *. f_equal. lia. Qed.

  Lemma rd_pref pre mid b' off t : pref (pre ++ mid) b' -> in_buf mid off (tbytes t) = true ->
    rd be b' (len pre + off) t = Some (dec be (slice mid off (tbytes t))).
  Proof.
    intros [_ [q Hq]] Hin. apply (rd_at be b' pre mid q); [|exact Hin].
    rewrite Hq. now rewrite <- app_assoc.
  Qed.

  (* ---- fields ---- *)
  Section Fields.
    Variables (path : list step) (l : level) (cbl : Z) (pre : list Z).
    Hypothesis RES : forall b', pref pre b' -> msg_resolve be b' m 0 path = Some (len pre, cbl, l).

    Lemma exec_pieces k f : forall ps block rest,
      nth_error (level_fields l) k = Some f ->
      len (pre ++ block ++ rest) = L -> len block = cbl ->
      0 <= f_off f -> f_off f + f_size f <= cbl -> pieces_ok (f_size f) ps ->
      exec_script be m 0 (pre ++ block ++ rest) (pieces_script path k ps)
      = Some (pre ++ put_pieces (f_off f) ps block ++ rest).
    Proof.
      induction ps as [|[o bs] r IH]; intros block rest Hk HL Hlb Ho Hle Hok;
        cbn [pieces_script exec_script put_pieces]; [reflexivity|].
      cbn [pieces_ok] in Hok. destruct Hok as (Ho' & Hole & Hr).
      cbn [exec_sop]. unfold set_piece.
      rewrite (RES _ (pref_self pre _ HL)). cbn [obind]. rewrite Hk.
      replace ((0 <=? o) && (o + len bs <=? f_size f)) with true
        by (symmetry; apply andb_true_iff; split; apply Z.leb_le; lia).
      assert (Hin : in_buf block (f_off f + o) (len bs) = true).
      { apply in_buf_iff. pose proof (len_nonneg bs). lia. }
      rewrite <- Z.add_assoc, wr_mid by exact Hin. cbn [obind].
      apply IH; try assumption.
      - rewrite !len_app, len_splice by exact Hin. rewrite !len_app in HL. exact HL.
      - rewrite len_splice by exact Hin. exact Hlb.
    Qed.

    Lemma exec_fields : forall fv fs k0 block rest,
      (forall j, nth_error (level_fields l) (k0 + j) = nth_error fs j) ->
      fvals_ok cbl fs fv -> len (pre ++ block ++ rest) = L -> len block = cbl ->
      exec_script be m 0 (pre ++ block ++ rest) (fields_script path k0 fv)
      = Some (pre ++ put_fields fs fv block ++ rest).
    Proof.
      induction fv as [|ps fv IH]; intros [|f fs] k0 block rest Hn Hok HL Hlb;
        cbn [fvals_ok] in Hok; try contradiction.
      - reflexivity.
      - destruct Hok as (Ho & Hle & Hp & Hr).
        cbn [fields_script put_fields]. rewrite exec_app.
        rewrite (exec_pieces k0 f ps block rest); try assumption.
        2:{ rewrite <- (Nat.add_0_r k0), Hn. reflexivity. }
        cbn [obind].
        assert (Hlp : len (put_pieces (f_off f) ps block) = len block)
          by (apply (len_put_pieces (f_off f) (f_size f)); [exact Ho|lia|exact Hp]).
        apply IH; try assumption.
        + intros j. pose proof (Hn (S j)) as HnS. cbn [nth_error] in HnS.
          rewrite <- HnS. f_equal. lia.
        + rewrite !len_app, Hlp. rewrite !len_app in HL. exact HL.
        + lia.
    Qed.
  End Fields.

  (* ---- data ---- *)
  Lemma exec_datas path : forall wds ds k0 pre bg,
    (forall b', pref pre b' -> forall j,
        locate_data be b' m 0 path (k0 + j) = nth_data_pos be b' ds j (len pre)) ->
    wdatas_ok ds wds -> len (pre ++ bg) = L -> wdatas_size ds wds <= len bg ->
    exec_script be m 0 (pre ++ bg) (datas_script path k0 wds)
    = Some (pre ++ fst (over_datas be ds wds bg) ++ snd (over_datas be ds wds bg)) /\
    forall b', pref (pre ++ fst (over_datas be ds wds bg)) b' ->
      datas_end be b' ds (len pre) = Some (len (pre ++ fst (over_datas be ds wds bg))).
  Proof.
    induction wds as [|p wds IH]; intros [|t ds] k0 pre bg LOC Hok HL Hsz;
      cbn [wdatas_ok] in Hok; try contradiction.
    - cbn [datas_script exec_script over_datas fst snd app datas_end]. split; [reflexivity|].
      intros b' _. now rewrite app_nil_r.
    - destruct Hok as (Hu & Hfit & Hr). cbn [wdatas_size] in Hsz.
      pose proof (tbytes_pos t) as Ht. pose proof (len_nonneg p) as Hp.
      pose proof (wdatas_size_nonneg ds wds) as Hd0.
      rewrite over_datas_cons. cbn [fst snd].
      set (E := enc be (tw t) (len p)).
      set (bg' := drop (tbytes t + len p) bg).
      set (R := over_datas be ds wds bg').
      assert (HlE : len E = tbytes t) by apply len_enc_tw.
      (* the background under the member *)
      set (h := take (tbytes t) bg). set (pl := take (len p) (drop (tbytes t) bg)).
      assert (Hbg : bg = h ++ pl ++ bg').
      { unfold h, pl, bg'. rewrite <- drop_drop by lia. now rewrite !take_drop. }
      assert (Hlh : len h = tbytes t) by (apply len_take; lia).
      assert (Hldr : len (drop (tbytes t) bg) = len bg - tbytes t) by (apply len_drop; lia).
      assert (Hlpl : len pl = len p) by (apply len_take; lia).
      assert (Hlbg' : len bg' = len bg - (tbytes t + len p)) by (apply len_drop; lia).
      (* the step *)
      assert (Hstep : exec_sop be m 0 (pre ++ bg) (SData path k0 p) = Some ((pre ++ E ++ p) ++ bg')).
      { cbn [exec_sop]. unfold assign_data.
        rewrite <- (Nat.add_0_r k0), (LOC _ (pref_self pre bg HL) 0%nat).
        cbn [nth_data_pos obind]. rewrite Hbg. fold E.
        rewrite (wr_app_mid pre h (pl ++ bg') E) by (unfold len in *; lia). cbn [obind].
        replace (len pre + tbytes t) with (len (pre ++ E)) by (rewrite len_app; lia).
        replace (pre ++ E ++ pl ++ bg') with ((pre ++ E) ++ pl ++ bg') by (now rewrite <- app_assoc).
        rewrite (wr_app_mid (pre ++ E) pl bg' p) by (unfold len in *; lia).
        now rewrite <- !app_assoc. }
      assert (HL' : len ((pre ++ E ++ p) ++ bg') = L).
      { rewrite !len_app, HlE, Hlbg'. rewrite len_app in HL. lia. }
      assert (Hrd : forall b', pref (pre ++ E ++ p) b' -> rd be b' (len pre) t = Some (len p)).
      { intros b' [_ [q Hq]]. apply (rd_enc_at be b' pre (p ++ q)); [|exact Hfit].
        rewrite Hq. now rewrite <- !app_assoc. }
      assert (Hlpre' : len (pre ++ E ++ p) = len pre + tbytes t + len p)
        by (rewrite !len_app, HlE; lia).
      destruct (IH ds (S k0) (pre ++ E ++ p) bg') as [IH1 IH2]; try assumption.
      { intros b' Hb' j. replace (S k0 + j)%nat with (k0 + S j)%nat by lia.
        rewrite (LOC b' (pref_app _ _ _ Hb')). cbn [nth_data_pos].
        rewrite (Hrd b' Hb'). cbn [obind]. rewrite Hlpre'. reflexivity. }
      { lia. }
      fold R in IH1, IH2. split.
      + cbn [datas_script exec_script]. rewrite Hstep. cbn [obind]. rewrite IH1.
        f_equal. now rewrite <- !app_assoc.
      + intros b' Hb'.
        assert (Hb2 : pref ((pre ++ E ++ p) ++ fst R) b')
          by (replace ((pre ++ E ++ p) ++ fst R) with (pre ++ E ++ p ++ fst R);
              [exact Hb'|now rewrite <- !app_assoc]).
        cbn [datas_end]. rewrite (Hrd b' (pref_app _ _ _ Hb2)). cbn [obind].
        rewrite <- Hlpre'. rewrite (IH2 b' Hb2). f_equal. f_equal. now rewrite <- !app_assoc.
  Qed.

  Lemma level_end_parts b fuel0 l pos bl :
    level_end be b fuel0 l pos bl
    = obind (groups_end be b fuel0 (level_groups l) (pos + bl)) (fun p =>
        datas_end be b (level_datas l) p).
  Proof. destruct l; reflexivity. Qed.

  Lemma wlevel_size_flat cbl l w : wf_wlevel cbl l w -> is_flat l = true ->
    wlevel_size cbl l w = cbl.
  Proof.
    intros Hwf Hfl. apply is_flat_inv in Hfl. destruct Hfl as [Hg Hd].
    destruct w as [fv wgs wds]. cbn [wlevel_size]. rewrite Hg, Hd.
    destruct wgs; cbn [wgroups_size wdatas_size]; lia.
  Qed.

  (* ---- the three statements ---- *)
  Definition PL (w : wlevel) : Prop :=
    forall path l cbl pre bg,
      (forall b', pref pre b' -> msg_resolve be b' m 0 path = Some (len pre, cbl, l)) ->
      wf_wlevel cbl l w -> len (pre ++ bg) = L -> wlevel_size cbl l w <= len bg ->
      exec_script be m 0 (pre ++ bg) (level_script path w)
        = Some (pre ++ fst (over_level be l cbl w bg) ++ snd (over_level be l cbl w bg)) /\
      forall b', pref (pre ++ fst (over_level be l cbl w bg)) b' ->
        level_end be b' fuel l (len pre) cbl
        = Some (len (pre ++ fst (over_level be l cbl w bg))).

  Definition PG (wgs : wgroups) : Prop :=
    forall path gs k0 pre bg,
      (forall b', pref pre b' -> forall j,
          gloc be m b' path (k0 + j) = nth_group_pos be b' fuel gs j (len pre)) ->
      wf_wgroups gs wgs -> len (pre ++ bg) = L -> wgroups_size gs wgs <= len bg ->
      exec_script be m 0 (pre ++ bg) (groups_script path k0 wgs)
        = Some (pre ++ fst (over_groups be gs wgs bg) ++ snd (over_groups be gs wgs bg)) /\
      forall b', pref (pre ++ fst (over_groups be gs wgs bg)) b' ->
        groups_end be b' fuel gs (len pre)
        = Some (len (pre ++ fst (over_groups be gs wgs bg))).

  Definition PE (es : wentries) : Prop :=
    forall path k d cbl sub gp n i0 pre bg,
      (forall b', pref pre b' ->
         gloc be m b' path k = Some (gp, d, cbl, sub) /\
         group_at be b' d gp = Some {| gv_pos := gp; gv_bl := cbl; gv_n := n |}) ->
      (if is_flat sub then len pre = gp + d_size d + i0 * cbl
       else i0 <= len pre /\ forall b', pref pre b' ->
              entries_walk be b' fuel sub cbl fuel i0 (gp + d_size d) = Some (len pre)) ->
      0 <= i0 -> i0 + wecount es = n ->
      wf_wentries cbl sub es -> len (pre ++ bg) = L -> wentries_size cbl sub es <= len bg ->
      exec_script be m 0 (pre ++ bg) (entries_script path k i0 es)
        = Some (pre ++ fst (over_entries be sub cbl es bg) ++ snd (over_entries be sub cbl es bg)) /\
      (if is_flat sub
       then len (pre ++ fst (over_entries be sub cbl es bg)) = gp + d_size d + n * cbl
       else forall b', pref (pre ++ fst (over_entries be sub cbl es bg)) b' ->
              entries_walk be b' fuel sub cbl fuel n (gp + d_size d)
              = Some (len (pre ++ fst (over_entries be sub cbl es bg)))).

  Lemma PE_nil : PE WENil.
  Proof.
    intros path k d cbl sub gp n i0 pre bg GL START Hi0 Hn Hwf HL Hsz.
    cbn [wecount] in Hn. assert (i0 = n) by lia. subst i0.
    cbn [entries_script exec_script over_entries fst snd app]. split; [reflexivity|].
    rewrite app_nil_r. destruct (is_flat sub); [exact START|exact (proj2 START)].
  Qed.

  Lemma PE_step e r : PL e -> PE r -> PE (WECons e r).
  Proof.
    intros IHl IHr path k d cbl sub gp n i0 pre bg GL START Hi0 Hn Hwf HL Hsz.
    cbn [wf_wentries] in Hwf. destruct Hwf as [He Hr].
    cbn [wentries_size wecount] in *.
    pose proof (proj1 sizes_nonneg _ _ _ He) as He0.
    pose proof (proj2 (proj2 sizes_nonneg) _ _ _ Hr) as Hr0.
    pose proof (wecount_nonneg r) as Hc0.
    assert (Hcbl : 0 <= cbl) by (destruct e; cbn [wf_wlevel] in He; tauto).
    rewrite over_entries_cons. cbn [fst snd].
    set (E1 := over_level be sub cbl e bg).
    set (R := over_entries be sub cbl r (snd E1)).
    destruct (proj1 (over_lens be) e cbl sub bg He ltac:(lia)) as [L1 L2]. fold E1 in L1, L2.
    assert (HL0 : 0 <= L) by (rewrite <- HL; apply len_nonneg).
    assert (Hlpre : len pre <= L).
    { rewrite <- HL, len_app. pose proof (len_nonneg bg). lia. }
    (* the entry is resolved at the end of what is written *)
    assert (RES' : forall b', pref pre b' ->
              msg_resolve be b' m 0 (path ++ [SGroup k i0]) = Some (len pre, cbl, sub)).
    { intros b' Hb'. rewrite msg_resolve_snoc. destruct (GL b' Hb') as [G1 G2].
      rewrite G1. cbn [obind]. rewrite G2. cbn [obind].
      unfold entry_pos. cbn [gv_pos gv_bl gv_n].
      replace (i0 <? 0) with false by (symmetry; apply Z.ltb_ge; lia).
      replace (n <=? i0) with false by (symmetry; apply Z.leb_gt; lia).
      cbn [orb]. rewrite (pref_fuel _ _ Hb').
      destruct (is_flat sub).
      - cbn [obind]. rewrite START. reflexivity.
      - rewrite (proj2 START b' Hb'). reflexivity. }
    destruct (IHl (path ++ [SGroup k i0]) sub cbl pre bg RES' He HL ltac:(lia)) as [X1 N1].
    fold E1 in X1, N1.
    assert (HL' : len ((pre ++ fst E1) ++ snd E1) = L).
    { rewrite !len_app, L1, L2. rewrite len_app in HL. lia. }
    destruct (IHr path k d cbl sub gp n (i0 + 1) (pre ++ fst E1) (snd E1)) as [X2 N2].
    - intros b' Hb'. apply GL. exact (pref_app _ _ _ Hb').
    - destruct (is_flat sub) eqn:Hfl.
      + rewrite len_app, L1, (wlevel_size_flat cbl sub e He Hfl). lia.
      + pose proof (wlevel_size_nested cbl sub e He Hfl) as Hnest. split.
        * rewrite len_app, L1. lia.
        * intros b' Hb'.
          apply (entries_walk_snoc be b' fuel sub cbl fuel i0 (gp + d_size d) (len pre)).
          -- exact Hi0.
          -- lia.
          -- apply (proj2 START). exact (pref_app _ _ _ Hb').
          -- apply N1. exact Hb'.
    - lia.
    - lia.
    - exact Hr.
    - exact HL'.
    - rewrite L2. lia.
    - fold R in X2, N2. split.
      + cbn [entries_script]. rewrite exec_app, X1. cbn [obind].
        replace (pre ++ fst E1 ++ snd E1) with ((pre ++ fst E1) ++ snd E1)
          by (now rewrite <- app_assoc).
        rewrite X2. f_equal. now rewrite <- !app_assoc.
      + replace (pre ++ fst E1 ++ fst R) with ((pre ++ fst E1) ++ fst R)
          by (now rewrite <- app_assoc).
        exact N2.
  Qed.

  Lemma PG_nil : PG WGNil.
  Proof.
    intros path gs k0 pre bg SK Hwf HL Hsz. destruct gs; [|contradiction].
    cbn [groups_script exec_script over_groups fst snd app groups_end]. split; [reflexivity|].
    intros b' _. now rewrite app_nil_r.
  Qed.

  Lemma PG_step es wrest : PE es -> PG wrest -> PG (WGCons es wrest).
  Proof.
    intros IHe IHr path gs k0 pre bg SK Hwf HL Hsz.
    destruct gs as [|d cbl sub rest]; [contradiction|].
    cbn [wf_wgroups] in Hwf. destruct Hwf as (Hdf & Hfbl & Hfn & Hflat & He & Hr).
    destruct Hdf as (Hd & Hinside & Hdisj & HInbl & HInn & _).
    cbn [wgroups_size] in Hsz.
    set (n := wecount es) in *.
    pose proof (wecount_nonneg es) as Hn0. fold n in Hn0.
    pose proof (wf_dim_size_pos d Hd) as Hs1.
    pose proof (proj2 (proj2 sizes_nonneg) _ _ _ He) as He0.
    pose proof (proj1 (proj2 sizes_nonneg) _ _ Hr) as Hr0.
    rewrite over_groups_cons. cbn [fst snd]. fold n.
    set (dimb := put_fills be (d_fills d) cbl n (take (d_size d) bg)).
    set (E := over_entries be sub cbl es (drop (d_size d) bg)).
    set (R := over_groups be rest wrest (snd E)).
    assert (Hlt : len (take (d_size d) bg) = d_size d) by (apply len_take; lia).
    assert (Hldimb : len dimb = d_size d) by (apply len_put_fills; assumption).
    assert (Hldr : len (drop (d_size d) bg) = len bg - d_size d) by (apply len_drop; lia).
    destruct (proj2 (proj2 (over_lens be)) es cbl sub (drop (d_size d) bg) He ltac:(lia))
      as [E1 E2]. fold E in E1, E2.
    (* the header values after the fill *)
    assert (Hvbl : dec be (slice dimb (d_bl_off d) (tbytes (d_bl_t d))) = cbl).
    { unfold dimb.
      rewrite (put_fills_value be cbl n (d_size d) (d_bl_off d) (d_bl_t d) FBlockLength
                 (d_fills d) _ Hlt Hinside Hdisj HInbl).
      cbn [fill_value]. apply dec_enc_fits. exact Hfbl. }
    assert (Hvn : dec be (slice dimb (d_n_off d) (tbytes (d_n_t d))) = n).
    { unfold dimb.
      rewrite (put_fills_value be cbl n (d_size d) (d_n_off d) (d_n_t d) FNumInGroup
                 (d_fills d) _ Hlt Hinside Hdisj HInn).
      cbn [fill_value]. apply dec_enc_fits. exact Hfn. }
    assert (Hrbl : forall b', pref (pre ++ dimb) b' ->
              rd be b' (len pre + d_bl_off d) (d_bl_t d) = Some cbl).
    { intros b' Hb'. rewrite (rd_pref pre dimb b' _ _ Hb'), Hvbl; [reflexivity|].
      apply wf_dim_in_bl; assumption. }
    assert (Hrn : forall b', pref (pre ++ dimb) b' ->
              rd be b' (len pre + d_n_off d) (d_n_t d) = Some n).
    { intros b' Hb'. rewrite (rd_pref pre dimb b' _ _ Hb'), Hvn; [reflexivity|].
      apply wf_dim_in_n; assumption. }
    (* 1. the header fill *)
    assert (H1 : exec_sop be m 0 (pre ++ bg) (SGFill path k0 n)
                 = Some ((pre ++ dimb) ++ drop (d_size d) bg)).
    { cbn [exec_sop]. rewrite group_fill_header_gloc.
      pose proof (SK _ (pref_self pre bg HL) 0%nat) as Hg0. rewrite Nat.add_0_r in Hg0.
      rewrite Hg0. cbn [nth_group_pos obind].
      pose proof (do_fills_pres be pre (drop (d_size d) bg) cbl n (d_size d) (d_fills d)
                    (take (d_size d) bg) Hlt Hinside) as DF.
      rewrite take_drop in DF. rewrite DF. fold dimb. now rewrite <- app_assoc. }
    assert (HL1 : len ((pre ++ dimb) ++ drop (d_size d) bg) = L).
    { rewrite !len_app, Hldimb, Hldr. rewrite len_app in HL. lia. }
    (* 2. the entries *)
    destruct (IHe path k0 d cbl sub (len pre) n 0 (pre ++ dimb) (drop (d_size d) bg))
      as [H2 N2].
    { intros b' Hb'. split.
      - pose proof (SK b' (pref_app _ _ _ Hb') 0%nat) as Hg0. rewrite Nat.add_0_r in Hg0.
        rewrite Hg0. reflexivity.
      - unfold group_at. rewrite (Hrbl b' Hb'). cbn [obind]. rewrite (Hrn b' Hb'). reflexivity. }
    { destruct (is_flat sub).
      - rewrite len_app, Hldimb. lia.
      - split; [apply len_nonneg|]. intros b' _. rewrite entries_walk_0.
        rewrite len_app, Hldimb. reflexivity. }
    { lia. }
    { reflexivity. }
    { exact He. }
    { exact HL1. }
    { lia. }
    fold E in H2, N2.
    (* the group as a whole is skipped by arithmetic / by the walk *)
    assert (Hone : forall b', pref ((pre ++ dimb) ++ fst E) b' -> forall X,
              groups_end be b' fuel (GCons d cbl sub X) (len pre)
              = groups_end be b' fuel X (len ((pre ++ dimb) ++ fst E))).
    { intros b' Hb' X. rewrite groups_end_single, groups_end_cons.
      rewrite (Hrbl b' (pref_app _ _ _ Hb')). cbn [obind].
      rewrite (Hrn b' (pref_app _ _ _ Hb')). cbn [obind].
      destruct (is_flat sub) eqn:Hfl.
      - pose proof (bits_le_64 (d_bl_t d)). pose proof (bits_le_64 (d_n_t d)).
        unfold fits in Hfbl, Hfn.
        assert (Hlt64 : d_size d + n * cbl < 2 ^ 64) by (apply Hflat; reflexivity).
        assert (Hu : is_unsigned_ity (d_bl_t d)) by (destruct Hd as (Hu & _); exact Hu).
        rewrite flat_group_size_ok by (assumption || lia).
        cbn [obind groups_end]. rewrite N2. f_equal. lia.
      - rewrite (N2 b' Hb'). cbn [obind groups_end]. reflexivity. }
    assert (HL2 : len (((pre ++ dimb) ++ fst E) ++ snd E) = L).
    { rewrite !len_app, Hldimb, E1, E2, Hldr. rewrite len_app in HL. lia. }
    (* 3. the remaining groups *)
    destruct (IHr path rest (S k0) ((pre ++ dimb) ++ fst E) (snd E)) as [H3 N3].
    { intros b' Hb' j. replace (S k0 + j)%nat with (k0 + S j)%nat by lia.
      rewrite (SK b' (pref_app _ _ _ (pref_app _ _ _ Hb'))). cbn [nth_group_pos].
      rewrite (Hone b' Hb' GNil). cbn [groups_end obind]. reflexivity. }
    { exact Hr. }
    { exact HL2. }
    { rewrite E2. lia. }
    fold R in H3, N3. split.
    - cbn [groups_script exec_script]. fold n. rewrite H1. cbn [obind].
      rewrite exec_app, H2. cbn [obind].
      replace ((pre ++ dimb) ++ fst E ++ snd E) with (((pre ++ dimb) ++ fst E) ++ snd E)
        by (now rewrite <- !app_assoc).
      rewrite H3. f_equal. now rewrite <- !app_assoc.
    - intros b' Hb'.
      assert (Hb3 : pref (((pre ++ dimb) ++ fst E) ++ fst R) b').
      { replace (((pre ++ dimb) ++ fst E) ++ fst R) with (pre ++ dimb ++ fst E ++ fst R)
          by (now rewrite <- !app_assoc). exact Hb'. }
      rewrite (Hone b' (pref_app _ _ _ Hb3) rest), (N3 b' Hb3).
      f_equal. f_equal. now rewrite <- !app_assoc.
  Qed.

  Lemma PL_step fv wgs wds : PG wgs -> PL (WLevel fv wgs wds).
  Proof.
    intros IHg path l cbl pre bg RES Hwf HL Hsz.
    cbn [wf_wlevel] in Hwf. destruct Hwf as (Hc & Hf & Hg & Hd).
    cbn [wlevel_size] in Hsz.
    pose proof (proj1 (proj2 sizes_nonneg) _ _ Hg) as Hg0.
    pose proof (wdatas_size_nonneg (level_datas l) wds) as Hd0.
    rewrite over_level_eq. cbn [fst snd].
    set (block := put_fields (level_fields l) fv (take cbl bg)).
    set (G := over_groups be (level_groups l) wgs (drop cbl bg)).
    set (D := over_datas be (level_datas l) wds (snd G)).
    assert (Hlt : len (take cbl bg) = cbl) by (apply len_take; lia).
    assert (Hlb : len block = cbl) by (apply (len_put_fields cbl); assumption).
    assert (Hldr : len (drop cbl bg) = len bg - cbl) by (apply len_drop; lia).
    destruct (proj1 (proj2 (over_lens be)) wgs (level_groups l) (drop cbl bg) Hg ltac:(lia))
      as [G1 G2]. fold G in G1, G2.
    (* 1. fields *)
    assert (H1 : exec_script be m 0 (pre ++ bg) (fields_script path 0 fv)
                 = Some (pre ++ block ++ drop cbl bg)).
    { replace (pre ++ bg) with (pre ++ take cbl bg ++ drop cbl bg) by (now rewrite take_drop).
      apply (exec_fields path l cbl pre RES); try assumption.
      - intros j. reflexivity.
      - rewrite take_drop. exact HL. }
    assert (HL1 : len ((pre ++ block) ++ drop cbl bg) = L).
    { rewrite !len_app, Hlb, Hldr. rewrite len_app in HL. lia. }
    (* 2. groups *)
    destruct (IHg path (level_groups l) 0%nat (pre ++ block) (drop cbl bg)) as [H2 N2].
    { intros b' Hb' j. unfold gloc. rewrite (RES b' (pref_app _ _ _ Hb')). cbn [obind].
      rewrite (pref_fuel _ _ Hb'), len_app, Hlb. reflexivity. }
    { exact Hg. }
    { exact HL1. }
    { lia. }
    fold G in H2, N2.
    assert (HL2 : len (((pre ++ block) ++ fst G) ++ snd G) = L).
    { rewrite !len_app, Hlb, G1, G2, Hldr. rewrite len_app in HL. lia. }
    (* 3. data *)
    destruct (exec_datas path wds (level_datas l) 0%nat ((pre ++ block) ++ fst G) (snd G))
      as [H3 N3].
    { intros b' Hb' j. rewrite locate_data_eq.
      rewrite (RES b' (pref_app _ _ _ (pref_app _ _ _ Hb'))). cbn [obind].
      rewrite (pref_fuel _ _ Hb').
      replace (len pre + cbl) with (len (pre ++ block)) by (rewrite len_app; lia).
      rewrite (N2 b' Hb'). reflexivity. }
    { exact Hd. }
    { exact HL2. }
    { rewrite G2. lia. }
    fold D in H3, N3. split.
    - cbn [level_script]. rewrite exec_app, H1. cbn [obind].
      replace (pre ++ block ++ drop cbl bg) with ((pre ++ block) ++ drop cbl bg)
        by (now rewrite <- app_assoc).
      rewrite exec_app, H2. cbn [obind].
      replace ((pre ++ block) ++ fst G ++ snd G) with (((pre ++ block) ++ fst G) ++ snd G)
        by (now rewrite <- !app_assoc).
      rewrite H3. f_equal. now rewrite <- !app_assoc.
    - intros b' Hb'.
      assert (Hb3 : pref (((pre ++ block) ++ fst G) ++ fst D) b').
      { replace (((pre ++ block) ++ fst G) ++ fst D) with (pre ++ block ++ fst G ++ fst D)
          by (now rewrite <- !app_assoc). exact Hb'. }
      rewrite level_end_parts.
      replace (len pre + cbl) with (len (pre ++ block)) by (rewrite len_app; lia).
      rewrite (N2 b' (pref_app _ _ _ Hb3)). cbn [obind]. rewrite (N3 b' Hb3).
      f_equal. f_equal. now rewrite <- !app_assoc.
  Qed.

  Lemma script_all : (forall w, PL w) /\ (forall wgs, PG wgs) /\ (forall es, PE es).
  Proof.
    apply wtree_mutind.
    - intros fv wgs IHg wds. apply PL_step, IHg.
    - exact PG_nil.
    - intros es IHe wrest IHr. apply PG_step; assumption.
    - exact PE_nil.
    - intros e IHl r IHr. apply PE_step; assumption.
  Qed.
End Script.

Theorem encode_script_image : stmt_encode_script_image.
Proof.
  unfold stmt_encode_script_image. intros be m w bg Hmf Hwf _ Hsz _.
  destruct Hmf as (Hu & Hbo & Hbe & Hinside & Hdisj & HIn & Hfit & _).
  pose proof (tbytes_pos (m_bl_t m)) as Ht.
  pose proof (proj1 sizes_nonneg _ _ _ Hwf) as Hw0.
  assert (Hcbl : 0 <= m_cbl m) by (destruct w; cbn [wf_wlevel] in Hwf; tauto).
  set (hsz := m_hdr_size m) in *.
  set (hdr := put_fills be (m_fills m) (m_cbl m) 0 (take hsz bg)).
  assert (Hlt : len (take hsz bg) = hsz) by (apply len_take; lia).
  assert (Hlh : len hdr = hsz) by (apply len_put_fills; assumption).
  assert (Hldr : len (drop hsz bg) = len bg - hsz) by (apply len_drop; lia).
  (* the header fill *)
  assert (H1 : exec_sop be m 0 bg SFillHdr = Some (hdr ++ drop hsz bg)).
  { cbn [exec_sop]. unfold msg_fill_header.
    pose proof (do_fills_pres be [] (drop hsz bg) (m_cbl m) 0 hsz (m_fills m) (take hsz bg)
                  Hlt Hinside) as DF.
    cbn [app] in DF. rewrite take_drop in DF. exact DF. }
  assert (HL : len (hdr ++ drop hsz bg) = len bg) by (rewrite len_app, Hlh, Hldr; lia).
  (* the root level is resolved from the filled header *)
  assert (Hv : dec be (slice hdr (m_bl_off m) (tbytes (m_bl_t m))) = m_cbl m).
  { unfold hdr.
    rewrite (put_fills_value be (m_cbl m) 0 hsz (m_bl_off m) (m_bl_t m) FBlockLength
               (m_fills m) _ Hlt Hinside Hdisj HIn).
    cbn [fill_value]. apply dec_enc_fits. exact Hfit. }
  assert (RES : forall b', pref (len bg) hdr b' ->
            msg_resolve be b' m 0 [] = Some (len hdr, m_cbl m, m_level m)).
  { intros b' [_ [q Hq]]. unfold msg_resolve, msg_block_length.
    change (0 + m_bl_off m) with (len (@nil Z) + m_bl_off m).
    rewrite (rd_at be b' [] hdr q (m_bl_off m) (m_bl_t m) Hq).
    - rewrite Hv. cbn [obind resolve]. rewrite Hlh. reflexivity.
    - apply in_buf_iff. rewrite Hlh. lia. }
  destruct (proj1 (script_all be m (len bg)) w [] (m_level m) (m_cbl m) hdr (drop hsz bg)
              RES Hwf HL ltac:(lia)) as [H2 _].
  unfold message_script. cbn [exec_script]. rewrite H1. cbn [obind]. rewrite H2.
  f_equal. unfold over_message. fold hsz. fold hdr.
  destruct (over_level be (m_level m) (m_cbl m) w (drop hsz bg)) as [li rest]. reflexivity.
Qed.
Print Assumptions encode_script_image.
