(* DynProofs.v — proofs about Dyn.v: every vector-valid call on a well-formed
   <data> view returns normally, refines the std::vector operation, returns
   the same position and leaves every byte outside
   [voff, voff + szof + max(old size, new size)) untouched. *)
From Coq Require Import ZArith List Bool Lia ZifyBool.
From Sbepp Require Import CInt CIntFacts Dyn.
Import ListNotations.
Local Open Scope Z_scope.

(* ------------------------------------------------------------------ *)
(* lists indexed by Z                                                   *)
(* ------------------------------------------------------------------ *)
Definition zn (l : list Z) (i : Z) : Z := nth (Z.to_nat i) l 0.

Lemma nth_firstn_lt (l : list Z) : forall n k d, (k < n)%nat -> nth k (firstn n l) d = nth k l d.
Proof.
  induction l as [|x l IH]; intros n k d Hk.
  - rewrite firstn_nil. reflexivity.
  - destruct n as [|n]; [lia|]. destruct k as [|k]; [reflexivity|].
    cbn [firstn nth]. apply IH. lia.
Qed.

Lemma nth_skipn (l : list Z) : forall n k d, nth k (skipn n l) d = nth (n + k) l d.
Proof.
  induction l as [|x l IH]; intros n k d.
  - rewrite skipn_nil. destruct k, n; reflexivity.
  - destruct n as [|n]; [reflexivity|]. cbn [skipn Nat.add nth]. apply IH.
Qed.

Lemma nth_repeat_lt (x : Z) : forall m k, (k < m)%nat -> nth k (repeat x m) 0 = x.
Proof.
  induction m as [|m IH]; intros k Hk; [lia|].
  destruct k as [|k]; [reflexivity|]. cbn [repeat nth]. apply IH. lia.
Qed.

Lemma zlen_nonneg l : 0 <= zlen l.
Proof. unfold zlen. lia. Qed.

Lemma zlen_nil : zlen [] = 0.
Proof. reflexivity. Qed.

Lemma zlen_cons x l : zlen (x :: l) = 1 + zlen l.
Proof. unfold zlen. cbn [length]. lia. Qed.

Lemma zlen_app a c : zlen (a ++ c) = zlen a + zlen c.
Proof. unfold zlen. rewrite app_length. lia. Qed.

Lemma zlen_zrepeat x c : 0 <= c -> zlen (zrepeat x c) = c.
Proof. intros. unfold zlen, zrepeat. rewrite repeat_length. lia. Qed.

Lemma zlen_zfirstn n l : 0 <= n <= zlen l -> zlen (zfirstn n l) = n.
Proof. unfold zlen, zfirstn. intros. rewrite firstn_length. lia. Qed.

Lemma zlen_zskipn n l : 0 <= n <= zlen l -> zlen (zskipn n l) = zlen l - n.
Proof. unfold zlen, zskipn. intros. rewrite skipn_length. lia. Qed.

Lemma zlen_slice b o n : 0 <= o -> 0 <= n -> o + n <= zlen b -> zlen (slice b o n) = n.
Proof.
  unfold zlen, slice. intros. rewrite firstn_length, skipn_length. lia.
Qed.

Lemma zlen_splice b o bs : 0 <= o -> o + zlen bs <= zlen b -> zlen (splice b o bs) = zlen b.
Proof.
  unfold zlen, splice. intros.
  rewrite !app_length, firstn_length, skipn_length. lia.
Qed.

Lemma zn_app a c i : 0 <= i -> zn (a ++ c) i = if i <? zlen a then zn a i else zn c (i - zlen a).
Proof.
  intros Hi. unfold zn, zlen. destruct (Z.ltb_spec i (Z.of_nat (length a))).
  - apply app_nth1. lia.
  - rewrite app_nth2 by lia. f_equal. lia.
Qed.

Lemma zn_single x i : i = 0 -> zn [x] i = x.
Proof. intros ->. reflexivity. Qed.

Lemma zn_cons x l i : 0 <= i -> zn (x :: l) i = if i =? 0 then x else zn l (i - 1).
Proof.
  intros Hi. unfold zn. destruct (Z.eqb_spec i 0) as [->|Hne]; [reflexivity|].
  replace (Z.to_nat i) with (S (Z.to_nat (i - 1))) by lia. reflexivity.
Qed.

Lemma zn_zfirstn n l i : 0 <= i < n -> zn (zfirstn n l) i = zn l i.
Proof.
  intros Hi. unfold zn, zfirstn. apply nth_firstn_lt. lia.
Qed.

Lemma zn_zskipn n l i : 0 <= n -> 0 <= i -> zn (zskipn n l) i = zn l (n + i).
Proof.
  intros Hn Hi. unfold zn, zskipn. rewrite nth_skipn. f_equal. lia.
Qed.

Lemma zn_zrepeat x c i : zn (zrepeat x c) i = if (Z.to_nat i <? Z.to_nat c)%nat then x else 0.
Proof.
  unfold zn, zrepeat. destruct (Nat.ltb_spec (Z.to_nat i) (Z.to_nat c)).
  - apply nth_repeat_lt. lia.
  - apply nth_overflow. rewrite repeat_length. lia.
Qed.

Lemma zn_zrepeat_in x c i : 0 <= i < c -> zn (zrepeat x c) i = x.
Proof.
  intros. rewrite zn_zrepeat. destruct (Nat.ltb_spec (Z.to_nat i) (Z.to_nat c)); [reflexivity|lia].
Qed.

Lemma zn_slice b o n i : 0 <= o -> 0 <= i < n -> zn (slice b o n) i = zn b (o + i).
Proof.
  intros Ho Hi. unfold zn, slice. rewrite nth_firstn_lt by lia.
  rewrite nth_skipn. f_equal. lia.
Qed.

Lemma zn_splice b o bs i : 0 <= o -> o + zlen bs <= zlen b -> 0 <= i ->
  zn (splice b o bs) i = if (o <=? i) && (i <? o + zlen bs) then zn bs (i - o) else zn b i.
Proof.
  intros Ho Hb Hi. unfold splice.
  assert (Hl : zlen (firstn (Z.to_nat o) b) = o).
  { unfold zlen in *. rewrite firstn_length. lia. }
  rewrite zn_app by lia. rewrite Hl.
  destruct (Z.ltb_spec i o).
  - replace ((o <=? i) && (i <? o + zlen bs)) with false by lia.
    unfold zn. apply nth_firstn_lt. lia.
  - rewrite zn_app by lia.
    destruct (Z.ltb_spec (i - o) (zlen bs)).
    + replace ((o <=? i) && (i <? o + zlen bs)) with true by lia. reflexivity.
    + replace ((o <=? i) && (i <? o + zlen bs)) with false by lia.
      unfold zn, zlen in *. rewrite nth_skipn. f_equal. lia.
Qed.

Lemma list_ext (a c : list Z) :
  zlen a = zlen c -> (forall i, 0 <= i < zlen a -> zn a i = zn c i) -> a = c.
Proof.
  intros Hl H. apply (nth_ext a c 0 0).
  - unfold zlen in Hl. lia.
  - intros k Hk. specialize (H (Z.of_nat k)). unfold zn, zlen in H.
    rewrite Nat2Z.id in H. apply H. lia.
Qed.

Lemma splice_nil b o : splice b o [] = b.
Proof. unfold splice. cbn [length app]. rewrite Nat.add_0_r. apply firstn_skipn. Qed.

(* ------------------------------------------------------------------ *)
(* bytes, set_primitive / get_primitive                                 *)
(* ------------------------------------------------------------------ *)
Lemma all_bytes_app a c : all_bytes (a ++ c) = all_bytes a && all_bytes c.
Proof. apply forallb_app. Qed.

Lemma all_bytes_firstn_skipn n l : all_bytes l = all_bytes (firstn n l) && all_bytes (skipn n l).
Proof. rewrite <- all_bytes_app, firstn_skipn. reflexivity. Qed.

Lemma all_bytes_firstn n l : all_bytes l = true -> all_bytes (firstn n l) = true.
Proof. rewrite (all_bytes_firstn_skipn n l). intros H. apply andb_true_iff in H. tauto. Qed.

Lemma all_bytes_skipn n l : all_bytes l = true -> all_bytes (skipn n l) = true.
Proof. rewrite (all_bytes_firstn_skipn n l). intros H. apply andb_true_iff in H. tauto. Qed.

Lemma all_bytes_slice b o n : all_bytes b = true -> all_bytes (slice b o n) = true.
Proof. intros. unfold slice. apply all_bytes_firstn, all_bytes_skipn. assumption. Qed.

Lemma all_bytes_splice b o bs :
  all_bytes b = true -> all_bytes bs = true -> all_bytes (splice b o bs) = true.
Proof.
  intros Hb Hs. unfold splice. rewrite !all_bytes_app, Hs.
  rewrite all_bytes_firstn, all_bytes_skipn by assumption. reflexivity.
Qed.

Lemma all_bytes_zrepeat x c : is_byte x = true -> all_bytes (zrepeat x c) = true.
Proof.
  intros Hx. unfold all_bytes, zrepeat. apply forallb_forall. intros y Hy.
  apply repeat_spec in Hy. subst. assumption.
Qed.

Lemma all_bytes_enc_le n : forall v, all_bytes (enc_le n v) = true.
Proof.
  induction n as [|n IH]; intros v; [reflexivity|].
  cbn [enc_le all_bytes forallb]. fold (all_bytes (enc_le n (v / 256))). rewrite IH.
  unfold is_byte. pose proof (Z.mod_pos_bound v 256 ltac:(lia)). lia.
Qed.

Lemma all_bytes_rev l : all_bytes (rev l) = all_bytes l.
Proof.
  unfold all_bytes. induction l as [|x l IH]; [reflexivity|].
  cbn [rev forallb]. rewrite forallb_app, IH. cbn [forallb]. 
  destruct (is_byte x), (forallb is_byte l); reflexivity.
Qed.

Lemma all_bytes_enc be n v : all_bytes (enc be n v) = true.
Proof.
  unfold enc. destruct be; [rewrite all_bytes_rev|]; apply all_bytes_enc_le.
Qed.

Lemma length_enc_le n : forall v, length (enc_le n v) = n.
Proof. induction n; intros; cbn [enc_le length]; [reflexivity|]. rewrite IHn. reflexivity. Qed.

Lemma length_enc be n v : length (enc be n v) = n.
Proof. unfold enc. destruct be; [rewrite rev_length|]; apply length_enc_le. Qed.

Lemma dec_enc_le n : forall v, 0 <= v < 256 ^ Z.of_nat n -> dec_le (enc_le n v) = v.
Proof.
  induction n as [|n IH]; intros v Hv.
  - cbn in *. lia.
  - cbn [enc_le dec_le]. rewrite IH.
    + pose proof (Z.div_mod v 256 ltac:(lia)). lia.
    + rewrite Nat2Z.inj_succ, Z.pow_succ_r in Hv by lia.
      split; [apply Z.div_pos; lia|]. apply Z.div_lt_upper_bound; lia.
Qed.

Lemma dec_enc be n v : 0 <= v < 256 ^ Z.of_nat n -> dec be (enc be n v) = v.
Proof.
  intros Hv. unfold dec, enc. destruct be; [rewrite rev_involutive|]; apply dec_enc_le; assumption.
Qed.

Lemma dec_le_bound l : all_bytes l = true -> 0 <= dec_le l < 256 ^ zlen l.
Proof.
  induction l as [|x l IH]; intros Hb.
  - cbn. lia.
  - cbn [all_bytes forallb] in Hb. apply andb_true_iff in Hb. destruct Hb as [Hx Hl].
    specialize (IH Hl). cbn [dec_le]. rewrite zlen_cons.
    rewrite Z.pow_add_r by (pose proof (zlen_nonneg l); lia).
    unfold is_byte in Hx. lia.
Qed.

Lemma dec_bound be l : all_bytes l = true -> 0 <= dec be l < 256 ^ zlen l.
Proof.
  intros Hb. unfold dec. destruct be; [|apply dec_le_bound; assumption].
  replace (zlen l) with (zlen (rev l)) by (unfold zlen; rewrite rev_length; reflexivity).
  apply dec_le_bound. rewrite all_bytes_rev. assumption.
Qed.

(* ------------------------------------------------------------------ *)
(* integer conversions performed by the code                            *)
(* ------------------------------------------------------------------ *)
Definition unsignedT (T : ity) : bool :=
  match T with U8 | U16 | U32 | U64 => true | _ => false end.

Lemma pow256_szof T : unsignedT T = true -> 256 ^ szof T = tmax T + 1.
Proof. destruct T; try discriminate; reflexivity. Qed.

Lemma szof_pos T : 1 <= szof T <= 8.
Proof. destruct T; cbn; lia. Qed.

Lemma tmax_bound T : unsignedT T = true -> 255 <= tmax T < 2 ^ 64.
Proof. destruct T; try discriminate; cbn; lia. Qed.

Ltac norm_consts :=
  change (tmax U8) with 255 in *; change (tmax U16) with 65535 in *;
  change (tmax U32) with 4294967295 in *; change (tmax U64) with 18446744073709551615 in *;
  change (tmin U8) with 0 in *; change (tmin U16) with 0 in *;
  change (tmin U32) with 0 in *; change (tmin U64) with 0 in *;
  change (tmax I32) with 2147483647 in *; change (tmin I32) with (-2147483648) in *;
  change (tmax I64) with 9223372036854775807 in *; change (tmin I64) with (-9223372036854775808) in *;
  change (szof U8) with 1 in *; change (szof U16) with 2 in *;
  change (szof U32) with 4 in *; change (szof U64) with 8 in *;
  change (2 ^ 64) with 18446744073709551616 in *.
Ltac range_tac := apply in_range_iff; norm_consts; lia.
Ltac cint_go :=
  unfold cadd, csub, cbin, ccast;
  cbv [uac promote ity_eqb];
  rewrite ?wrap_id by range_tac;
  unfold arith; cbv [is_signed];
  rewrite ?wrap_id by range_tac;
  rewrite ?(proj2 (in_range_iff _ _)) by (norm_consts; lia).

Lemma cadd_sz T n : unsignedT T = true -> 0 <= n -> szof T + n < 2 ^ 64 ->
  cadd U64 T (szof T) n = Some (szof T + n).
Proof.
  intros HT Hn Hb. destruct T; try discriminate; cint_go; reflexivity.
Qed.
Lemma cadd_T_i32 T n : unsignedT T = true -> 0 <= n -> n + 1 <= tmax T ->
  exists r, cadd T I32 n 1 = Some r /\ ccast T r = n + 1.
Proof.
  intros HT Hn Hb. destruct T; try discriminate; cint_go; eexists; (split; [reflexivity|]);
  unfold ccast; rewrite ?wrap_id by range_tac; reflexivity.
Qed.
Lemma csub_T_i32 T n : unsignedT T = true -> 0 < n <= tmax T ->
  exists r, csub T I32 n 1 = Some r /\ ccast T r = n - 1.
Proof.
  intros HT Hn. destruct T; try discriminate; cint_go; eexists; (split; [reflexivity|]);
  unfold ccast; rewrite ?wrap_id by range_tac; reflexivity.
Qed.
Lemma csub_T_i64 T n k : unsignedT T = true -> 0 <= k <= n -> n <= tmax T ->
  exists r, csub T I64 n k = Some r /\ ccast T r = n - k.
Proof.
  intros HT Hk Hn. destruct T; try discriminate; cint_go; eexists; (split; [reflexivity|]);
  unfold ccast; rewrite ?wrap_id by range_tac; reflexivity.
Qed.
Lemma cadd_T_T T n c : unsignedT T = true -> 0 <= n -> 0 <= c -> n + c <= tmax T ->
  exists r, cadd T T n c = Some r /\ ccast T r = n + c.
Proof.
  intros HT Hn Hc Hb. destruct T; try discriminate; cint_go; eexists; (split; [reflexivity|]);
  unfold ccast; rewrite ?wrap_id by range_tac; reflexivity.
Qed.
Lemma cadd_T_i64 T n k : unsignedT T = true -> 0 <= n -> 0 <= k -> n + k <= tmax T ->
  exists r, cadd T I64 n k = Some r /\ ccast T r = n + k.
Proof.
  intros HT Hn Hc Hb. destruct T; try discriminate; cint_go; eexists; (split; [reflexivity|]);
  unfold ccast; rewrite ?wrap_id by range_tac; reflexivity.
Qed.
Lemma cadd_szU L k : 0 <= L -> 0 <= k -> L + k < 2 ^ 64 -> cadd U64 U64 L k = Some (L + k).
Proof. intros. cint_go. reflexivity. Qed.
Lemma ccast_id T k : unsignedT T = true -> 0 <= k <= tmax T -> ccast T k = k.
Proof.
  intros HT Hk. unfold ccast. apply wrap_id. apply in_range_iff.
  destruct T; try discriminate; norm_consts; lia.
Qed.
Lemma wrap_u64_id k : 0 <= k < 2 ^ 64 -> wrap U64 k = k.
Proof. intros. apply wrap_id. range_tac. Qed.

(* ------------------------------------------------------------------ *)
(* symbolic execution of the monadic code                               *)
(* ------------------------------------------------------------------ *)
Lemma bind_ok {A B} (m : M A) (f : A -> M B) b a b1 :
  m b = Ok (a, b1) -> bind m f b = f a b1.
Proof. intros H. unfold bind. rewrite H. reflexivity. Qed.

Lemma inb_true b o n : 0 <= o -> 0 <= n -> o + n <= zlen b -> inb b o n = true.
Proof. intros. unfold inb. lia. Qed.

Lemma rd_ok b o n : 0 <= o -> 0 <= n -> o + n <= zlen b -> rd o n b = Ok (slice b o n, b).
Proof. intros. unfold rd. rewrite inb_true by lia. reflexivity. Qed.

Lemma wr_ok b o bs : 0 <= o -> o + zlen bs <= zlen b -> wr o bs b = Ok (tt, splice b o bs).
Proof.
  intros. unfold wr. rewrite inb_true by (pose proof (zlen_nonneg bs); lia). reflexivity.
Qed.

Lemma lift_ok {A} (x : A) b : lift (Some x) b = Ok (x, b).
Proof. reflexivity. Qed.

Section Exec.
  Variable v : view.
  Local Notation T := (vT v).
  Local Notation L := (szof (vT v)).
  Local Notation off := (voff v).
  Local Notation cap := (vcap v).
  Local Notation D := (dstart v).

  (* facts about a buffer in which the view has size n *)
  Record st (b : list Z) (n : Z) : Prop := {
    st_T : unsignedT T = true;
    st_off : 0 <= off;
    st_L : L <= cap;
    st_in : off + cap <= zlen b;
    st_len : zlen b < 2 ^ 64;
    st_sz : size_of v b = n;
    st_n0 : 0 <= n;
    st_nmax : n <= tmax T;
    st_fit : L + n <= cap
  }.

  Lemma D_eq : D = off + L.
  Proof. reflexivity. Qed.

  Lemma sbepp_assert_ok (c : M bool) b : c b = Ok (true, b) -> sbepp_assert v c b = Ok (tt, b).
  Proof.
    intros H. unfold sbepp_assert. destruct (vchk v); [|reflexivity].
    unfold bind. rewrite H. reflexivity.
  Qed.

  Lemma size_check_ok b n k : st b n -> k <= cap -> size_check v k b = Ok (tt, b).
  Proof.
    intros S Hk. unfold size_check. apply sbepp_assert_ok. unfold ret.
    pose proof (szof_pos T). destruct S.
    rewrite wrap_u64_id by lia. repeat f_equal. lia.
  Qed.

  Lemma get_size_ok b n : st b n -> get_size v b = Ok (n, b).
  Proof.
    intros S. unfold get_size.
    rewrite (bind_ok _ _ _ _ _ (size_check_ok b n L S ltac:(destruct S; lia))).
    pose proof (szof_pos T).
    rewrite (bind_ok _ _ _ _ _ (rd_ok b off L ltac:(destruct S; lia) ltac:(lia) ltac:(destruct S; lia))).
    unfold ret. destruct S. unfold size_of in *. congruence.
  Qed.

  Lemma data_unchecked_ok b n : st b n -> data_unchecked v b = Ok (D, b).
  Proof.
    intros S. unfold data_unchecked.
    rewrite (bind_ok _ _ _ _ _ (size_check_ok b n L S ltac:(destruct S; lia))).
    reflexivity.
  Qed.

  Lemma data_checked_ok b n : st b n -> data_checked v b = Ok (D, b).
  Proof.
    intros S. unfold data_checked.
    assert (Hc : (n0 <- get_size v;; tot <- lift (cadd U64 T L n0);;
                  ret (tot <=? wrap U64 cap)) b = Ok (true, b)).
    { rewrite (bind_ok _ _ _ _ _ (get_size_ok b n S)).
      pose proof (szof_pos T). destruct S.
      rewrite cadd_sz by (try assumption; lia).
      rewrite (bind_ok _ _ _ _ _ (lift_ok _ b)). unfold ret.
      rewrite wrap_u64_id by lia. repeat f_equal. lia. }
    rewrite (bind_ok _ _ _ _ _ (sbepp_assert_ok _ b Hc)).
    apply (data_unchecked_ok b n S).
  Qed.

  Lemma end_ok b n : st b n -> end_ v b = Ok (D + n, b).
  Proof.
    intros S. unfold end_, begin_.
    rewrite (bind_ok _ _ _ _ _ (data_checked_ok b n S)).
    rewrite (bind_ok _ _ _ _ _ (get_size_ok b n S)). reflexivity.
  Qed.

  Lemma index_ok b n pos : st b n -> 0 <= pos < n -> index v pos b = Ok (D + pos, b).
  Proof.
    intros S Hp. unfold index.
    assert (Hc : (n0 <- get_size v;; ret (pos <? n0)) b = Ok (true, b)).
    { rewrite (bind_ok _ _ _ _ _ (get_size_ok b n S)). unfold ret. repeat f_equal. lia. }
    rewrite (bind_ok _ _ _ _ _ (sbepp_assert_ok _ b Hc)).
    rewrite (bind_ok _ _ _ _ _ (data_checked_ok b n S)). reflexivity.
  Qed.

  Lemma in_range_incl_ok b n p : st b n -> 0 <= p <= n -> in_range_incl v (D + p) b = Ok (true, b).
  Proof.
    intros S Hp. unfold in_range_incl, begin_.
    rewrite (bind_ok _ _ _ _ _ (data_checked_ok b n S)).
    replace (D <=? D + p) with true by lia.
    rewrite (bind_ok _ _ _ _ _ (end_ok b n S)). unfold ret. repeat f_equal. lia.
  Qed.

  Lemma in_range_excl_ok b n p : st b n -> 0 <= p < n -> in_range_excl v (D + p) b = Ok (true, b).
  Proof.
    intros S Hp. unfold in_range_excl, begin_.
    rewrite (bind_ok _ _ _ _ _ (data_checked_ok b n S)).
    replace (D <=? D + p) with true by lia.
    rewrite (bind_ok _ _ _ _ _ (end_ok b n S)). unfold ret. repeat f_equal. lia.
  Qed.

  Lemma erase_range_cond_ok b n f l :
    st b n -> 0 <= f <= l -> l <= n -> erase_range_cond false v (D + f) (D + l) b = Ok (true, b).
  Proof.
    intros S Hf Hl. unfold erase_range_cond, begin_.
    rewrite (bind_ok _ _ _ _ _ (data_checked_ok b n S)).
    replace (D <=? D + f) with true by lia.
    replace (D + f <=? D + l) with true by lia.
    rewrite (bind_ok _ _ _ _ _ (end_ok b n S)). unfold ret. repeat f_equal. lia.
  Qed.

  (* --- writes --- *)
  Definition set_size (b : list Z) (c : Z) : list Z := splice b off (enc (vbe v) (Z.to_nat L) c).

  Lemma zlen_enc c : zlen (enc (vbe v) (Z.to_nat L) c) = L.
  Proof. unfold zlen. rewrite length_enc. pose proof (szof_pos T). lia. Qed.

  Lemma resize_di_ok b n c :
    st b n -> 0 <= c -> L + c <= cap -> resize_di v c b = Ok (tt, set_size b c).
  Proof.
    intros S Hc Hf. unfold resize_di. pose proof (szof_pos T).
    rewrite cadd_sz by (destruct S; try assumption; lia).
    rewrite (bind_ok _ _ _ _ _ (lift_ok _ b)).
    rewrite (bind_ok _ _ _ _ _ (size_check_ok b n _ S Hf)).
    apply wr_ok; [destruct S; lia|]. rewrite zlen_enc. destruct S; lia.
  Qed.

  Lemma zlen_set_size b n c : st b n -> zlen (set_size b c) = zlen b.
  Proof.
    intros S. unfold set_size. pose proof (szof_pos T).
    apply zlen_splice; [destruct S; lia|]. rewrite zlen_enc. destruct S; lia.
  Qed.

  Lemma zn_set_size b n c i : st b n -> 0 <= i -> (i < off \/ D <= i) -> zn (set_size b c) i = zn b i.
  Proof.
    intros S Hi Ho. unfold set_size. pose proof (szof_pos T).
    rewrite zn_splice by (rewrite ?zlen_enc; destruct S; lia).
    rewrite zlen_enc. rewrite D_eq in Ho.
    replace ((off <=? i) && (i <? off + L)) with false by lia. reflexivity.
  Qed.

  Lemma slice_splice_same b o bs : 0 <= o -> o + zlen bs <= zlen b -> slice (splice b o bs) o (zlen bs) = bs.
  Proof.
    intros Ho Hb. pose proof (zlen_nonneg bs). apply list_ext.
    - rewrite zlen_slice; rewrite ?zlen_splice; lia.
    - intros i Hi. rewrite zlen_slice in Hi by (rewrite ?zlen_splice; lia).
      rewrite zn_slice by lia. rewrite zn_splice by lia.
      replace ((o <=? o + i) && (o + i <? o + zlen bs)) with true by lia.
      f_equal. lia.
  Qed.

  Lemma st_set_size b n c :
    st b n -> 0 <= c <= tmax T -> L + c <= cap -> st (set_size b c) c.
  Proof.
    intros S Hc Hf. pose proof (zlen_set_size b n c S) as Hl. pose proof (szof_pos T).
    destruct S. constructor; try assumption; try lia.
    unfold size_of, set_size.
    rewrite <- (zlen_enc c) at 2. rewrite slice_splice_same by (rewrite ?zlen_enc; lia).
    apply dec_enc. rewrite Z2Nat.id by lia. rewrite pow256_szof by assumption. lia.
  Qed.

  (* a write that does not touch the length prefix keeps the size *)
  Lemma st_splice_payload b n o bs :
    st b n -> D <= o -> o + zlen bs <= zlen b -> st (splice b o bs) n.
  Proof.
    intros S Ho Hb. pose proof (szof_pos T). pose proof (zlen_nonneg bs).
    assert (Hl : zlen (splice b o bs) = zlen b) by (apply zlen_splice; destruct S; rewrite ?D_eq in *; lia).
    destruct S. rewrite D_eq in Ho. constructor; try assumption; try lia.
    rewrite <- st_sz0. unfold size_of. f_equal. apply list_ext.
    - rewrite !zlen_slice; lia.
    - intros i Hi. rewrite zlen_slice in Hi by lia.
      rewrite !zn_slice by lia. rewrite zn_splice by lia.
      replace ((o <=? off + i) && (off + i <? o + zlen bs)) with false by lia. reflexivity.
  Qed.

  Lemma copy_ok b s e d :
    0 <= s <= e -> e <= zlen b -> 0 <= d -> d + (e - s) <= zlen b ->
    copy s e d b = Ok (tt, splice b d (slice b s (e - s))).
  Proof.
    intros Hs He Hd Hde. unfold copy. replace (e - s <? 0) with false by lia.
    rewrite (bind_ok _ _ _ _ _ (rd_ok b s (e - s) ltac:(lia) ltac:(lia) ltac:(lia))).
    apply wr_ok; [lia|]. rewrite zlen_slice by lia. lia.
  Qed.

  Lemma copy_backward_ok b s e dl :
    0 <= s <= e -> e <= zlen b -> 0 <= dl - (e - s) -> dl <= zlen b ->
    copy_backward s e dl b = Ok (tt, splice b (dl - (e - s)) (slice b s (e - s))).
  Proof.
    intros Hs He Hd Hde. unfold copy_backward. replace (e - s <? 0) with false by lia.
    rewrite (bind_ok _ _ _ _ _ (rd_ok b s (e - s) ltac:(lia) ltac:(lia) ltac:(lia))).
    apply wr_ok; [lia|]. rewrite zlen_slice by lia. lia.
  Qed.
End Exec.

(* ------------------------------------------------------------------ *)
(* abstraction, well-formedness                                         *)
(* ------------------------------------------------------------------ *)
Section Shapes.
  Variable v : view.
  Local Notation T := (vT v).
  Local Notation L := (szof (vT v)).
  Local Notation off := (voff v).
  Local Notation cap := (vcap v).
  Local Notation D := (dstart v).

  Lemma wf_st b : wf v b = true -> st v b (size_of v b) /\ all_bytes b = true.
  Proof.
    unfold wf. intros H. repeat (apply andb_true_iff in H; destruct H as [H ?]).
    pose proof (szof_pos T).
    assert (HT : unsignedT T = true) by (destruct T; assumption || discriminate).
    assert (Hs : zlen (slice b off L) = L) by (apply zlen_slice; lia).
    assert (Hab : all_bytes b = true) by assumption.
    pose proof (dec_bound (vbe v) (slice b off L) (all_bytes_slice b off L Hab)) as Hd.
    rewrite Hs, pow256_szof in Hd by assumption. fold (size_of v b) in Hd.
    split; [|assumption]. constructor; try assumption; lia.
  Qed.

  Lemma st_wf b n : st v b n -> all_bytes b = true -> wf v b = true.
  Proof.
    intros S Hb. destruct S. unfold wf. rewrite Hb.
    assert (match T with U8 | U16 | U32 | U64 => true | _ => false end = true)
      by (destruct T; assumption || discriminate).
    lia.
  Qed.

  Lemma D_bounds b n : st v b n -> 0 <= D /\ D + n <= zlen b /\ off < D.
  Proof. intros S. pose proof (szof_pos T). rewrite D_eq. destruct S. lia. Qed.

  Lemma zlen_abs b n : st v b n -> zlen (abs v b) = n.
  Proof.
    intros S. pose proof (D_bounds b n S). unfold abs. rewrite (st_sz _ _ _ S).
    apply zlen_slice; destruct S; lia.
  Qed.

  Lemma zn_abs b n i : st v b n -> 0 <= i < n -> zn (abs v b) i = zn b (D + i).
  Proof.
    intros S Hi. pose proof (D_bounds b n S). unfold abs. rewrite (st_sz _ _ _ S).
    apply zn_slice; lia.
  Qed.

  Lemma abs_ext b n xs :
    st v b n -> zlen xs = n -> (forall i, 0 <= i < n -> zn b (D + i) = zn xs i) -> abs v b = xs.
  Proof.
    intros S Hl H. apply list_ext.
    - rewrite (zlen_abs b n S). lia.
    - intros i Hi. rewrite (zlen_abs b n S) in Hi. rewrite (zn_abs b n i S Hi). apply H. lia.
  Qed.

  Lemma frame_intro b b' m :
    zlen b' = zlen b ->
    (forall i, 0 <= i -> (i < off \/ off + L + m <= i) -> zn b' i = zn b i) -> frame v b b' m.
  Proof.
    intros Hl H. split; [unfold zlen in Hl; lia|]. exact H.
  Qed.

  Ltac brk :=
    repeat match goal with
           | |- context [if ?c then _ else _] => destruct c eqn:?
           end.

  (* S1: only the length prefix is rewritten *)
  Lemma shape_set_size b n c :
    st v b n -> 0 <= c <= tmax T -> L + c <= cap ->
    let b' := set_size v b c in
    st v b' c /\ zlen b' = zlen b /\
    (forall i, 0 <= i -> (i < off \/ D <= i) -> zn b' i = zn b i).
  Proof.
    intros S Hc Hf b'. split; [apply (st_set_size v b n c S Hc Hf)|].
    split; [apply (zlen_set_size v b n c S)|].
    intros i Hi Ho. apply (zn_set_size v b n c i S Hi Ho).
  Qed.

  (* S2: set the size, then write ys at element index k *)
  Lemma shape_set_write b n c k ys :
    st v b n -> 0 <= c <= tmax T -> L + c <= cap -> 0 <= k -> k + zlen ys <= c ->
    let b' := splice (set_size v b c) (D + k) ys in
    st v b' c /\ zlen b' = zlen b /\
    (forall i, 0 <= i -> (i < off \/ D <= i) ->
       zn b' i = if (D + k <=? i) && (i <? D + k + zlen ys) then zn ys (i - (D + k)) else zn b i).
  Proof.
    intros S Hc Hf Hk Hy b'.
    destruct (shape_set_size b n c S Hc Hf) as (S1 & Hl1 & Hz1).
    pose proof (D_bounds _ _ S1) as HD. pose proof (zlen_nonneg ys).
    assert (Hfit : D + k + zlen ys <= zlen (set_size v b c)).
    { rewrite D_eq in *. destruct S1. lia. }
    split; [apply st_splice_payload; [assumption|lia|lia]|].
    split; [unfold b'; rewrite zlen_splice by lia; assumption|].
    intros i Hi Ho. unfold b'. rewrite zn_splice by lia.
    brk; [reflexivity|]. apply Hz1; assumption.
  Qed.

  (* S3: write ys at the start of the payload, then set the size *)
  Lemma shape_write_set b n ys :
    st v b n -> zlen ys <= tmax T -> L + zlen ys <= cap ->
    let b' := set_size v (splice b D ys) (zlen ys) in
    st v b' (zlen ys) /\ zlen b' = zlen b /\
    (forall i, 0 <= i -> (i < off \/ D <= i) ->
       zn b' i = if (D <=? i) && (i <? D + zlen ys) then zn ys (i - D) else zn b i).
  Proof.
    intros S Hc Hf b'. pose proof (zlen_nonneg ys). pose proof (D_bounds _ _ S) as HD.
    assert (Hfit : D + zlen ys <= zlen b) by (rewrite D_eq in *; destruct S; lia).
    assert (S0 : st v (splice b D ys) n) by (apply st_splice_payload; [assumption|lia|lia]).
    assert (Hl0 : zlen (splice b D ys) = zlen b) by (apply zlen_splice; lia).
    destruct (shape_set_size _ n (zlen ys) S0 ltac:(lia) Hf) as (S1 & Hl1 & Hz1).
    split; [exact S1|]. split; [unfold b'; lia|].
    intros i Hi Ho. unfold b'. rewrite Hz1 by assumption. apply zn_splice; lia.
  Qed.

  (* S4: erase [f,l): move the tail down, then set the size *)
  Lemma shape_erase b n f l :
    st v b n -> 0 <= f <= l -> l <= n ->
    let b' := set_size v (splice b (D + f) (slice b (D + l) (n - l))) (n - (l - f)) in
    st v b' (n - (l - f)) /\ zlen b' = zlen b /\
    (forall i, 0 <= i -> (i < off \/ D <= i) ->
       zn b' i = if (D + f <=? i) && (i <? D + f + (n - l)) then zn b (i + (l - f)) else zn b i).
  Proof.
    intros S Hf Hl b'. pose proof (D_bounds _ _ S) as HD.
    assert (Hm : zlen (slice b (D + l) (n - l)) = n - l) by (apply zlen_slice; lia).
    assert (S0 : st v (splice b (D + f) (slice b (D + l) (n - l))) n)
      by (apply st_splice_payload; [assumption|lia|lia]).
    assert (Hl0 : zlen (splice b (D + f) (slice b (D + l) (n - l))) = zlen b) by (apply zlen_splice; lia).
    assert (Hfit : L + (n - (l - f)) <= cap) by (destruct S; lia).
    destruct (shape_set_size _ n (n - (l - f)) S0 ltac:(destruct S; lia) Hfit) as (S1 & Hl1 & Hz1).
    split; [exact S1|]. split; [unfold b'; lia|].
    intros i Hi Ho. unfold b'. rewrite Hz1 by assumption.
    rewrite zn_splice by lia. rewrite Hm. brk; [|reflexivity].
    rewrite zn_slice by lia. f_equal. lia.
  Qed.

  (* S5: insert ys at p: set the size, move the tail up, write ys *)
  Lemma shape_insert b n p ys :
    st v b n -> 0 <= p <= n -> n + zlen ys <= tmax T -> L + (n + zlen ys) <= cap ->
    let k := zlen ys in
    let b1 := set_size v b (n + k) in
    let b' := splice (splice b1 (D + n + k - (D + n - (D + p))) (slice b1 (D + p) (D + n - (D + p)))) (D + p) ys in
    st v b' (n + k) /\ zlen b' = zlen b /\
    (forall i, 0 <= i -> (i < off \/ D <= i) ->
       zn b' i = if (D + p <=? i) && (i <? D + p + k) then zn ys (i - (D + p))
                 else if (D + p + k <=? i) && (i <? D + n + k) then zn b (i - k)
                 else zn b i).
  Proof.
    intros S Hp Hc Hf k b1 b'. pose proof (zlen_nonneg ys). fold k in Hc, Hf.
    destruct (shape_set_size b n (n + k) S ltac:(destruct S; lia) Hf) as (S1 & Hl1 & Hz1).
    fold b1 in S1, Hl1, Hz1.
    pose proof (D_bounds _ _ S1) as HD.
    assert (Hm : zlen (slice b1 (D + p) (D + n - (D + p))) = n - p) by (rewrite zlen_slice; lia).
    set (m := slice b1 (D + p) (D + n - (D + p))) in *.
    assert (Hzm : forall j, 0 <= j < n - p -> zn m j = zn b (D + p + j)).
    { intros j Hj. unfold m. rewrite zn_slice by lia. apply Hz1; lia. }
    set (b2 := splice b1 (D + n + k - (D + n - (D + p))) m) in *.
    assert (S2 : st v b2 (n + k)) by (apply st_splice_payload; [assumption|lia|lia]).
    assert (Hl2 : zlen b2 = zlen b) by (unfold b2; rewrite zlen_splice; lia).
    assert (Hz2 : forall i, 0 <= i -> zn b2 i =
              if (D + p + k <=? i) && (i <? D + n + k) then zn m (i - (D + p + k)) else zn b1 i).
    { intros i Hi. unfold b2. rewrite zn_splice by lia. rewrite Hm.
      replace (D + n + k - (D + n - (D + p))) with (D + p + k) by lia.
      replace (D + p + k + (n - p)) with (D + n + k) by lia. reflexivity. }
    split; [apply st_splice_payload; [assumption|lia|lia]|].
    split; [unfold b'; rewrite zlen_splice; lia|].
    intros i Hi Ho. unfold b'. rewrite zn_splice by lia. fold k.
    brk; try reflexivity; try lia.
    - rewrite Hz2 by lia. rewrite Heqb1. rewrite Hzm by lia. f_equal. lia.
    - rewrite Hz2 by lia. rewrite Heqb1. apply Hz1; assumption.
  Qed.
End Shapes.

(* ------------------------------------------------------------------ *)
(* what each member function computes on a state of size n             *)
(* ------------------------------------------------------------------ *)
Section Runs.
  Variable v : view.
  Local Notation T := (vT v).
  Local Notation L := (szof (vT v)).
  Local Notation off := (voff v).
  Local Notation cap := (vcap v).
  Local Notation D := (dstart v).

  Ltac run H := rewrite (bind_ok _ _ _ _ _ H).

  Lemma st_facts b n : st v b n ->
    0 <= off /\ L <= cap /\ off + cap <= zlen b /\ zlen b < 2 ^ 64 /\ 0 <= n /\ n <= tmax T /\
    L + n <= cap /\ 1 <= L <= 8 /\ D = off + L.
  Proof. intros S. pose proof (szof_pos T). rewrite D_eq. destruct S. lia. Qed.

  Lemma push_back_run b n x :
    st v b n -> n + 1 <= tmax T -> L + (n + 1) <= cap ->
    push_back v x b = Ok (tt, splice (set_size v b (n + 1)) (D + n) [x]).
  Proof.
    intros S Hm Hf. unfold push_back.
    pose proof (st_facts _ _ S) as HS.
    run (get_size_ok v b n S).
    destruct (cadd_T_i32 T n (st_T _ _ _ S) (st_n0 _ _ _ S) Hm) as (r & Hr & Hc).
    rewrite Hr. run (lift_ok r b). rewrite Hc.
    run (resize_di_ok v b n (n + 1) S ltac:(destruct S; lia) Hf).
    assert (S1 := st_set_size v b n (n + 1) S ltac:(destruct S; lia) Hf).
    run (index_ok v _ (n + 1) n S1 ltac:(destruct S; lia)).
    pose proof (D_bounds v _ _ S1).
    run (wr_ok (set_size v b (n + 1)) (D + n) [x] ltac:(lia) ltac:(change (zlen [x]) with 1; lia)).
    reflexivity.
  Qed.

  Lemma pop_back_run b n :
    st v b n -> 0 < n -> pop_back v b = Ok (tt, set_size v b (n - 1)).
  Proof.
    intros S Hn. unfold pop_back.
    pose proof (st_facts _ _ S) as HS.
    assert (Hc : (n0 <- get_size v;; ret (negb (n0 =? 0))) b = Ok (true, b)).
    { run (get_size_ok v b n S). unfold ret. repeat f_equal. lia. }
    run (sbepp_assert_ok v _ b Hc).
    run (get_size_ok v b n S).
    destruct (csub_T_i32 T n (st_T _ _ _ S) ltac:(destruct S; lia)) as (r & Hr & Hcc).
    rewrite Hr. run (lift_ok r b). rewrite Hcc.
    run (resize_di_ok v b n (n - 1) S ltac:(lia) ltac:(destruct S; lia)).
    reflexivity.
  Qed.

  Lemma erase_range_run b n f l :
    st v b n -> 0 <= f <= l -> l <= n ->
    erase_range false v (D + f) (D + l) b =
      Ok (D + f, set_size v (splice b (D + f) (slice b (D + l) (n - l))) (n - (l - f))).
  Proof.
    intros S Hf Hl. unfold erase_range. pose proof (D_bounds v _ _ S) as HD.
    pose proof (st_facts _ _ S) as HS.
    run (sbepp_assert_ok v _ b (erase_range_cond_ok v b n f l S Hf Hl)).
    run (end_ok v b n S).
    run (copy_ok b (D + l) (D + n) (D + f) ltac:(lia) ltac:(lia) ltac:(lia) ltac:(lia)).
    replace (D + n - (D + l)) with (n - l) by lia.
    assert (Hm : zlen (slice b (D + l) (n - l)) = n - l) by (apply zlen_slice; lia).
    assert (S0 : st v (splice b (D + f) (slice b (D + l) (n - l))) n)
      by (apply st_splice_payload; [assumption|lia|lia]).
    run (get_size_ok v _ n S0).
    replace (D + l - (D + f)) with (l - f) by lia.
    destruct (csub_T_i64 T n (l - f) (st_T _ _ _ S) ltac:(lia) (st_nmax _ _ _ S)) as (r & Hr & Hc).
    rewrite Hr. run (lift_ok r (splice b (D + f) (slice b (D + l) (n - l)))). rewrite Hc.
    run (resize_di_ok v _ n (n - (l - f)) S0 ltac:(lia) ltac:(destruct S; lia)).
    reflexivity.
  Qed.

  Lemma erase1_run b n p :
    st v b n -> 0 <= p < n ->
    erase1 v (D + p) b =
      Ok (D + p, set_size v (splice b (D + p) (slice b (D + (p + 1)) (n - (p + 1)))) (n - (p + 1 - p))).
  Proof.
    intros S Hp. unfold erase1. pose proof (D_bounds v _ _ S) as HD.
    pose proof (st_facts _ _ S) as HS.
    run (sbepp_assert_ok v _ b (in_range_excl_ok v b n p S Hp)).
    run (end_ok v b n S).
    run (copy_ok b (D + p + 1) (D + n) (D + p) ltac:(lia) ltac:(lia) ltac:(lia) ltac:(lia)).
    replace (D + n - (D + p + 1)) with (n - (p + 1)) by lia.
    replace (D + p + 1) with (D + (p + 1)) by lia.
    assert (Hm : zlen (slice b (D + (p + 1)) (n - (p + 1))) = n - (p + 1)) by (apply zlen_slice; lia).
    assert (S0 : st v (splice b (D + p) (slice b (D + (p + 1)) (n - (p + 1)))) n)
      by (apply st_splice_payload; [assumption|lia|lia]).
    run (get_size_ok v _ n S0).
    destruct (csub_T_i32 T n (st_T _ _ _ S) ltac:(destruct S; lia)) as (r & Hr & Hc).
    rewrite Hr. run (lift_ok r (splice b (D + p) (slice b (D + (p + 1)) (n - (p + 1))))). rewrite Hc.
    replace (n - (p + 1 - p)) with (n - 1) by lia.
    run (resize_di_ok v _ n (n - 1) S0 ltac:(lia) ltac:(destruct S; lia)).
    reflexivity.
  Qed.

  (* the common tail of all insert overloads once the new size is known *)
  Definition insert_buf (b : list Z) (n p : Z) (ys : list Z) : list Z :=
    let b1 := set_size v b (n + zlen ys) in
    splice (splice b1 (D + n + zlen ys - (D + n - (D + p))) (slice b1 (D + p) (D + n - (D + p)))) (D + p) ys.

  Lemma insert_tail_run b n p ys :
    st v b n -> 0 <= p <= n -> n + zlen ys <= tmax T -> L + (n + zlen ys) <= cap ->
    (resize_di v (n + zlen ys) ;;;
     e <- end_ v ;;
     copy_backward (D + p) (D + n) e ;;;
     wr (D + p) ys ;;;
     ret (D + p)) b = Ok (D + p, insert_buf b n p ys).
  Proof.
    intros S Hp Hm Hf. pose proof (zlen_nonneg ys) as Hy.
    pose proof (st_facts _ _ S) as HS.
    run (resize_di_ok v b n (n + zlen ys) S ltac:(destruct S; lia) Hf).
    assert (S1 := st_set_size v b n (n + zlen ys) S ltac:(destruct S; lia) Hf).
    pose proof (D_bounds v _ _ S1) as HD.
    run (end_ok v _ _ S1).
    run (copy_backward_ok (set_size v b (n + zlen ys)) (D + p) (D + n) (D + (n + zlen ys))
           ltac:(lia) ltac:(lia) ltac:(lia) ltac:(lia)).
    replace (D + (n + zlen ys)) with (D + n + zlen ys) by lia.
    assert (Hmm : zlen (slice (set_size v b (n + zlen ys)) (D + p) (D + n - (D + p))) = n - p)
      by (rewrite zlen_slice; lia).
    match goal with |- bind (wr _ _) _ ?bb = _ =>
      assert (Hl2 : zlen bb = zlen (set_size v b (n + zlen ys))) by (apply zlen_splice; lia) end.
    match goal with |- bind (wr _ _) _ ?bb = _ =>
      run (wr_ok bb (D + p) ys ltac:(lia) ltac:(lia)) end.
    reflexivity.
  Qed.

  Lemma insert1_run b n p x :
    st v b n -> 0 <= p <= n -> n + 1 <= tmax T -> L + (n + 1) <= cap ->
    insert1 v (D + p) x b = Ok (D + p, insert_buf b n p [x]).
  Proof.
    intros S Hp Hm Hf. unfold insert1.
    pose proof (st_facts _ _ S) as HS.
    run (sbepp_assert_ok v _ b (in_range_incl_ok v b n p S Hp)).
    run (end_ok v b n S). run (get_size_ok v b n S).
    destruct (cadd_T_i32 T n (st_T _ _ _ S) (st_n0 _ _ _ S) Hm) as (r & Hr & Hc).
    rewrite Hr. run (lift_ok r b). rewrite Hc.
    apply (insert_tail_run b n p [x] S Hp Hm Hf).
  Qed.

  Lemma insert_n_run b n p c x :
    st v b n -> 0 <= p <= n -> 0 <= c -> n + c <= tmax T -> L + (n + c) <= cap ->
    insert_n v (D + p) c x b = Ok (D + p, insert_buf b n p (zrepeat x c)).
  Proof.
    intros S Hp Hc0 Hm Hf. unfold insert_n.
    pose proof (st_facts _ _ S) as HS.
    run (sbepp_assert_ok v _ b (in_range_incl_ok v b n p S Hp)).
    run (end_ok v b n S). run (get_size_ok v b n S).
    destruct (cadd_T_T T n c (st_T _ _ _ S) (st_n0 _ _ _ S) Hc0 Hm) as (r & Hr & Hc).
    rewrite Hr. run (lift_ok r b). rewrite Hc.
    pose proof (insert_tail_run b n p (zrepeat x c) S Hp) as H.
    rewrite zlen_zrepeat in H by lia. apply H; assumption.
  Qed.

  Lemma insert_fwd_run b n p ys :
    st v b n -> 0 <= p <= n -> n + zlen ys <= tmax T -> L + (n + zlen ys) <= cap ->
    insert_fwd v (D + p) ys b = Ok (D + p, insert_buf b n p ys).
  Proof.
    intros S Hp Hm Hf. unfold insert_fwd, insert_fwd_impl.
    pose proof (st_facts _ _ S) as HS.
    run (sbepp_assert_ok v _ b (in_range_incl_ok v b n p S Hp)).
    run (end_ok v b n S). run (get_size_ok v b n S).
    destruct (cadd_T_i64 T n (zlen ys) (st_T _ _ _ S) (st_n0 _ _ _ S) (zlen_nonneg ys) Hm) as (r & Hr & Hc).
    rewrite Hr. run (lift_ok r b). rewrite Hc.
    apply (insert_tail_run b n p ys S Hp Hm Hf).
  Qed.

  Lemma splice_splice_adj b o a c :
    0 <= o -> o + zlen a + zlen c <= zlen b ->
    splice (splice b o a) (o + zlen a) c = splice b o (a ++ c).
  Proof.
    intros Ho Hb. pose proof (zlen_nonneg a). pose proof (zlen_nonneg c).
    assert (Hl1 : zlen (splice b o a) = zlen b) by (apply zlen_splice; lia).
    apply list_ext.
    - rewrite !zlen_splice; rewrite ?zlen_app; lia.
    - intros i Hi. rewrite zlen_splice in Hi by lia.
      rewrite zn_splice by lia. rewrite (zn_splice b o (a ++ c)) by (rewrite ?zlen_app; lia).
      rewrite zlen_app.
      destruct ((o + zlen a <=? i) && (i <? o + zlen a + zlen c)) eqn:E1.
      + replace ((o <=? i) && (i <? o + (zlen a + zlen c))) with true by lia.
        rewrite zn_app by lia. replace (i - o <? zlen a) with false by lia. f_equal. lia.
      + rewrite zn_splice by lia.
        destruct ((o <=? i) && (i <? o + zlen a)) eqn:E2.
        * replace ((o <=? i) && (i <? o + (zlen a + zlen c))) with true by lia.
          rewrite zn_app by lia. replace (i - o <? zlen a) with true by lia. reflexivity.
        * replace ((o <=? i) && (i <? o + (zlen a + zlen c))) with false by lia. reflexivity.
  Qed.

  Lemma fill_loop_ok x c : forall k i b,
    st v b c -> 0 <= i -> i + Z.of_nat k = c ->
    fill_loop v k i x b = Ok (tt, splice b (D + i) (repeat x k)).
  Proof.
    induction k as [|k IH]; intros i b S Hi Hk.
    - cbn [fill_loop repeat]. rewrite splice_nil. reflexivity.
    - cbn [fill_loop repeat]. pose proof (D_bounds v _ _ S) as HD.
      run (index_ok v b c i S ltac:(lia)).
      run (wr_ok b (D + i) [x] ltac:(lia) ltac:(change (zlen [x]) with 1; lia)).
      assert (S1 : st v (splice b (D + i) [x]) c)
        by (apply st_splice_payload; [assumption|lia|change (zlen [x]) with 1; lia]).
      rewrite ccast_id by (destruct S; try assumption; lia).
      rewrite (IH (i + 1) _ S1 ltac:(lia) ltac:(lia)).
      replace (D + (i + 1)) with (D + i + zlen [x]) by (change (zlen [x]) with 1; lia).
      rewrite splice_splice_adj; [reflexivity|lia|].
      change (zlen [x]) with 1. unfold zlen at 1. rewrite repeat_length. lia.
  Qed.

  Lemma resize_val_run b n c x :
    st v b n -> 0 <= c <= tmax T -> L + c <= cap ->
    resize_val v c x b =
      Ok (tt, if c >? n then splice (set_size v b c) (D + n) (zrepeat x (c - n)) else set_size v b c).
  Proof.
    intros S Hc Hf. unfold resize_val.
    pose proof (st_facts _ _ S) as HS.
    run (get_size_ok v b n S).
    run (resize_di_ok v b n c S ltac:(lia) Hf).
    assert (S1 := st_set_size v b n c S Hc Hf).
    destruct (c >? n) eqn:E; [|reflexivity].
    run (fill_loop_ok x c (Z.to_nat (c - n)) n _ S1 (st_n0 _ _ _ S) ltac:(lia)).
    reflexivity.
  Qed.

  Lemma assign_n_run b n c x :
    st v b n -> 0 <= c <= tmax T -> L + c <= cap ->
    assign_n v c x b = Ok (tt, splice (set_size v b c) (D + 0) (zrepeat x c)).
  Proof.
    intros S Hc Hf. unfold assign_n.
    pose proof (st_facts _ _ S) as HS.
    run (resize_di_ok v b n c S ltac:(lia) Hf).
    assert (S1 := st_set_size v b n c S Hc Hf). pose proof (D_bounds v _ _ S1).
    unfold begin_. run (data_checked_ok v _ c S1).
    run (wr_ok (set_size v b c) D (repeat x (Z.to_nat c)) ltac:(lia)
           ltac:(fold (zrepeat x c); rewrite zlen_zrepeat by lia; lia)).
    replace (D + 0) with D by lia. reflexivity.
  Qed.

  Lemma assign_it_run b n ys :
    st v b n -> zlen ys <= tmax T -> L + zlen ys <= cap ->
    assign_it v ys b = Ok (tt, set_size v (splice b D ys) (zlen ys)).
  Proof.
    intros S Hc Hf. unfold assign_it. pose proof (zlen_nonneg ys). pose proof (D_bounds v _ _ S).
    pose proof (st_facts _ _ S) as HS.
    run (data_unchecked_ok v b n S).
    assert (Hfit : D + zlen ys <= zlen b) by (rewrite D_eq in *; destruct S; lia).
    run (wr_ok b D ys ltac:(lia) Hfit).
    assert (S0 : st v (splice b D ys) n) by (apply st_splice_payload; [assumption|lia|lia]).
    rewrite ccast_id by (destruct S; try assumption; lia).
    run (resize_di_ok v _ n (zlen ys) S0 ltac:(lia) Hf).
    reflexivity.
  Qed.

  Lemma assign_il_run b n ys :
    st v b n -> zlen ys <= tmax T -> L + zlen ys <= cap ->
    assign_il v ys b = Ok (tt, set_size v (splice b D ys) (zlen ys)).
  Proof.
    intros S Hc Hf. unfold assign_il. pose proof (zlen_nonneg ys). pose proof (szof_pos T).
    pose proof (st_facts _ _ S) as HS.
    rewrite cadd_szU by (destruct S; lia).
    run (lift_ok (L + zlen ys) b).
    run (size_check_ok v b n _ S Hf).
    apply (assign_it_run b n ys S Hc Hf).
  Qed.

  Lemma assign_string_run b n ys :
    st v b n -> zlen ys <= tmax T -> L + zlen ys <= cap ->
    assign_string v ys b = Ok (tt, splice (set_size v b (zlen ys)) (D + 0) ys).
  Proof.
    intros S Hc Hf. unfold assign_string. pose proof (zlen_nonneg ys).
    pose proof (st_facts _ _ S) as HS.
    rewrite ccast_id by (destruct S; try assumption; lia).
    run (resize_di_ok v b n (zlen ys) S ltac:(lia) Hf).
    assert (S1 := st_set_size v b n (zlen ys) S ltac:(lia) Hf). pose proof (D_bounds v _ _ S1).
    unfold begin_. run (data_checked_ok v _ _ S1).
    run (wr_ok (set_size v b (zlen ys)) D ys ltac:(lia) ltac:(lia)).
    replace (D + 0) with D by lia. reflexivity.
  Qed.
End Runs.

(* ------------------------------------------------------------------ *)
(* one call: refinement, frame, no assertion                            *)
(* ------------------------------------------------------------------ *)
Definition step_post (v : view) (b : list Z) (o : op) (r : option Z) (b' : list Z) : Prop :=
  wf v b' = true /\
  size_of v b' = new_size (size_of v b) o /\
  (exists fresh, vec_step fresh (abs v b) o = (abs v b', r)) /\
  frame v b b' (Z.max (size_of v b) (new_size (size_of v b) o)).

Definition step_ok (v : view) (b : list Z) (o : op) : Prop :=
  exists r b', exec v o b = Ok (r, b') /\ step_post v b o r b'.

Ltac vsimp :=
  repeat first
   [ rewrite zn_app by lia
   | rewrite zlen_app
   | rewrite zlen_zfirstn by lia
   | rewrite zlen_zskipn by lia
   | rewrite zlen_zrepeat by lia
   | rewrite zn_zfirstn by lia
   | rewrite zn_zskipn by lia
   | rewrite zn_zrepeat_in by lia
   | rewrite zn_single by lia
   | rewrite zlen_nil
   | progress change (zlen [?x]) with 1 ].

Ltac brk1 :=
  match goal with
  | |- context [if ?c then _ else _] => destruct c eqn:?
  end.

Ltac pt := repeat (vsimp; brk1); vsimp.
Ltac fin H :=
  try lia; try reflexivity; try (f_equal; lia);
  try (rewrite H by lia; first [reflexivity | f_equal; lia]).

Section Steps.
  Variable v : view.
  Local Notation T := (vT v).
  Local Notation L := (szof (vT v)).
  Local Notation off := (voff v).
  Local Notation cap := (vcap v).
  Local Notation D := (dstart v).

  Lemma post_intro b n o r b' n' xs' :
    st v b n -> all_bytes b' = true -> st v b' n' -> n' = new_size n o -> zlen b' = zlen b ->
    (forall i, 0 <= i -> (i < off \/ off + L + Z.max n n' <= i) -> zn b' i = zn b i) ->
    (exists fresh, vec_step fresh (abs v b) o = (xs', r)) -> zlen xs' = n' ->
    (forall i, 0 <= i < n' -> zn b' (D + i) = zn xs' i) ->
    step_post v b o r b'.
  Proof.
    intros S Hab S' Hn Hl Hfr [fresh Hv] Hxl Hx.
    unfold step_post. rewrite (st_sz _ _ _ S), (st_sz _ _ _ S').
    split; [apply (st_wf v b' n' S' Hab)|]. split; [assumption|].
    split.
    - exists fresh. rewrite Hv. f_equal. symmetry. apply (abs_ext v b' n' xs' S' Hxl Hx).
    - rewrite <- Hn. apply frame_intro; assumption.
  Qed.

  Ltac bytes_tac :=
    repeat first [ assumption | apply all_bytes_splice | apply all_bytes_slice | apply all_bytes_enc
                 | apply all_bytes_zrepeat | reflexivity ].

  (* common preamble *)
  Ltac start Hwf Hv Sb Hab HS n xs Hxl Hxz :=
    destruct (wf_st v _ Hwf) as [Sb Hab];
    pose proof (st_facts v _ _ Sb) as HS;
    match type of Sb with st _ ?b _ =>
      set (n := size_of v b) in *;
      pose proof (zlen_abs v b n Sb) as Hxl;
      pose proof (fun j => zn_abs v b n j Sb) as Hxz;
      set (xs := abs v b) in *
    end;
    cbn [valid] in Hv; unfold fits, max_size, is_byte in Hv.

  Lemma step_push_back b x :
    wf v b = true -> valid v (size_of v b) (PushBack x) = true -> step_ok v b (PushBack x).
  Proof.
    intros Hwf Hv. start Hwf Hv Sb Hab HS n xs Hxl Hxz.
    destruct (shape_set_write v b n (n + 1) n [x] Sb ltac:(lia) ltac:(lia) ltac:(lia)
                ltac:(change (zlen [x]) with 1; lia)) as (Sb' & Hl & Hz).
    unfold step_ok, exec, exec_gen, void_.
    rewrite (bind_ok _ _ _ _ _ (push_back_run v b n x Sb ltac:(lia) ltac:(lia))).
    eexists _, _. split; [reflexivity|].
    apply (post_intro b n (PushBack x) None _ (n + 1) (xs ++ [x]) Sb); try assumption.
    - unfold set_size. bytes_tac. cbn. unfold is_byte. lia.
    - reflexivity.
    - intros i Hi Ho. rewrite Hz by lia. pt; fin Hxz.
    - exists []. reflexivity.
    - vsimp. lia.
    - intros i Hi. rewrite Hz by lia. pt; fin Hxz.
  Qed.

  Lemma step_pop_back b :
    wf v b = true -> valid v (size_of v b) PopBack = true -> step_ok v b PopBack.
  Proof.
    intros Hwf Hv. start Hwf Hv Sb Hab HS n xs Hxl Hxz.
    destruct (shape_set_size v b n (n - 1) Sb ltac:(lia) ltac:(lia)) as (Sb' & Hl & Hz).
    unfold step_ok, exec, exec_gen, void_.
    rewrite (bind_ok _ _ _ _ _ (pop_back_run v b n Sb ltac:(lia))).
    eexists _, _. split; [reflexivity|].
    apply (post_intro b n PopBack None _ (n - 1) (zfirstn (zlen xs - 1) xs) Sb); try assumption.
    - unfold set_size. bytes_tac.
    - reflexivity.
    - intros i Hi Ho. apply Hz; lia.
    - exists []. reflexivity.
    - vsimp. lia.
    - intros i Hi. rewrite Hz by lia. pt; fin Hxz.
  Qed.

  Lemma erase_post b n f l o :
    st v b n -> all_bytes b = true -> 0 <= f <= l -> l <= n -> new_size n o = n - (l - f) ->
    (forall fresh, vec_step fresh (abs v b) o = (zfirstn f (abs v b) ++ zskipn l (abs v b), Some f)) ->
    step_post v b o (Some f)
      (set_size v (splice b (D + f) (slice b (D + l) (n - l))) (n - (l - f))).
  Proof.
    intros Sb Hab Hf Hl Hn Hvec. pose proof (st_facts v _ _ Sb) as HS.
    pose proof (zlen_abs v b n Sb) as Hxl. pose proof (fun j => zn_abs v b n j Sb) as Hxz.
    set (xs := abs v b) in *.
    destruct (shape_erase v b n f l Sb Hf Hl) as (Sb' & Hlen & Hz).
    apply (post_intro b n o (Some f) _ (n - (l - f)) (zfirstn f xs ++ zskipn l xs) Sb); try assumption.
    - unfold set_size. bytes_tac.
    - lia.
    - intros i Hi Ho. rewrite Hz by lia. pt; fin Hxz.
    - exists []. apply Hvec.
    - vsimp. lia.
    - intros i Hi. rewrite Hz by lia. pt; fin Hxz.
  Qed.

  Lemma step_erase1 b p :
    wf v b = true -> valid v (size_of v b) (Erase1 p) = true -> step_ok v b (Erase1 p).
  Proof.
    intros Hwf Hv. start Hwf Hv Sb Hab HS n xs Hxl Hxz.
    unfold step_ok, exec, exec_gen, iter_.
    rewrite (bind_ok _ _ _ _ _ (erase1_run v b n p Sb ltac:(lia))).
    replace (D + p - D) with p by lia.
    eexists _, _. split; [reflexivity|].
    apply (erase_post b n p (p + 1) (Erase1 p) Sb Hab); try lia.
    - cbn [new_size]. fold n. lia.
    - intros fresh. reflexivity.
  Qed.

  Lemma step_erase_range b f l :
    wf v b = true -> valid v (size_of v b) (EraseR f l) = true -> step_ok v b (EraseR f l).
  Proof.
    intros Hwf Hv. start Hwf Hv Sb Hab HS n xs Hxl Hxz.
    unfold step_ok, exec, exec_gen, iter_.
    rewrite (bind_ok _ _ _ _ _ (erase_range_run v b n f l Sb ltac:(lia) ltac:(lia))).
    replace (D + f - D) with f by lia.
    eexists _, _. split; [reflexivity|].
    apply (erase_post b n f l (EraseR f l) Sb Hab); try lia.
    - reflexivity.
    - intros fresh. reflexivity.
  Qed.

  Lemma insert_post b n p ys o :
    st v b n -> all_bytes b = true -> all_bytes ys = true -> 0 <= p <= n ->
    n + zlen ys <= tmax T -> L + (n + zlen ys) <= cap -> new_size n o = n + zlen ys ->
    (forall fresh, vec_step fresh (abs v b) o = (vec_insert (abs v b) p ys, Some p)) ->
    step_post v b o (Some p) (insert_buf v b n p ys).
  Proof.
    intros Sb Hab Hyb Hp Hm Hf Hn Hvec. pose proof (st_facts v _ _ Sb) as HS.
    pose proof (zlen_abs v b n Sb) as Hxl. pose proof (fun j => zn_abs v b n j Sb) as Hxz.
    pose proof (zlen_nonneg ys) as Hy0.
    set (xs := abs v b) in *.
    destruct (shape_insert v b n p ys Sb Hp Hm Hf) as (Sb' & Hlen & Hz).
    apply (post_intro b n o (Some p) _ (n + zlen ys) (vec_insert xs p ys) Sb); try assumption.
    - unfold insert_buf, set_size. bytes_tac.
    - lia.
    - intros i Hi Ho. unfold insert_buf. rewrite Hz by lia. pt; fin Hxz.
    - exists []. apply Hvec.
    - unfold vec_insert. vsimp. lia.
    - intros i Hi. unfold insert_buf, vec_insert. rewrite Hz by lia. pt; fin Hxz.
  Qed.

  Lemma step_insert1 b p x :
    wf v b = true -> valid v (size_of v b) (Insert1 p x) = true -> step_ok v b (Insert1 p x).
  Proof.
    intros Hwf Hv. start Hwf Hv Sb Hab HS n xs Hxl Hxz.
    unfold step_ok, exec, exec_gen, iter_.
    rewrite (bind_ok _ _ _ _ _ (insert1_run v b n p x Sb ltac:(lia) ltac:(lia) ltac:(lia))).
    replace (D + p - D) with p by lia.
    eexists _, _. split; [reflexivity|].
    apply (insert_post b n p [x] (Insert1 p x) Sb Hab); try (change (zlen [x]) with 1; lia).
    - cbn. unfold is_byte. lia.
    - reflexivity.
    - intros fresh. reflexivity.
  Qed.

  Lemma step_insert_n b p c x :
    wf v b = true -> valid v (size_of v b) (InsertN p c x) = true -> step_ok v b (InsertN p c x).
  Proof.
    intros Hwf Hv. start Hwf Hv Sb Hab HS n xs Hxl Hxz.
    unfold step_ok, exec, exec_gen, iter_.
    rewrite (bind_ok _ _ _ _ _ (insert_n_run v b n p c x Sb ltac:(lia) ltac:(lia) ltac:(lia) ltac:(lia))).
    replace (D + p - D) with p by lia.
    eexists _, _. split; [reflexivity|].
    assert (Hyl : zlen (zrepeat x c) = c) by (apply zlen_zrepeat; lia).
    apply (insert_post b n p (zrepeat x c) (InsertN p c x) Sb Hab); try lia.
    - apply all_bytes_zrepeat. unfold is_byte. lia.
    - cbn [new_size]. fold n. lia.
    - intros fresh. reflexivity.
  Qed.

  Lemma step_insert_fwd b p ys :
    wf v b = true -> valid v (size_of v b) (InsertFwd p ys) = true -> step_ok v b (InsertFwd p ys).
  Proof.
    intros Hwf Hv. start Hwf Hv Sb Hab HS n xs Hxl Hxz.
    unfold step_ok, exec, exec_gen, iter_.
    rewrite (bind_ok _ _ _ _ _ (insert_fwd_run v b n p ys Sb ltac:(lia) ltac:(lia) ltac:(lia))).
    replace (D + p - D) with p by lia.
    eexists _, _. split; [reflexivity|].
    apply (insert_post b n p ys (InsertFwd p ys) Sb Hab); try lia.
    - reflexivity.
    - intros fresh. reflexivity.
  Qed.

  Lemma step_insert_il b p ys :
    wf v b = true -> valid v (size_of v b) (InsertIl p ys) = true -> step_ok v b (InsertIl p ys).
  Proof.
    intros Hwf Hv. start Hwf Hv Sb Hab HS n xs Hxl Hxz.
    unfold step_ok, exec, exec_gen, iter_.
    rewrite (bind_ok _ _ _ _ _ (insert_fwd_run v b n p ys Sb ltac:(lia) ltac:(lia) ltac:(lia))).
    replace (D + p - D) with p by lia.
    eexists _, _. split; [reflexivity|].
    apply (insert_post b n p ys (InsertIl p ys) Sb Hab); try lia.
    - reflexivity.
    - intros fresh. reflexivity.
  Qed.

  Lemma resize_post b n c x fill o :
    st v b n -> all_bytes b = true -> is_byte x = true -> 0 <= c <= tmax T -> L + c <= cap ->
    new_size n o = c ->
    (forall j, 0 <= j < c - n -> zn (fill ++ zrepeat 0 (c - n)) j = x) ->
    (forall fresh, vec_step fresh (abs v b) o = (vec_resize (abs v b) c fill, None)) ->
    step_post v b o None
      (if c >? n then splice (set_size v b c) (D + n) (zrepeat x (c - n)) else set_size v b c).
  Proof.
    intros Sb Hab Hx Hc Hf Hn Hfill Hvec. pose proof (st_facts v _ _ Sb) as HS.
    pose proof (zlen_abs v b n Sb) as Hxl. pose proof (fun j => zn_abs v b n j Sb) as Hxz.
    set (xs := abs v b) in *.
    destruct (c >? n) eqn:E.
    - assert (Hyl : zlen (zrepeat x (c - n)) = c - n) by (apply zlen_zrepeat; lia).
      destruct (shape_set_write v b n c n (zrepeat x (c - n)) Sb Hc Hf ltac:(lia) ltac:(lia))
        as (Sb' & Hlen & Hz).
      apply (post_intro b n o None _ c (vec_resize xs c fill) Sb); try assumption.
      + unfold set_size. bytes_tac.
      + lia.
      + intros i Hi Ho. rewrite Hz by lia. pt; fin Hxz.
      + exists []. apply Hvec.
      + unfold vec_resize. rewrite Hxl. replace (c <=? n) with false by lia.
        assert (zlen (fill ++ zrepeat 0 (c - n)) >= c - n)
          by (rewrite zlen_app, zlen_zrepeat by lia; pose proof (zlen_nonneg fill); lia).
        vsimp. lia.
      + intros i Hi. unfold vec_resize. rewrite Hxl. replace (c <=? n) with false by lia.
        assert (zlen (fill ++ zrepeat 0 (c - n)) >= c - n)
          by (rewrite zlen_app, zlen_zrepeat by lia; pose proof (zlen_nonneg fill); lia).
        rewrite Hz by lia. rewrite Hyl.
        rewrite zn_app by lia. rewrite Hxl.
        destruct (i <? n) eqn:E2.
        * replace ((D + n <=? D + i) && (D + i <? D + n + (c - n))) with false by lia.
          rewrite Hxz by lia. reflexivity.
        * replace ((D + n <=? D + i) && (D + i <? D + n + (c - n))) with true by lia.
          rewrite zn_zrepeat_in by lia. rewrite zn_zfirstn by lia. symmetry. apply Hfill. lia.
    - destruct (shape_set_size v b n c Sb Hc Hf) as (Sb' & Hlen & Hz).
      apply (post_intro b n o None _ c (vec_resize xs c fill) Sb); try assumption.
      + unfold set_size. bytes_tac.
      + lia.
      + intros i Hi Ho. apply Hz; lia.
      + exists []. apply Hvec.
      + unfold vec_resize. rewrite Hxl. replace (c <=? n) with true by lia. vsimp. lia.
      + intros i Hi. unfold vec_resize. rewrite Hxl. replace (c <=? n) with true by lia.
        rewrite Hz by lia. pt; fin Hxz.
  Qed.

  Lemma step_resize b c :
    wf v b = true -> valid v (size_of v b) (Resize c) = true -> step_ok v b (Resize c).
  Proof.
    intros Hwf Hv. start Hwf Hv Sb Hab HS n xs Hxl Hxz.
    unfold step_ok, exec, exec_gen, void_.
    rewrite (bind_ok _ _ _ _ _ (resize_val_run v b n c 0 Sb ltac:(lia) ltac:(lia))).
    eexists _, _. split; [reflexivity|].
    apply (resize_post b n c 0 [] (Resize c) Sb Hab); try lia; try reflexivity.
    intros j Hj. cbn [app]. apply zn_zrepeat_in. lia.
  Qed.

  Lemma step_resize_v b c x :
    wf v b = true -> valid v (size_of v b) (ResizeV c x) = true -> step_ok v b (ResizeV c x).
  Proof.
    intros Hwf Hv. start Hwf Hv Sb Hab HS n xs Hxl Hxz.
    unfold step_ok, exec, exec_gen, void_.
    rewrite (bind_ok _ _ _ _ _ (resize_val_run v b n c x Sb ltac:(lia) ltac:(lia))).
    eexists _, _. split; [reflexivity|].
    apply (resize_post b n c x (zrepeat x c) (ResizeV c x) Sb Hab); try lia; try reflexivity.
    - unfold is_byte. lia.
    - intros j Hj. rewrite zn_app by lia. rewrite zlen_zrepeat by lia.
      replace (j <? c) with true by lia. apply zn_zrepeat_in. lia.
  Qed.

  Lemma step_resize_di b c :
    wf v b = true -> valid v (size_of v b) (ResizeDI c) = true -> step_ok v b (ResizeDI c).
  Proof.
    intros Hwf Hv. start Hwf Hv Sb Hab HS n xs Hxl Hxz.
    unfold step_ok, exec, exec_gen, void_.
    rewrite (bind_ok _ _ _ _ _ (resize_di_ok v b n c Sb ltac:(lia) ltac:(lia))).
    eexists _, _. split; [reflexivity|].
    destruct (shape_set_size v b n c Sb ltac:(lia) ltac:(lia)) as (Sb' & Hlen & Hz).
    set (fresh := slice b (D + n) (c - n)).
    apply (post_intro b n (ResizeDI c) None _ c (vec_resize xs c fresh) Sb); try assumption.
    - unfold set_size. bytes_tac.
    - reflexivity.
    - intros i Hi Ho. apply Hz; lia.
    - exists fresh. reflexivity.
    - unfold vec_resize. rewrite Hxl. destruct (c <=? n) eqn:E; [vsimp; lia|].
      assert (zlen fresh = c - n) by (apply zlen_slice; lia).
      assert (zlen (fresh ++ zrepeat 0 (c - n)) >= c - n)
        by (rewrite zlen_app, zlen_zrepeat by lia; lia).
      vsimp. lia.
    - intros i Hi. unfold vec_resize. rewrite Hxl. rewrite Hz by lia.
      destruct (c <=? n) eqn:E; [pt; fin Hxz|].
      assert (Hfl : zlen fresh = c - n) by (apply zlen_slice; lia).
      assert (zlen (fresh ++ zrepeat 0 (c - n)) >= c - n)
        by (rewrite zlen_app, zlen_zrepeat by lia; lia).
      rewrite zn_app by lia. rewrite Hxl. destruct (i <? n) eqn:E2; [fin Hxz|].
      rewrite zn_zfirstn by lia. rewrite zn_app by lia. rewrite Hfl.
      replace (i - n <? c - n) with true by lia.
      unfold fresh. rewrite zn_slice by lia. f_equal. lia.
  Qed.

  Lemma step_clear b :
    wf v b = true -> valid v (size_of v b) Clear = true -> step_ok v b Clear.
  Proof.
    intros Hwf Hv. start Hwf Hv Sb Hab HS n xs Hxl Hxz.
    pose proof (tmax_bound T ltac:(destruct Sb; assumption)) as HT.
    unfold step_ok, exec, exec_gen, void_.
    rewrite (bind_ok _ _ _ _ _ (resize_di_ok v b n 0 Sb ltac:(lia) ltac:(lia))).
    eexists _, _. split; [reflexivity|].
    destruct (shape_set_size v b n 0 Sb ltac:(lia) ltac:(lia)) as (Sb' & Hlen & Hz).
    apply (post_intro b n Clear None _ 0 [] Sb); try assumption.
    - unfold set_size. bytes_tac.
    - reflexivity.
    - intros i Hi Ho. apply Hz; lia.
    - exists []. reflexivity.
    - reflexivity.
    - intros i Hi. lia.
  Qed.

  Lemma set_write_post b n c ys o :
    st v b n -> all_bytes b = true -> all_bytes ys = true -> zlen ys = c -> c <= tmax T -> L + c <= cap ->
    new_size n o = c ->
    (forall fresh, vec_step fresh (abs v b) o = (ys, None)) ->
    step_post v b o None (splice (set_size v b c) (D + 0) ys).
  Proof.
    intros Sb Hab Hyb Hyl Hc Hf Hn Hvec. pose proof (st_facts v _ _ Sb) as HS.
    pose proof (zlen_nonneg ys) as Hy0.
    destruct (shape_set_write v b n c 0 ys Sb ltac:(lia) Hf ltac:(lia) ltac:(lia)) as (Sb' & Hlen & Hz).
    apply (post_intro b n o None _ c ys Sb); try assumption.
    - unfold set_size. bytes_tac.
    - lia.
    - intros i Hi Ho. rewrite Hz by lia. pt; fin Hz.
    - exists []. apply Hvec.
    - intros i Hi. rewrite Hz by lia. pt; fin Hz.
  Qed.

  Lemma write_set_post b n ys o :
    st v b n -> all_bytes b = true -> all_bytes ys = true -> zlen ys <= tmax T -> L + zlen ys <= cap ->
    new_size n o = zlen ys ->
    (forall fresh, vec_step fresh (abs v b) o = (ys, None)) ->
    step_post v b o None (set_size v (splice b D ys) (zlen ys)).
  Proof.
    intros Sb Hab Hyb Hc Hf Hn Hvec. pose proof (st_facts v _ _ Sb) as HS.
    pose proof (zlen_nonneg ys) as Hy0.
    destruct (shape_write_set v b n ys Sb Hc Hf) as (Sb' & Hlen & Hz).
    apply (post_intro b n o None _ (zlen ys) ys Sb); try assumption.
    - unfold set_size. bytes_tac.
    - lia.
    - intros i Hi Ho. rewrite Hz by lia. pt; fin Hz.
    - exists []. apply Hvec.
    - reflexivity.
    - intros i Hi. rewrite Hz by lia. pt; fin Hz.
  Qed.

  Lemma step_assign_n b c x :
    wf v b = true -> valid v (size_of v b) (AssignN c x) = true -> step_ok v b (AssignN c x).
  Proof.
    intros Hwf Hv. start Hwf Hv Sb Hab HS n xs Hxl Hxz.
    unfold step_ok, exec, exec_gen, void_.
    rewrite (bind_ok _ _ _ _ _ (assign_n_run v b n c x Sb ltac:(lia) ltac:(lia))).
    eexists _, _. split; [reflexivity|].
    apply (set_write_post b n c (zrepeat x c) (AssignN c x) Sb Hab); try lia; try reflexivity.
    - apply all_bytes_zrepeat. unfold is_byte. lia.
    - apply zlen_zrepeat. lia.
  Qed.

  Lemma step_assign_str b ys :
    wf v b = true -> valid v (size_of v b) (AssignStr ys) = true -> step_ok v b (AssignStr ys).
  Proof.
    intros Hwf Hv. start Hwf Hv Sb Hab HS n xs Hxl Hxz.
    unfold step_ok, exec, exec_gen, void_.
    rewrite (bind_ok _ _ _ _ _ (assign_string_run v b n ys Sb ltac:(lia) ltac:(lia))).
    eexists _, _. split; [reflexivity|].
    apply (set_write_post b n (zlen ys) ys (AssignStr ys) Sb Hab); try lia; try reflexivity.
  Qed.

  Lemma step_assign_it b ys :
    wf v b = true -> valid v (size_of v b) (AssignIt ys) = true -> step_ok v b (AssignIt ys).
  Proof.
    intros Hwf Hv. start Hwf Hv Sb Hab HS n xs Hxl Hxz.
    unfold step_ok, exec, exec_gen, void_.
    rewrite (bind_ok _ _ _ _ _ (assign_it_run v b n ys Sb ltac:(lia) ltac:(lia))).
    eexists _, _. split; [reflexivity|].
    apply (write_set_post b n ys (AssignIt ys) Sb Hab); try lia; try reflexivity.
  Qed.

  Lemma step_assign_range b ys :
    wf v b = true -> valid v (size_of v b) (AssignRange ys) = true -> step_ok v b (AssignRange ys).
  Proof.
    intros Hwf Hv. start Hwf Hv Sb Hab HS n xs Hxl Hxz.
    unfold step_ok, exec, exec_gen, void_.
    rewrite (bind_ok _ _ _ _ _ (assign_it_run v b n ys Sb ltac:(lia) ltac:(lia))).
    eexists _, _. split; [reflexivity|].
    apply (write_set_post b n ys (AssignRange ys) Sb Hab); try lia; try reflexivity.
  Qed.

  Lemma step_assign_il b ys :
    wf v b = true -> valid v (size_of v b) (AssignIl ys) = true -> step_ok v b (AssignIl ys).
  Proof.
    intros Hwf Hv. start Hwf Hv Sb Hab HS n xs Hxl Hxz.
    unfold step_ok, exec, exec_gen, void_.
    rewrite (bind_ok _ _ _ _ _ (assign_il_run v b n ys Sb ltac:(lia) ltac:(lia))).
    eexists _, _. split; [reflexivity|].
    apply (write_set_post b n ys (AssignIl ys) Sb Hab); try lia; try reflexivity.
  Qed.
End Steps.

(* ------------------------------------------------------------------ *)
(* insert through single-pass input iterators: one element at a time    *)
(* ------------------------------------------------------------------ *)
Lemma vec_insert_nil xs p : vec_insert xs p [] = xs.
Proof. unfold vec_insert, zfirstn, zskipn. cbn [app]. apply firstn_skipn. Qed.

Lemma vec_insert_cons xs p y r :
  0 <= p <= zlen xs -> vec_insert (vec_insert xs p [y]) (p + 1) r = vec_insert xs p (y :: r).
Proof.
  intros Hp. pose proof (zlen_nonneg r) as Hr.
  assert (Hl1 : zlen (vec_insert xs p [y]) = zlen xs + 1) by (unfold vec_insert; vsimp; lia).
  assert (Hz1 : forall i, 0 <= i < zlen xs + 1 ->
            zn (vec_insert xs p [y]) i = if i <? p then zn xs i else if i =? p then y else zn xs (i - 1)).
  { intros i Hi. unfold vec_insert. pt; fin Hl1. }
  set (xs1 := vec_insert xs p [y]) in *.
  apply list_ext.
  - unfold vec_insert. vsimp. rewrite zlen_cons. lia.
  - intros i Hi.
    change (vec_insert xs p (y :: r)) with (zfirstn p xs ++ y :: (r ++ zskipn p xs)).
    unfold vec_insert in Hi |- *.
    rewrite !zlen_app, zlen_zfirstn, zlen_zskipn in Hi by lia.
    repeat (vsimp; rewrite ?zn_cons by lia; brk1); vsimp; rewrite ?zn_cons by lia;
      rewrite ?Hz1 by lia; repeat brk1; fin Hl1.
Qed.

Lemma frame_trans v a b c m1 m2 m :
  frame v a b m1 -> frame v b c m2 -> m1 <= m -> m2 <= m -> frame v a c m.
Proof.
  intros [Hl1 H1] [Hl2 H2] Hm1 Hm2. split; [lia|].
  intros i Hi Ho. rewrite H2 by lia. apply H1; lia.
Qed.

Lemma frame_refl v a m : frame v a a m.
Proof. split; [reflexivity|]. intros. reflexivity. Qed.

Section StepsInp.
  Variable v : view.
  Local Notation T := (vT v).
  Local Notation L := (szof (vT v)).
  Local Notation cap := (vcap v).
  Local Notation D := (dstart v).

  Lemma insert_inp_loop_ok : forall ys b p,
    wf v b = true -> 0 <= p <= size_of v b -> all_bytes ys = true ->
    size_of v b + zlen ys <= tmax T - 1 -> L + (size_of v b + zlen ys) <= cap ->
    exists b', insert_inp_loop v (D + p) ys b = Ok (tt, b') /\ wf v b' = true /\
      size_of v b' = size_of v b + zlen ys /\
      abs v b' = vec_insert (abs v b) p ys /\
      frame v b b' (size_of v b + zlen ys).
  Proof.
    induction ys as [|y r IH]; intros b p Hwf Hp Hyb Hm Hf.
    - exists b. cbn [insert_inp_loop]. rewrite vec_insert_nil. change (zlen []) with 0.
      split; [reflexivity|]. split; [assumption|]. split; [lia|]. split; [reflexivity|]. apply frame_refl.
    - cbn [insert_inp_loop]. rewrite zlen_cons in Hm, Hf |- *. pose proof (zlen_nonneg r) as Hr0.
      cbn [all_bytes forallb] in Hyb. apply andb_true_iff in Hyb. destruct Hyb as [Hy Hrb].
      fold (all_bytes r) in Hrb.
      destruct (wf_st v b Hwf) as [Sb Hab]. set (n := size_of v b) in *.
      pose proof (st_facts v _ _ Sb) as HS.
      rewrite (bind_ok _ _ _ _ _ (insert1_run v b n p y Sb Hp ltac:(lia) ltac:(lia))).
      assert (Hpost : step_post v b (Insert1 p y) (Some p) (insert_buf v b n p [y])).
      { apply (insert_post v b n p [y] (Insert1 p y) Sb Hab); try (change (zlen [y]) with 1; lia).
        - cbn. rewrite Hy. reflexivity.
        - reflexivity.
        - intros fresh. reflexivity. }
      destruct Hpost as (Hwf1 & Hsz1 & [fresh Hvec1] & Hfr1).
      cbn [new_size vec_step] in Hsz1, Hvec1, Hfr1. fold n in Hsz1, Hfr1.
      set (b1 := insert_buf v b n p [y]) in *.
      destruct (IH b1 (p + 1) Hwf1 ltac:(lia) Hrb ltac:(lia) ltac:(lia)) as (b2 & Hrun & Hwf2 & Hsz2 & Habs2 & Hfr2).
      replace (D + p + 1) with (D + (p + 1)) by lia.
      exists b2. split; [exact Hrun|]. split; [exact Hwf2|]. split; [lia|]. split.
      + rewrite Habs2. injection Hvec1 as Hv1. rewrite <- Hv1.
        apply vec_insert_cons. rewrite (zlen_abs v b n Sb). lia.
      + apply (frame_trans v b b1 b2 _ _ _ Hfr1 Hfr2); lia.
  Qed.

  Lemma step_insert_inp b p ys :
    wf v b = true -> valid v (size_of v b) (InsertInp p ys) = true -> step_ok v b (InsertInp p ys).
  Proof.
    intros Hwf Hv. destruct (wf_st v b Hwf) as [Sb Hab]. set (n := size_of v b) in *.
    pose proof (st_facts v _ _ Sb) as HS. pose proof (zlen_nonneg ys) as Hy0.
    cbn [valid] in Hv. unfold fits, max_size in Hv.
    destruct (insert_inp_loop_ok ys b p Hwf ltac:(fold n; lia) ltac:(lia) ltac:(fold n; lia) ltac:(fold n; lia))
      as (b' & Hrun & Hwf' & Hsz' & Habs' & Hfr').
    assert (Hr : insert_inp v (D + p) ys b = Ok (D + p, b')).
    { unfold insert_inp.
      rewrite (bind_ok _ _ _ _ _ (sbepp_assert_ok v _ b (in_range_incl_ok v b n p Sb ltac:(lia)))).
      rewrite (bind_ok _ _ _ _ _ Hrun). reflexivity. }
    unfold step_ok, exec, exec_gen, iter_.
    rewrite (bind_ok _ _ _ _ _ Hr).
    replace (D + p - D) with p by lia.
    eexists _, _. split; [reflexivity|].
    unfold step_post. cbn [new_size vec_step]. fold n in Hsz', Hfr' |- *.
    split; [exact Hwf'|]. split; [exact Hsz'|]. split.
    - exists []. rewrite Habs'. reflexivity.
    - replace (Z.max n (n + zlen ys)) with (n + zlen ys) by lia. exact Hfr'.
  Qed.

  Theorem step_correct b o :
    wf v b = true -> valid v (size_of v b) o = true -> step_ok v b o.
  Proof.
    intros Hwf Hv. destruct o.
    - apply step_push_back; assumption.
    - apply step_pop_back; assumption.
    - apply step_erase1; assumption.
    - apply step_erase_range; assumption.
    - apply step_insert1; assumption.
    - apply step_insert_n; assumption.
    - apply step_insert_fwd; assumption.
    - apply step_insert_inp; assumption.
    - apply step_insert_il; assumption.
    - apply step_resize; assumption.
    - apply step_resize_v; assumption.
    - apply step_resize_di; assumption.
    - apply step_assign_n; assumption.
    - apply step_assign_it; assumption.
    - apply step_assign_il; assumption.
    - apply step_assign_str; assumption.
    - apply step_assign_range; assumption.
    - apply step_clear; assumption.
  Qed.
End StepsInp.

(* ------------------------------------------------------------------ *)
(* the statements used by Properties_C13.v                              *)
(* ------------------------------------------------------------------ *)
Lemma step_refines v b o :
  wf v b = true -> valid v (size_of v b) o = true ->
  exists r b' fresh, exec v o b = Ok (r, b') /\ wf v b' = true /\
    vec_step fresh (abs v b) o = (abs v b', r).
Proof.
  intros Hwf Hv. destruct (step_correct v b o Hwf Hv) as (r & b' & Hex & Hwf' & _ & [fresh Hvec] & _).
  exists r, b', fresh. auto.
Qed.

Lemma step_frame v b o r b' :
  wf v b = true -> valid v (size_of v b) o = true -> exec v o b = Ok (r, b') ->
  size_of v b' = new_size (size_of v b) o /\
  frame v b b' (Z.max (size_of v b) (new_size (size_of v b) o)).
Proof.
  intros Hwf Hv Hex. destruct (step_correct v b o Hwf Hv) as (r1 & b1 & Hex1 & _ & Hsz & _ & Hfr).
  rewrite Hex in Hex1. injection Hex1 as -> ->. auto.
Qed.

Lemma no_spurious_assert v b o :
  wf v b = true -> valid v (size_of v b) o = true ->
  exec v o b <> AssertFail /\ exec v o b <> Fault.
Proof.
  intros Hwf Hv. destruct (step_correct v b o Hwf Hv) as (r & b' & Hex & _).
  rewrite Hex. split; discriminate.
Qed.

Lemma zskipn_all xs : zskipn (zlen xs) xs = [].
Proof. unfold zskipn, zlen. rewrite Nat2Z.id. apply skipn_all. Qed.

Lemma erase_to_end_ok v b f :
  wf v b = true -> 0 <= f <= size_of v b ->
  exists b', exec v (EraseR f (size_of v b)) b = Ok (Some f, b') /\ wf v b' = true /\
    abs v b' = zfirstn f (abs v b) /\ size_of v b' = f.
Proof.
  intros Hwf Hf.
  assert (Hv : valid v (size_of v b) (EraseR f (size_of v b)) = true) by (cbn [valid]; lia).
  destruct (step_correct v b _ Hwf Hv) as (r & b' & Hex & Hwf' & Hsz & [fresh Hvec] & _).
  cbn [vec_step new_size] in Hvec, Hsz. injection Hvec as Habs Hr. subst r.
  exists b'. split; [exact Hex|]. split; [exact Hwf'|]. split; [|lia].
  rewrite <- Habs. destruct (wf_st v b Hwf) as [Sb _].
  rewrite <- (zlen_abs v b _ Sb). rewrite zskipn_all. apply app_nil_r.
Qed.

Lemma fresh_irrelevant f1 f2 xs o :
  (forall c, o = ResizeDI c -> c <= zlen xs) -> vec_step f1 xs o = vec_step f2 xs o.
Proof.
  intros H. destruct o; try reflexivity. cbn [vec_step]. unfold vec_resize.
  specialize (H count eq_refl). replace (count <=? zlen xs) with true by lia. reflexivity.
Qed.

Lemma seq_refines v : forall ops b,
  wf v b = true -> seq_valid v (size_of v b) ops = true ->
  exists rs b' oracle, exec_seq (exec v) ops b = Ok (rs, b') /\ wf v b' = true /\
    vec_run oracle (abs v b) ops = (abs v b', rs) /\
    frame v b b' (peak_size (size_of v b) ops).
Proof.
  induction ops as [|o r IH]; intros b Hwf Hv.
  - exists [], b, []. cbn. split; [reflexivity|]. split; [assumption|]. split; [reflexivity|].
    apply frame_refl.
  - cbn [seq_valid] in Hv. apply andb_true_iff in Hv. destruct Hv as [Hv1 Hv2].
    destruct (step_correct v b o Hwf Hv1) as (x & b1 & Hex & Hwf1 & Hsz1 & [fresh Hvec] & Hfr1).
    rewrite <- Hsz1 in Hv2.
    destruct (IH b1 Hwf1 Hv2) as (rs & b2 & oracle & Hex2 & Hwf2 & Hvec2 & Hfr2).
    exists (x :: rs), b2, (fresh :: oracle).
    split.
    { cbn [exec_seq]. rewrite (bind_ok _ _ _ _ _ Hex). rewrite (bind_ok _ _ _ _ _ Hex2). reflexivity. }
    split; [exact Hwf2|]. split.
    { cbn [vec_run hd tl]. rewrite Hvec, Hvec2. reflexivity. }
    cbn [peak_size]. rewrite <- Hsz1.
    apply (frame_trans v b b1 b2 _ _ _ Hfr1 Hfr2).
    + rewrite <- Hsz1.
      assert (size_of v b1 <= peak_size (size_of v b1) r) by (destruct r; cbn [peak_size]; lia).
      lia.
    + lia.
Qed.

(* ------------------------------------------------------------------ *)
(* non-vacuity and the behaviour of the unfixed code                    *)
(* ------------------------------------------------------------------ *)
Definition ex_view := mkView U16 true 2 8 true.
Definition ex_buf := [9; 9; 0; 3; 65; 66; 67; 1; 2; 3; 7; 7].

Example C13_step_refines_nonvacuous :
  wf ex_view ex_buf = true /\ valid ex_view (size_of ex_view ex_buf) (Insert1 1 70) = true /\
  exec ex_view (Insert1 1 70) ex_buf = Ok (Some 1, [9; 9; 0; 4; 65; 70; 66; 67; 2; 3; 7; 7]) /\
  vec_step [] (abs ex_view ex_buf) (Insert1 1 70) = ([65; 70; 66; 67], Some 1).
Proof. vm_compute. repeat split. Qed.

Example C13_step_frame_nonvacuous :
  wf ex_view ex_buf = true /\ valid ex_view (size_of ex_view ex_buf) (EraseR 1 3) = true /\
  exec ex_view (EraseR 1 3) ex_buf = Ok (Some 1, [9; 9; 0; 1; 65; 66; 67; 1; 2; 3; 7; 7]).
Proof. vm_compute. repeat split. Qed.

Example C13_no_spurious_assert_nonvacuous :
  wf ex_view ex_buf = true /\ valid ex_view (size_of ex_view ex_buf) (ResizeDI 5) = true /\
  wf (mkView U8 false 0 4 false) [3; 1; 2; 3] = true /\
  valid (mkView U8 false 0 4 false) 3 PopBack = true.
Proof. vm_compute. repeat split. Qed.

Example C13_erase_to_end_nonvacuous :
  wf ex_view ex_buf = true /\ 0 <= 1 <= size_of ex_view ex_buf.
Proof. vm_compute. repeat split; discriminate. Qed.

Definition ex_ops :=
  [PushBack 1; Insert1 0 2; EraseR 1 5; InsertInp 1 [8; 9]; ResizeDI 6; PopBack; Erase1 0;
   AssignStr [70; 71]; InsertN 2 2 5; Resize 1; AssignIl [1; 2; 3]; InsertFwd 3 [4]; Clear].

Example C13_sequence_refines_nonvacuous :
  wf ex_view ex_buf = true /\ seq_valid ex_view (size_of ex_view ex_buf) ex_ops = true /\
  peak_size (size_of ex_view ex_buf) ex_ops = 6 /\
  exists rs, exec_seq (exec ex_view) ex_ops ex_buf = Ok (rs, [9; 9; 0; 0; 1; 2; 3; 4; 1; 3; 7; 7]).
Proof. vm_compute. repeat split. eexists. reflexivity. Qed.

(* the unfixed assertion `first >= begin() && last < end()` rejects the
   vector-valid call erase(first, end()) *)
Example C13_legacy_erase_to_end_refuted :
  wf ex_view ex_buf = true /\ valid ex_view (size_of ex_view ex_buf) (EraseR 1 3) = true /\
  Legacy.exec ex_view (EraseR 1 3) ex_buf = AssertFail /\
  Legacy.exec ex_view (EraseR 3 3) ex_buf = AssertFail.
Proof. vm_compute. repeat split. Qed.
