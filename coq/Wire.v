(* Wire.v — the encoding specification with a background buffer: the image a
   conforming SBE encoder produces for a tree of values under the compiled
   schema, where every byte that belongs to no written member keeps the value
   it has in the background [bg].  Compositional: no offsets are threaded by
   hand, each sub-encoder consumes the background it covers.
   Definitions only (extracted). *)
From Coq Require Import ZArith List Bool.
From Sbepp Require Import CInt Bytes Msg.
Import ListNotations.
Local Open Scope Z_scope.

(* values to write: per non-constant field a list of (offset inside the field,
   bytes) pieces ([] = field not written, [(0, bytes)] = a scalar or a whole
   array, one piece per member for a composite written member by member), per
   group the list of entries, per <data> the payload *)
Inductive wlevel :=
| WLevel (fv : list (list (Z * list Z))) (wgs : wgroups) (wds : list (list Z))
with wgroups :=
| WGNil
| WGCons (es : wentries) (rest : wgroups)
with wentries :=
| WENil
| WECons (e : wlevel) (rest : wentries).

Fixpoint wecount (es : wentries) : Z :=
  match es with WENil => 0 | WECons _ r => 1 + wecount r end.

Definition take (n : Z) (l : list Z) := firstn (Z.to_nat n) l.
Definition drop (n : Z) (l : list Z) := skipn (Z.to_nat n) l.

Fixpoint put_pieces (base : Z) (ps : list (Z * list Z)) (block : list Z) : list Z :=
  match ps with
  | [] => block
  | (o, bs) :: r => put_pieces base r (splice block (base + o) bs)
  end.

Fixpoint put_fields (fs : list fld) (vals : list (list (Z * list Z))) (block : list Z) : list Z :=
  match fs, vals with
  | f :: fs', ps :: vs => put_fields fs' vs (put_pieces (f_off f) ps block)
  | _, _ => block
  end.

Fixpoint put_fills (be : bool) (fills : list (Z * ity * fillv)) (cbl n : Z) (hdr : list Z) : list Z :=
  match fills with
  | [] => hdr
  | (off, t, v) :: rest => put_fills be rest cbl n (put be hdr off t (fill_value cbl n v))
  end.

Fixpoint over_datas (be : bool) (ds : list ity) (wds : list (list Z)) (bg : list Z)
  : list Z * list Z :=
  match ds, wds with
  | t :: ds', p :: wds' =>
    let '(ri, bg') := over_datas be ds' wds' (drop (tbytes t + len p) bg) in
    (enc be (tw t) (len p) ++ p ++ ri, bg')
  | _, _ => ([], bg)
  end.

(* (image, remaining background) *)
Fixpoint over_level (be : bool) (l : level) (cbl : Z) (w : wlevel) (bg : list Z) {struct w}
  : list Z * list Z :=
  match w with
  | WLevel fv wgs wds =>
    let block := put_fields (level_fields l) fv (take cbl bg) in
    let '(gi, bg2) := over_groups be (level_groups l) wgs (drop cbl bg) in
    let '(di, bg3) := over_datas be (level_datas l) wds bg2 in
    (block ++ gi ++ di, bg3)
  end
with over_groups (be : bool) (gs : groups) (wgs : wgroups) (bg : list Z) {struct wgs}
  : list Z * list Z :=
  match wgs, gs with
  | WGCons es wrest, GCons d cbl l rest =>
    let dimb := put_fills be (d_fills d) cbl (wecount es) (take (d_size d) bg) in
    let '(ei, bg2) := over_entries be l cbl es (drop (d_size d) bg) in
    let '(ri, bg3) := over_groups be rest wrest bg2 in
    (dimb ++ ei ++ ri, bg3)
  | _, _ => ([], bg)
  end
with over_entries (be : bool) (l : level) (cbl : Z) (es : wentries) (bg : list Z) {struct es}
  : list Z * list Z :=
  match es with
  | WECons e r =>
    let '(i1, bg1) := over_level be l cbl e bg in
    let '(i2, bg2) := over_entries be l cbl r bg1 in
    (i1 ++ i2, bg2)
  | WENil => ([], bg)
  end.

(* the whole message: filled header, then the root level; result is the image
   followed by the untouched rest of the background *)
Definition over_message (be : bool) (m : message) (w : wlevel) (bg : list Z) : list Z :=
  let hdr := put_fills be (m_fills m) (m_cbl m) 0 (take (m_hdr_size m) bg) in
  let '(li, rest) := over_level be (m_level m) (m_cbl m) w (drop (m_hdr_size m) bg) in
  hdr ++ li ++ rest.

(* size of the image *)
Definition over_size (be : bool) (m : message) (w : wlevel) (bg : list Z) : Z :=
  let '(li, _) := over_level be (m_level m) (m_cbl m) w (drop (m_hdr_size m) bg) in
  m_hdr_size m + len li.
