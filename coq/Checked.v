(* Checked.v — model of sbepp::size_bytes_checked(view, n) (sbepp.hpp
   5578-5728): size_bytes_checked_visitor driven by the generated
   visit/visit_children chains, which evaluate the cursor accessor of a member
   BEFORE the visitor callback sees it.  Assertions are disabled (this is the
   function one calls on untrusted input), so the only thing between a read
   and the memory is the visitor's own validate_and_subtract bookkeeping.

   The buffer [b] handed to the model is exactly the n bytes the caller
   vouches for: a read outside it is the outcome [KOob] (the real code would
   touch memory at offset >= n).  Definitions only (extracted). *)
From Coq Require Import ZArith List Bool.
From Sbepp Require Import CInt Bytes Msg Layout Cursor.
Import ListNotations.
Local Open Scope Z_scope.

Record ck := { ck_rem : Z;        (* visitor.size: bytes not yet accounted for *)
               ck_c : Z;          (* cursor *)
               ck_steps : Z }.    (* callbacks executed: the work done *)

Inductive ckout :=
| KOk (s : ck)
| KInvalid (steps : Z)            (* valid = false *)
| KOob (kind : Z) (off : Z) (steps : Z)  (* a byte at offset [off] >= n was read; kind: 1 field value, 2 data length prefix, 3 dimension *)
| KFuel.                          (* model iteration bound exhausted (not a real outcome) *)

Definition tick (s : ck) : ck :=
  {| ck_rem := ck_rem s; ck_c := ck_c s; ck_steps := ck_steps s + 1 |}.

(* validate_and_subtract *)
Definition validate (s : ck) (n : Z) : ckout :=
  if ck_rem s <? n then KInvalid (ck_steps s)
  else KOk {| ck_rem := ck_rem s - n; ck_c := ck_c s; ck_steps := ck_steps s |}.

Definition set_c (s : ck) (c : Z) : ck :=
  {| ck_rem := ck_rem s; ck_c := c; ck_steps := ck_steps s |}.

(* a raw read of [w] bytes at [off] with assertions off *)
Definition touch (kind : Z) (b : list Z) (off w : Z) (s : ck) : option ckout :=
  if (0 <=? off) && (off + w <=? len b) then None
  else Some (KOob kind (Z.max off (len b)) (ck_steps s)).

(* fields: `v.on_field(this->f(c), tag)`; scalar accessors read the value,
   view accessors (arrays, composites) only compute an address *)
Fixpoint ck_fields (b : list Z) (v : lview) (fs : list cacc) (s : ck) : ckout :=
  match fs with
  | [] => KOk s
  | a :: r =>
    let addr := ck_c s + ca_rel a in
    match (if ca_view a then None else touch 1 b addr (ca_size a) s) with
    | Some bad => bad
    | None =>
      let c' := if ca_last a then block_end v else addr + ca_size a in
      ck_fields b v r (tick (set_c s c'))
    end
  end.

(* data: `v.on_data(this->d(c), tag)`: the cursor accessor reads the length
   prefix to advance; then on_data validates sizeof(length) + length *)
Fixpoint ck_datas (be : bool) (b : list Z) (v : lview) (ds : list ity) (first : bool)
  (s : ck) : ckout :=
  match ds with
  | [] => KOk s
  | t :: r =>
    let p := if first then block_end v else ck_c s in
    match touch 2 b p (tbytes t) s with
    | Some bad => bad
    | None =>
      let n := dec be (slice b p (tbytes t)) in
      (* dynamic_array_ref::size_bytes = sizeof(size_type) + size() in std::size_t *)
      let sz := (tbytes t + n) mod 2 ^ 64 in
      let s1 := tick (set_c s (p + sz)) in
      (* on_data validates the length prefix and the payload separately *)
      match validate s1 (tbytes t) with
      | KOk s1' =>
        match validate s1' n with
        | KOk s2 => ck_datas be b v r false s2
        | other => other
        end
      | other => other
      end
    end
  end.

Fixpoint ck_level (be : bool) (b : list Z) (fuel : nat) (l : level) (cl : clevel)
  (v : lview) (s : ck) {struct l} : ckout :=
  match l with
  | Level _ gs ds =>
    match ck_fields b v (clevel_fields cl) s with
    | KOk s1 =>
      match ck_groups be b fuel gs (clevel_groups cl) v true s1 with
      | KOk s2 => ck_datas be b v ds (groups_empty gs) s2
      | other => other
      end
    | other => other
    end
  end
with ck_groups (be : bool) (b : list Z) (fuel : nat) (gs : groups) (cgs : cgroups)
  (v : lview) (first : bool) (s : ck) {struct gs} : ckout :=
  match gs, cgs with
  | GNil, _ => KOk s
  | GCons d _ l rest, CGCons cl crest =>
    (* `this->g(c)`: the cursor moves to the group and past its dimension *)
    let p := if first then block_end v else ck_c s in
    let s0 := tick (set_c s (p + d_size d)) in
    (* on_group: validate the dimension, then read blockLength / numInGroup *)
    match validate s0 (d_size d) with
    | KOk s1 =>
      match touch 3 b (p + d_bl_off d) (tbytes (d_bl_t d)) s1,
            touch 3 b (p + d_n_off d) (tbytes (d_n_t d)) s1 with
      | Some bad, _ => bad
      | _, Some bad => bad
      | None, None =>
        let bl := dec be (slice b (p + d_bl_off d) (tbytes (d_bl_t d))) in
        let n := dec be (slice b (p + d_n_off d) (tbytes (d_n_t d))) in
        match
          (if is_flat l then
             (* validate_entries(..., is_flat = true): no iteration *)
             if negb (bl =? 0) && (ck_rem s1 / bl <? n) then KInvalid (ck_steps s1)
             else KOk {| ck_rem := ck_rem s1 - n * bl; ck_c := ck_c s1 + n * bl; ck_steps := ck_steps s1 |}
           else
          (fix loop (j : nat) (n : Z) (s : ck) {struct j} : ckout :=
             if n <=? 0 then KOk s else
             match j with
             | O => KFuel
             | S j' =>
               (* on_entry: validate blockLength, then the entry's children *)
               let c := ck_c s in
               let ev := {| lv_start := c; lv_level := c; lv_bl := bl; lv_end := len b |} in
               let s' := tick (if is_empty_level l cl then set_c s (c + bl) else s) in
               match validate s' bl with
               | KOk s2 =>
                 match ck_level be b fuel l cl ev s2 with
                 | KOk s3 => loop j' (n - 1) s3
                 | other => other
                 end
               | other => other
               end
             end) fuel n s1)
        with
        | KOk s2 => ck_groups be b fuel rest crest v false s2
        | other => other
        end
      end
    | other => other
    end
  | GCons _ _ _ _, CGNil => KOk s
  end.

Inductive ckres :=
| CkValid (size steps : Z)
| CkInvalid (steps : Z)
| CkOob (kind off steps : Z)
| CkFuel.

(* size_bytes_checked(message view at offset 0 of b, n = len b) *)
Definition size_bytes_checked (be : bool) (b : list Z) (fuel : nat) (m : message) (cl : clevel)
  : ckres :=
  let n := len b in
  if n <? m_hdr_size m then CkInvalid 0 else
  let s0 := {| ck_rem := n; ck_c := m_hdr_size m; ck_steps := 0 |} in
  match validate s0 (m_hdr_size m) with
  | KOk s1 =>
    let bl := dec be (slice b (m_bl_off m) (tbytes (m_bl_t m))) in
    match validate s1 bl with
    | KOk s2 =>
      let v := {| lv_start := 0; lv_level := m_hdr_size m; lv_bl := bl; lv_end := n |} in
      match ck_level be b fuel (m_level m) cl v s2 with
      | KOk s3 => CkValid (n - ck_rem s3) (ck_steps s3)
      | KInvalid st => CkInvalid st
      | KOob k off st => CkOob k off st
      | KFuel => CkFuel
      end
    | KInvalid st => CkInvalid st
    | KOob k off st => CkOob k off st
    | KFuel => CkFuel
    end
  | KInvalid st => CkInvalid st
  | KOob k off st => CkOob k off st
  | KFuel => CkFuel
  end.

(* ------------------------------------------------------------------ *)
(* the specification: the structure the n bytes describe fits in n bytes.
   A declarative walk with EXACT integer arithmetic (no C++ wrap-around): every
   header must lie inside the buffer, a flat group occupies
   dimension + numInGroup * blockLength bytes, nested entries are chained. *)
Fixpoint fit_datas (be : bool) (b : list Z) (ds : list ity) (pos : Z) : option Z :=
  match ds with
  | [] => Some pos
  | t :: ds' => obind (rd be b pos t) (fun n => fit_datas be b ds' (pos + tbytes t + n))
  end.

Fixpoint fit_level (be : bool) (b : list Z) (fuel : nat) (l : level) (pos bl : Z)
  {struct l} : option Z :=
  match l with
  | Level _ gs ds =>
    obind (fit_groups be b fuel gs (pos + bl)) (fun p => fit_datas be b ds p)
  end
with fit_groups (be : bool) (b : list Z) (fuel : nat) (gs : groups) (pos : Z)
  {struct gs} : option Z :=
  match gs with
  | GNil => Some pos
  | GCons d _ l rest =>
    if negb (in_buf b pos (d_size d)) then None else
    obind (rd be b (pos + d_bl_off d) (d_bl_t d)) (fun bl =>
    obind (rd be b (pos + d_n_off d) (d_n_t d)) (fun n =>
    obind
      (if is_flat l
       then (let e := pos + d_size d + n * bl in if e <=? len b then Some e else None)
       else (fix loop (k : nat) (n pos : Z) {struct k} : option Z :=
               if n <=? 0 then Some pos else
               if len b <? pos + bl then None else
               match k with
               | O => None
               | S k' => obind (fit_level be b fuel l pos bl) (fun p' => loop k' (n - 1) p')
               end) fuel n (pos + d_size d))
      (fun p => fit_groups be b fuel rest p)))
  end.

Definition described_fit (be : bool) (b : list Z) (m : message) : option Z :=
  if negb (in_buf b 0 (m_hdr_size m)) then None else
  obind (rd be b (m_bl_off m) (m_bl_t m)) (fun bl =>
  obind (fit_level be b (S (length b)) (m_level m) (m_hdr_size m) bl) (fun e =>
  if (m_hdr_size m + bl <=? len b) && (e <=? len b) then Some e else None)).
