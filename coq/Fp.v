(* Fp.v — IEEE-754 binary32/binary64 comparison on raw bit patterns.

   A floating-point value is its bit pattern, an integer in [0, 2^32) resp.
   [0, 2^64) (what std::memcpy of a float/double into an unsigned integer of the
   same size gives on the little-endian ABI of this sandbox).  Nothing here
   depends on an axiomatised real-number library: a pattern is decoded into
   sign / biased exponent e / mantissa m.  NaN (e = emax, m <> 0) is unordered
   with everything; otherwise two patterns compare like their signed keys,
   where the magnitude [fmag] is the pair (e, m) in lexicographic order, i.e.
   the integer e * 2^mbits + m (so +0 and -0 both have key 0 and the infinities
   are beyond every finite number).

   That this order is the order of the real numbers denoted is a theorem
   (OptionalProofs.fkey_order_is_real_order): [fscaled] is the exact value

       fscaled b  =  |value of b| * 2^(bias + mbits)           (an integer)

   which is  2*m                   for subnormals and zeros  (e = 0)
             (2^mbits + m) * 2^e   for normal numbers (1 <= e < emax)
   and, with the same formula, 2^mbits * 2^emax for the infinities, which is
   above every finite number ((2^(mbits+1) - 1) * 2^(emax-1) at most).
   Comparing keys built from [fmag] and from [fscaled] gives the same result
   for all patterns.  The model uses [fmag] because it is cheap to evaluate.

   Definitions only (extracted); facts are in OptionalProofs.v, the cross-check
   against Flocq's [Bcompare] is in FpFlocqCheck_C16.v. *)
From Coq Require Import ZArith Bool.
Local Open Scope Z_scope.

(* everything lives in one module so that the monolithic OCaml extraction keeps
   these names apart from those of other model files *)
Module IEEE.

Inductive fty := F32 | F64.

Definition ebits (f : fty) : Z := match f with F32 => 8 | F64 => 11 end.
Definition mbits (f : fty) : Z := match f with F32 => 23 | F64 => 52 end.
Definition fbits (f : fty) : Z := 1 + ebits f + mbits f.
Definition emax (f : fty) : Z := 2 ^ ebits f - 1.

Definition fvalid (f : fty) (b : Z) : bool := (0 <=? b) && (b <? 2 ^ fbits f).

Definition fsign (f : fty) (b : Z) : bool := Z.testbit b (fbits f - 1).
Definition fexp (f : fty) (b : Z) : Z := (b / 2 ^ mbits f) mod 2 ^ ebits f.
Definition fman (f : fty) (b : Z) : Z := b mod 2 ^ mbits f.

Definition is_nan (f : fty) (b : Z) : bool :=
  (fexp f b =? emax f) && negb (fman f b =? 0).

Definition fscaled (f : fty) (b : Z) : Z :=
  let e := fexp f b in
  let m := fman f b in
  if e =? 0 then 2 * m else (2 ^ mbits f + m) * 2 ^ e.

(* biased exponent and mantissa as one integer: e * 2^mbits + m *)
Definition fmag (f : fty) (b : Z) : Z := b mod 2 ^ (fbits f - 1).

Definition fkey (f : fty) (b : Z) : Z :=
  if fsign f b then - fmag f b else fmag f b.

(* the same key built from the exact scaled value (specification only) *)
Definition fkey_real (f : fty) (b : Z) : Z :=
  if fsign f b then - fscaled f b else fscaled f b.

Inductive fcmp := FLt | FEq | FGt | FUn.

Definition fcompare (f : fty) (a b : Z) : fcmp :=
  if is_nan f a || is_nan f b then FUn else
  match fkey f a ?= fkey f b with
  | Lt => FLt
  | Eq => FEq
  | Gt => FGt
  end.

(* unary minus flips the sign bit (also of NaN and of zero) *)
Definition fneg (f : fty) (b : Z) : Z := Z.lxor b (2 ^ (fbits f - 1)).

(* std::numeric_limits<T>::min() / max() / quiet_NaN() / infinity() /
   denorm_min() / lowest() *)
Definition fl_min (f : fty) : Z := 2 ^ mbits f.
Definition fl_max (f : fty) : Z := (emax f - 1) * 2 ^ mbits f + (2 ^ mbits f - 1).
Definition fl_qnan (f : fty) : Z := emax f * 2 ^ mbits f + 2 ^ (mbits f - 1).
Definition fl_inf (f : fty) : Z := emax f * 2 ^ mbits f.

End IEEE.
