(* Msg.v — message-level model.

   Table: what a generated message class *is* as far as the wire is concerned:
   header/dimension geometry, field offsets and sizes, the group tree, data
   length types.  [Wire]: the SBE image as a compositional encoder over value
   trees (the specification).  [Rt]: navigation as sbepp.hpp + the generated
   accessors do it: pointer arithmetic over header values read from the
   buffer (get_first_dynamic_field_view / get_dynamic_field_view, group
   size_bytes by arithmetic (flat) or by iteration (nested), entries at
   blockLength stride).

   Definitions only (extracted). *)
From Coq Require Import ZArith List Bool.
From Sbepp Require Import CInt Bytes.
Import ListNotations.
Local Open Scope Z_scope.

(* ------------------------------------------------------------------ *)
(* Table                                                               *)
(* ------------------------------------------------------------------ *)

(* a non-constant field: offset inside its block and encoded size *)
Record fld := { f_off : Z; f_size : Z }.

(* group dimension / message header geometry: total size, and offset + C++
   type of the members the runtime reads *)
(* what a header filler writes into a member: a schema constant, the compiled
   blockLength of the level, or the numInGroup argument *)
Inductive fillv := FConst (z : Z) | FBlockLength | FNumInGroup.

Record dim := { d_size : Z; d_bl_off : Z; d_bl_t : ity; d_n_off : Z; d_n_t : ity;
                d_fills : list (Z * ity * fillv) }.

Inductive level :=
| Level (fs : list fld) (gs : groups) (ds : list ity)   (* ds: length type of each <data> *)
with groups :=
| GNil
| GCons (d : dim) (cbl : Z) (l : level) (rest : groups). (* cbl: compiled blockLength *)

Record message := {
  m_hdr_size : Z; m_bl_off : Z; m_bl_t : ity;           (* header composite *)
  m_cbl : Z;                                            (* compiled blockLength *)
  m_fills : list (Z * ity * fillv);                     (* fill_message_header assignments *)
  m_level : level }.

Definition tbytes (t : ity) : Z := bits t / 8.
Definition tw (t : ity) : nat := Z.to_nat (tbytes t).

Definition level_fields (l : level) := match l with Level fs _ _ => fs end.
Definition level_groups (l : level) := match l with Level _ gs _ => gs end.
Definition level_datas (l : level) := match l with Level _ _ ds => ds end.

Definition groups_empty (gs : groups) : bool := match gs with GNil => true | _ => false end.
Definition datas_empty (ds : list ity) : bool := match ds with [] => true | _ => false end.

(* an entry (or message) is "flat" when it has no groups and no data; a group
   whose entries are flat derives from flat_group_base *)
Definition is_flat (l : level) : bool :=
  groups_empty (level_groups l) && datas_empty (level_datas l).

(* ------------------------------------------------------------------ *)
(* Wire: value trees and the encoder (specification)                   *)
(* ------------------------------------------------------------------ *)

Inductive vlevel :=
| VLevel (block : list Z) (vgs : vgroups) (vds : list (list Z))
with vgroups :=
| VGNil
| VGCons (dimbg : list Z) (es : ventries) (rest : vgroups)
with ventries :=
| VENil
| VECons (e : vlevel) (rest : ventries).

Fixpoint ecount (es : ventries) : Z :=
  match es with VENil => 0 | VECons _ r => 1 + ecount r end.

Definition vblock (v : vlevel) := match v with VLevel b _ _ => b end.

(* wire blockLength of a group = length of its entries' blocks; for an empty
   group any value may be on the wire: it is taken from the background *)
Definition first_block_len (es : ventries) (dflt : Z) : Z :=
  match es with VENil => dflt | VECons e _ => len (vblock e) end.

(* a header/dimension: background bytes with blockLength (and numInGroup) set *)
Definition put (be : bool) (bg : list Z) (off : Z) (t : ity) (v : Z) : list Z :=
  splice bg off (enc be (tw t) v).

Definition dim_bytes (be : bool) (d : dim) (bg : list Z) (bl n : Z) : list Z :=
  put be (put be bg (d_bl_off d) (d_bl_t d) bl) (d_n_off d) (d_n_t d) n.

Fixpoint enc_datas (be : bool) (ds : list ity) (vds : list (list Z)) : list Z :=
  match ds, vds with
  | t :: ds', p :: vds' => enc be (tw t) (len p) ++ p ++ enc_datas be ds' vds'
  | _, _ => []
  end.

Fixpoint enc_level (be : bool) (l : level) (v : vlevel) {struct v} : list Z :=
  match v with
  | VLevel block vgs vds =>
    block ++ enc_groups be (level_groups l) vgs ++ enc_datas be (level_datas l) vds
  end
with enc_groups (be : bool) (gs : groups) (vgs : vgroups) {struct vgs} : list Z :=
  match vgs, gs with
  | VGCons bg es vrest, GCons d cbl l rest =>
    let bl := first_block_len es (dec be (slice bg (d_bl_off d) (tbytes (d_bl_t d)))) in
    dim_bytes be d bg bl (ecount es) ++ enc_entries be l es ++ enc_groups be rest vrest
  | _, _ => []
  end
with enc_entries (be : bool) (l : level) (es : ventries) {struct es} : list Z :=
  match es with
  | VECons e r => enc_level be l e ++ enc_entries be l r
  | VENil => []
  end.

(* message image: header background with blockLength set, then the root level *)
Definition enc_message (be : bool) (m : message) (hdrbg : list Z) (v : vlevel) : list Z :=
  put be hdrbg (m_bl_off m) (m_bl_t m) (len (vblock v)) ++ enc_level be (m_level m) v.

(* ------------------------------------------------------------------ *)
(* Rt: navigation as the library does it                               *)
(* ------------------------------------------------------------------ *)

(* bounds-checked read of an unsigned header value; None = outside the buffer *)
Definition rd (be : bool) (b : list Z) (off : Z) (t : ity) : option Z :=
  if in_buf b off (tbytes t) then Some (dec be (slice b off (tbytes t))) else None.

Definition rd_bytes (b : list Z) (off n : Z) : option (list Z) :=
  if in_buf b off n then Some (slice b off n) else None.

Definition wr (b : list Z) (off : Z) (bs : list Z) : option (list Z) :=
  if in_buf b off (len bs) then Some (splice b off bs) else None.

(* sbepp.hpp flat_group_base::size_bytes:
     size_bytes(dimension) + size_t(numInGroup) * blockLength     (after the fix)
   Legacy multiplied in the promoted header types. *)
Definition flat_group_size (d : dim) (n bl : Z) : option Z :=
  obind (cmul SIZE_T (d_bl_t d) n bl) (fun p => cadd SIZE_T SIZE_T (d_size d) p).

(* size_bytes of a level without groups and data (generated
   `{hdr} + static_cast<std::size_t>(blockLength)`): header + wire blockLength
   in size_t *)
Definition flat_level_size (hdr bl : Z) : option Z := cadd SIZE_T SIZE_T hdr bl.

Module LegacyMsg.
  Definition flat_group_size (d : dim) (n bl : Z) : option Z :=
    obind (cmul (d_n_t d) (d_bl_t d) n bl) (fun p =>
    cadd SIZE_T (uac (d_n_t d) (d_bl_t d)) (d_size d) p).
  (* before 4be05dc: `{hdr} + blockLength`, an int literal plus the header's
     blockLength type: wraps at 2^32 for uint32 *)
  Definition flat_level_size (t : ity) (hdr bl : Z) : option Z := cadd I32 t hdr bl.
End LegacyMsg.

(* end position of <data> members laid out one after another from [pos] *)
Fixpoint datas_end (be : bool) (b : list Z) (ds : list ity) (pos : Z) : option Z :=
  match ds with
  | [] => Some pos
  | t :: ds' => obind (rd be b pos t) (fun n => datas_end be b ds' (pos + tbytes t + n))
  end.

(* [level_end l pos bl]: where a level ends whose block starts at [pos] and
   whose wire blockLength is [bl] (entry::size_bytes via last member, iterated
   by nested_group_base::size_bytes / forward_iterator::operator++).
   [fuel] bounds the number of entries walked in one nested group. *)
Fixpoint level_end (be : bool) (b : list Z) (fuel : nat) (l : level) (pos bl : Z)
  {struct l} : option Z :=
  match l with
  | Level _ gs ds =>
    obind (groups_end be b fuel gs (pos + bl)) (fun p => datas_end be b ds p)
  end
with groups_end (be : bool) (b : list Z) (fuel : nat) (gs : groups) (pos : Z)
  {struct gs} : option Z :=
  match gs with
  | GNil => Some pos
  | GCons d _ l rest =>
    obind (rd be b (pos + d_bl_off d) (d_bl_t d)) (fun bl =>
    obind (rd be b (pos + d_n_off d) (d_n_t d)) (fun n =>
    obind
      (if is_flat l
       then obind (flat_group_size d n bl) (fun s => Some (pos + s))
       else (fix loop (k : nat) (n pos : Z) {struct k} : option Z :=
               if n <=? 0 then Some pos else
               match k with
               | O => None
               | S k' => obind (level_end be b fuel l pos bl) (fun p' => loop k' (n - 1) p')
               end) fuel n (pos + d_size d))
      (fun p => groups_end be b fuel rest p)))
  end.

(* the same loop, exposed for entry addressing *)
Fixpoint entries_walk (be : bool) (b : list Z) (fuel : nat) (l : level) (bl : Z)
  (k : nat) (n pos : Z) {struct k} : option Z :=
  if n <=? 0 then Some pos else
  match k with
  | O => None
  | S k' => obind (level_end be b fuel l pos bl) (fun p' => entries_walk be b fuel l bl k' (n - 1) p')
  end.

(* a located group: position of its dimension, wire blockLength, numInGroup *)
Record gview := { gv_pos : Z; gv_bl : Z; gv_n : Z }.

Definition group_at (be : bool) (b : list Z) (d : dim) (pos : Z) : option gview :=
  obind (rd be b (pos + d_bl_off d) (d_bl_t d)) (fun bl =>
  obind (rd be b (pos + d_n_off d) (d_n_t d)) (fun n =>
  Some {| gv_pos := pos; gv_bl := bl; gv_n := n |})).

(* k-th group of a level: get_first_dynamic_field_view, then
   get_dynamic_field_view(prev) = prev address + size_bytes(prev) *)
Fixpoint nth_group_pos (be : bool) (b : list Z) (fuel : nat) (gs : groups) (k : nat)
  (pos : Z) : option (Z * dim * Z * level) :=
  match gs with
  | GNil => None
  | GCons d cbl l rest =>
    match k with
    | O => Some (pos, d, cbl, l)
    | S k' =>
      obind (groups_end be b fuel (GCons d cbl l GNil) pos) (fun p =>
      nth_group_pos be b fuel rest k' p)
    end
  end.

(* k-th data of a level: after the last group (or at block end), then chained *)
Fixpoint nth_data_pos (be : bool) (b : list Z) (ds : list ity) (k : nat) (pos : Z)
  : option (Z * ity) :=
  match ds with
  | [] => None
  | t :: ds' =>
    match k with
    | O => Some (pos, t)
    | S k' => obind (rd be b pos t) (fun n => nth_data_pos be b ds' k' (pos + tbytes t + n))
    end
  end.

(* address of entry [i] of a located group: flat groups by arithmetic
   (random_access_iterator), nested groups by walking i entries
   (forward_iterator) *)
Definition entry_pos (be : bool) (b : list Z) (fuel : nat) (d : dim) (l : level)
  (g : gview) (i : Z) : option Z :=
  if (i <? 0) || (gv_n g <=? i) then None else
  if is_flat l then Some (gv_pos g + d_size d + i * gv_bl g)
  else entries_walk be b fuel l (gv_bl g) fuel i (gv_pos g + d_size d).

(* size_bytes of a level view that starts [hdr] bytes before its block
   (hdr = header size for messages, 0 for entries) *)
Definition level_size_bytes (be : bool) (b : list Z) (fuel : nat) (l : level)
  (view hdr bl : Z) : option Z :=
  if is_flat l then flat_level_size hdr bl
  else obind (level_end be b fuel l (view + hdr) bl) (fun e => Some (e - view)).

(* ---- message-level entry points ---- *)
Definition msg_block_length (be : bool) (b : list Z) (m : message) (base : Z) : option Z :=
  rd be b (base + m_bl_off m) (m_bl_t m).

Definition default_fuel (b : list Z) : nat := S (length b).

Definition msg_size_bytes (be : bool) (b : list Z) (m : message) (base : Z) : option Z :=
  obind (msg_block_length be b m base) (fun bl =>
  level_size_bytes be b (default_fuel b) (m_level m) base (m_hdr_size m) bl).

(* paths: which member of which entry *)
Inductive step := SGroup (k : nat) (i : Z).    (* k-th group of the level, entry i *)

(* resolve a path of (group, entry) steps from a level whose block is at [pos]
   with wire block length [bl]; result: (block position, wire block length, level) *)
Fixpoint resolve (be : bool) (b : list Z) (fuel : nat) (path : list step)
  (l : level) (pos bl : Z) : option (Z * Z * level) :=
  match path with
  | [] => Some (pos, bl, l)
  | SGroup k i :: rest =>
    obind (nth_group_pos be b fuel (level_groups l) k (pos + bl)) (fun r =>
      let '(gpos, d, _, sub) := r in
      obind (group_at be b d gpos) (fun g =>
      obind (entry_pos be b fuel d sub g i) (fun epos =>
      resolve be b fuel rest sub epos (gv_bl g))))
  end.

Definition msg_resolve (be : bool) (b : list Z) (m : message) (base : Z) (path : list step)
  : option (Z * Z * level) :=
  obind (msg_block_length be b m base) (fun bl =>
  resolve be b (default_fuel b) path (m_level m) (base + m_hdr_size m) bl).

(* normal accessors of the level found at [path] *)
Definition get_field (be : bool) (b : list Z) (m : message) (base : Z) (path : list step)
  (k : nat) : option (list Z) :=
  obind (msg_resolve be b m base path) (fun r =>
    let '(pos, _, l) := r in
    match nth_error (level_fields l) k with
    | Some f => rd_bytes b (pos + f_off f) (f_size f)
    | None => None
    end).

Definition set_field (be : bool) (b : list Z) (m : message) (base : Z) (path : list step)
  (k : nat) (bs : list Z) : option (list Z) :=
  obind (msg_resolve be b m base path) (fun r =>
    let '(pos, _, l) := r in
    match nth_error (level_fields l) k with
    | Some f => if len bs =? f_size f then wr b (pos + f_off f) bs else None
    | None => None
    end).

Definition locate_group (be : bool) (b : list Z) (m : message) (base : Z) (path : list step)
  (k : nat) : option (gview * dim * Z * level) :=
  obind (msg_resolve be b m base path) (fun r =>
    let '(pos, bl, l) := r in
    obind (nth_group_pos be b (default_fuel b) (level_groups l) k (pos + bl)) (fun q =>
      let '(gpos, d, cbl, sub) := q in
      obind (group_at be b d gpos) (fun g => Some (g, d, cbl, sub)))).

Definition group_size_bytes (be : bool) (b : list Z) (m : message) (base : Z) (path : list step)
  (k : nat) : option Z :=
  obind (locate_group be b m base path k) (fun q =>
    let '(g, d, cbl, sub) := q in
    obind (groups_end be b (default_fuel b) (GCons d cbl sub GNil) (gv_pos g)) (fun e =>
    Some (e - gv_pos g))).

(* resize(count): only numInGroup is written *)
Definition group_resize (be : bool) (b : list Z) (m : message) (base : Z) (path : list step)
  (k : nat) (n : Z) : option (list Z) :=
  obind (locate_group be b m base path k) (fun q =>
    let '(g, d, _, _) := q in
    wr b (gv_pos g + d_n_off d) (enc be (tw (d_n_t d)) n)).

(* header fillers: the generated operator()(fill_*_header_tag) assigns the
   listed members one after another through the header composite's setters *)
Definition fill_value (cbl n : Z) (v : fillv) : Z :=
  match v with FConst z => z | FBlockLength => cbl | FNumInGroup => n end.

Fixpoint do_fills (be : bool) (b : list Z) (pos : Z) (fills : list (Z * ity * fillv))
  (cbl n : Z) : option (list Z) :=
  match fills with
  | [] => Some b
  | (off, t, v) :: rest =>
    obind (wr b (pos + off) (enc be (tw t) (fill_value cbl n v))) (fun b1 =>
    do_fills be b1 pos rest cbl n)
  end.

Definition msg_fill_header (be : bool) (b : list Z) (m : message) (base : Z) : option (list Z) :=
  do_fills be b base (m_fills m) (m_cbl m) 0.

Definition group_fill_header (be : bool) (b : list Z) (m : message) (base : Z) (path : list step)
  (k : nat) (n : Z) : option (list Z) :=
  obind (msg_resolve be b m base path) (fun r =>
    let '(pos, bl, l) := r in
    obind (nth_group_pos be b (default_fuel b) (level_groups l) k (pos + bl)) (fun q =>
      let '(gpos, d, cbl, _) := q in
      do_fills be b gpos (d_fills d) cbl n)).

Definition locate_data (be : bool) (b : list Z) (m : message) (base : Z) (path : list step)
  (k : nat) : option (Z * ity) :=
  obind (msg_resolve be b m base path) (fun r =>
    let '(pos, bl, l) := r in
    obind (groups_end be b (default_fuel b) (level_groups l) (pos + bl)) (fun p =>
    nth_data_pos be b (level_datas l) k p)).

Definition get_data (be : bool) (b : list Z) (m : message) (base : Z) (path : list step)
  (k : nat) : option (list Z) :=
  obind (locate_data be b m base path k) (fun q =>
    let '(pos, t) := q in
    obind (rd be b pos t) (fun n => rd_bytes b (pos + tbytes t) n)).

(* assign_range: length prefix then payload *)
Definition assign_data (be : bool) (b : list Z) (m : message) (base : Z) (path : list step)
  (k : nat) (payload : list Z) : option (list Z) :=
  obind (locate_data be b m base path k) (fun q =>
    let '(pos, t) := q in
    obind (wr b pos (enc be (tw t) (len payload))) (fun b1 =>
    wr b1 (pos + tbytes t) payload)).

(* size_bytes of the entry at [path] (non-empty path) or of the message *)
Definition entry_size_bytes (be : bool) (b : list Z) (m : message) (base : Z) (path : list step)
  : option Z :=
  obind (msg_resolve be b m base path) (fun r =>
    let '(pos, bl, l) := r in
    level_size_bytes be b (default_fuel b) l pos 0 bl).
