From Coq Require Import ZArith List Bool Lia.
From Sbepp Require Import Bytes.
Import ListNotations.
Local Open Scope Z_scope.
Ltac Zify.zify_post_hook ::= Z.div_mod_to_equations.

Lemma byte_ok_iff b : byte_ok b = true <-> 0 <= b < 256.
Proof. unfold byte_ok. rewrite andb_true_iff, Z.leb_le, Z.ltb_lt. tauto. Qed.

Lemma bytes_ok_Forall bs : bytes_ok bs = true <-> Forall (fun b => 0 <= b < 256) bs.
Proof.
  unfold bytes_ok. rewrite forallb_forall, Forall_forall.
  split; intros H x Hx; apply byte_ok_iff; auto.
Qed.

Lemma bytes_ok_app a b : bytes_ok (a ++ b) = bytes_ok a && bytes_ok b.
Proof. unfold bytes_ok. apply forallb_app. Qed.

Lemma bytes_ok_rev a : bytes_ok (rev a) = bytes_ok a.
Proof.
  induction a as [|x a IH]; [reflexivity|]. cbn [rev].
  rewrite bytes_ok_app, IH. cbn. rewrite andb_true_r. apply andb_comm.
Qed.

Lemma len_app a b : len (a ++ b) = len a + len b.
Proof. unfold len. rewrite app_length. lia. Qed.

Lemma len_nonneg a : 0 <= len a.
Proof. unfold len. lia. Qed.

Lemma length_enc_le w x : length (enc_le w x) = w.
Proof. revert x. induction w as [|w IH]; intros x; cbn; [reflexivity|]. now rewrite IH. Qed.

Lemma length_enc be w x : length (enc be w x) = w.
Proof. unfold enc. destruct be; rewrite ?rev_length; apply length_enc_le. Qed.

Lemma enc_le_ok w x : bytes_ok (enc_le w x) = true.
Proof.
  revert x. induction w as [|w IH]; intros x; cbn; [reflexivity|].
  unfold bytes_ok in *. rewrite IH, andb_true_r. apply byte_ok_iff. lia.
Qed.

Lemma enc_ok be w x : bytes_ok (enc be w x) = true.
Proof. unfold enc. destruct be; rewrite ?bytes_ok_rev; apply enc_le_ok. Qed.

Lemma dec_le_bound bs : bytes_ok bs = true -> 0 <= dec_le bs < 256 ^ Z.of_nat (length bs).
Proof.
  induction bs as [|b r IH]; intros H; cbn [dec_le length].
  - cbn. lia.
  - cbn in H. apply andb_true_iff in H. destruct H as [Hb Hr].
    apply byte_ok_iff in Hb. specialize (IH Hr).
    rewrite Nat2Z.inj_succ, Z.pow_succ_r by lia. lia.
Qed.

Theorem dec_le_enc_le w x : dec_le (enc_le w x) = x mod 256 ^ Z.of_nat w.
Proof.
  revert x. induction w as [|w IH]; intros x.
  - cbn. now rewrite Z.mod_1_r.
  - cbn [enc_le dec_le]. rewrite IH, Nat2Z.inj_succ, Z.pow_succ_r by lia.
    assert (0 < 256 ^ Z.of_nat w) by (apply Z.pow_pos_nonneg; lia).
    rewrite Z.rem_mul_r by lia. lia.
Qed.

Theorem enc_le_dec_le bs : bytes_ok bs = true -> enc_le (length bs) (dec_le bs) = bs.
Proof.
  induction bs as [|b r IH]; intros H; [reflexivity|].
  cbn in H. apply andb_true_iff in H. destruct H as [Hb Hr]. apply byte_ok_iff in Hb.
  cbn [length enc_le dec_le]. f_equal.
  - lia.
  - replace ((b + 256 * dec_le r) / 256) with (dec_le r) by lia. auto.
Qed.

(* round trips for both byte orders *)
Theorem dec_enc be w x : dec be (enc be w x) = x mod 256 ^ Z.of_nat w.
Proof. unfold dec, enc. destruct be; rewrite ?rev_involutive; apply dec_le_enc_le. Qed.

Theorem enc_dec be bs : bytes_ok bs = true -> enc be (length bs) (dec be bs) = bs.
Proof.
  intros H. unfold dec, enc. destruct be.
  - rewrite <- (rev_length bs), enc_le_dec_le by (now rewrite bytes_ok_rev).
    apply rev_involutive.
  - now apply enc_le_dec_le.
Qed.

Theorem enc_be_is_rev_le w x : enc true w x = rev (enc false w x).
Proof. reflexivity. Qed.

(* both C++ implementations compute the specification *)
Theorem get_primitive_bitcast_spec be bs : get_primitive_bitcast be bs = dec be bs.
Proof. unfold get_primitive_bitcast, dec. destruct be; reflexivity. Qed.

Theorem set_primitive_bitcast_spec be w x : set_primitive_bitcast be w x = enc be w x.
Proof. unfold set_primitive_bitcast, enc. destruct be; reflexivity. Qed.

Theorem get_primitive_memcpy_spec be bs : bytes_ok bs = true ->
  get_primitive_memcpy be bs = dec be bs.
Proof.
  intros H. unfold get_primitive_memcpy, dec, byteswap. destruct be; [|reflexivity].
  now rewrite enc_le_dec_le.
Qed.

Theorem set_primitive_memcpy_spec be w x : set_primitive_memcpy be w x = enc be w x.
Proof.
  unfold set_primitive_memcpy, enc, byteswap. destruct be; [|reflexivity].
  pose proof (enc_le_dec_le (rev (enc_le w x))) as H.
  rewrite rev_length, length_enc_le in H. apply H.
  rewrite bytes_ok_rev. apply enc_le_ok.
Qed.

(* typed values *)
Lemma interp_to_raw p raw :
  0 <= raw < 2 ^ (8 * Z.of_nat (prim_size p)) -> to_raw p (interp p raw) = raw.
Proof.
  intros H. unfold to_raw, interp.
  set (m := 2 ^ (8 * Z.of_nat (prim_size p))) in *.
  assert (0 < m) by (subst m; apply Z.pow_pos_nonneg; lia).
  destruct (prim_signed p); [|apply Z.mod_small; lia].
  destruct (Z.ltb_spec raw (m / 2)); [apply Z.mod_small; lia|].
  replace (raw - m) with (raw + (-1) * m) by lia. rewrite Z.mod_add by lia.
  apply Z.mod_small; lia.
Qed.

(* buffers *)
Lemma in_buf_iff b off n : in_buf b off n = true <-> 0 <= off /\ 0 <= n /\ off + n <= len b.
Proof. unfold in_buf. rewrite !andb_true_iff, !Z.leb_le. tauto. Qed.

Lemma length_slice b off n : in_buf b off n = true -> length (slice b off n) = Z.to_nat n.
Proof.
  intros H. apply in_buf_iff in H. unfold slice, len in *.
  rewrite firstn_length, skipn_length. lia.
Qed.

Lemma length_splice b off bs : in_buf b off (len bs) = true ->
  length (splice b off bs) = length b.
Proof.
  intros H. apply in_buf_iff in H. unfold splice, len in *.
  rewrite !app_length, firstn_length, skipn_length. lia.
Qed.

Lemma slice_app_mid pre mid post :
  slice (pre ++ mid ++ post) (len pre) (len mid) = mid.
Proof.
  unfold slice, len. rewrite !Nat2Z.id.
  rewrite skipn_app, skipn_all, Nat.sub_diag. cbn [skipn app].
  rewrite firstn_app, firstn_all, Nat.sub_diag. cbn. apply app_nil_r.
Qed.

Lemma splice_app_mid pre mid post bs : length bs = length mid ->
  splice (pre ++ mid ++ post) (len pre) bs = pre ++ bs ++ post.
Proof.
  intros Hl. unfold splice, len. rewrite !Nat2Z.id.
  rewrite firstn_app, firstn_all, Nat.sub_diag. cbn [firstn]. rewrite app_nil_r.
  f_equal. f_equal. rewrite Hl.
  rewrite skipn_app. rewrite skipn_all2 by lia.
  replace (length pre + length mid - length pre)%nat with (length mid) by lia.
  rewrite skipn_app, skipn_all, Nat.sub_diag. reflexivity.
Qed.

(* reading back what was written, and the frame *)
Lemma slice_splice_same b off bs : in_buf b off (len bs) = true ->
  slice (splice b off bs) off (len bs) = bs.
Proof.
  intros H. apply in_buf_iff in H. unfold slice, splice, len in *.
  rewrite Nat2Z.id.
  rewrite skipn_app. rewrite firstn_length.
  replace (Nat.min (Z.to_nat off) (length b)) with (Z.to_nat off) by lia.
  rewrite skipn_all2 by (rewrite firstn_length; lia).
  rewrite Nat.sub_diag. cbn [skipn app].
  rewrite firstn_app, firstn_all, Nat.sub_diag. cbn. apply app_nil_r.
Qed.

Lemma nth_skipn' {A} n (l : list A) i d : nth i (skipn n l) d = nth (n + i) l d.
Proof.
  revert l. induction n as [|n IH]; intros l; [reflexivity|].
  destruct l as [|x l]; cbn; [destruct i; reflexivity|apply IH].
Qed.

Lemma nth_splice_other b off bs i d : in_buf b off (len bs) = true ->
  (i < Z.to_nat off \/ Z.to_nat off + length bs <= i)%nat ->
  nth i (splice b off bs) d = nth i b d.
Proof.
  intros H Hi. apply in_buf_iff in H. unfold splice, len in *.
  destruct Hi as [Hi|Hi].
  - rewrite app_nth1 by (rewrite firstn_length; lia).
    rewrite <- (firstn_skipn (Z.to_nat off) b) at 2.
    rewrite app_nth1 by (rewrite firstn_length; lia). reflexivity.
  - rewrite app_nth2 by (rewrite firstn_length; lia).
    rewrite app_nth2 by (rewrite firstn_length; lia).
    rewrite firstn_length.
    replace (Nat.min (Z.to_nat off) (length b)) with (Z.to_nat off) by lia.
    rewrite nth_skipn'. f_equal. lia.
Qed.
