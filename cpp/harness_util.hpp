// harness_util.hpp — shared plumbing for the C++ correspondence harnesses.
#pragma once
#include <sys/time.h>
#include <cstdint>
#include <cstdio>
#include <cstdlib>
#include <cstring>
#include <csetjmp>
#include <csignal>
#include <iostream>
#include <sstream>
#include <string>
#include <vector>
#include <sys/mman.h>
#include <unistd.h>

namespace hu
{
inline std::vector<std::string> split(const std::string& line)
{
    std::vector<std::string> out;
    std::istringstream is(line);
    std::string t;
    while(is >> t)
        out.push_back(t);
    return out;
}

inline unsigned long long to_u64(const std::string& s)
{
    return std::strtoull(s.c_str(), nullptr, 10);
}

inline long long to_i64(const std::string& s)
{
    return std::strtoll(s.c_str(), nullptr, 10);
}

// --- assertion handler / fault capture ---------------------------------
struct trap_state
{
    sigjmp_buf jb;
    volatile sig_atomic_t armed = 0;
    volatile sig_atomic_t asserted = 0;
    volatile sig_atomic_t faulted = 0;
    const char* expr = nullptr;
};

inline trap_state& trap()
{
    static trap_state t;
    return t;
}

inline void on_signal(int)
{
    auto& t = trap();
    if(t.armed)
    {
        t.faulted = 1;
        siglongjmp(t.jb, 2);
    }
    _exit(99);
}

inline void on_alarm(int)
{
    auto& t = trap();
    if(t.armed)
    {
        t.faulted = 1;
        siglongjmp(t.jb, 3);
    }
    _exit(96);
}

inline void install_signal_handlers()
{
    {
        struct sigaction sa;
        std::memset(&sa, 0, sizeof(sa));
        sa.sa_handler = on_alarm;
        sa.sa_flags = SA_NODEFER;
        // the watchdog counts CPU time of this process (ITIMER_PROF), not wall time: a loaded machine
        // must not turn a short call into a "hang"
        sigaction(SIGPROF, &sa, nullptr);
    }
    struct sigaction sa;
    std::memset(&sa, 0, sizeof(sa));
    sa.sa_handler = on_signal;
    sa.sa_flags = SA_NODEFER;
    sigaction(SIGSEGV, &sa, nullptr);
    sigaction(SIGBUS, &sa, nullptr);
}

inline void set_watchdog(unsigned seconds)
{
    struct itimerval tv;
    std::memset(&tv, 0, sizeof(tv));
    tv.it_value.tv_sec = seconds;
    setitimer(ITIMER_PROF, &tv, nullptr);
}

// run f(); returns 0 = ok, 1 = assertion handler invoked, 2 = memory fault,
// 3 = watchdog (the call did not return within `seconds`)
template<typename F>
int guarded(F&& f, unsigned seconds = 0)
{
    auto& t = trap();
    t.asserted = 0;
    t.faulted = 0;
    t.armed = 1;
    int r = sigsetjmp(t.jb, 1);
    if(r == 0)
    {
        if(seconds)
            set_watchdog(seconds);
        f();
    }
    if(seconds)
        set_watchdog(0);
    t.armed = 0;
    return r;
}

// buffer whose end (and start) sit on PROT_NONE pages
struct guarded_buffer
{
    unsigned char* base = nullptr;
    std::size_t pages = 0;
    std::size_t page = 4096;
    unsigned char* begin = nullptr;
    std::size_t size = 0;

    explicit guarded_buffer(std::size_t n, bool readonly = false)
    {
        page = static_cast<std::size_t>(sysconf(_SC_PAGESIZE));
        pages = (n + page - 1) / page + 2;
        if(n == 0)
            pages = 3;
        base = static_cast<unsigned char*>(mmap(
            nullptr, pages * page, PROT_READ | PROT_WRITE,
            MAP_PRIVATE | MAP_ANONYMOUS, -1, 0));
        if(base == MAP_FAILED)
        {
            std::perror("mmap");
            std::exit(98);
        }
        mprotect(base, page, PROT_NONE);
        mprotect(base + (pages - 1) * page, page, PROT_NONE);
        begin = base + (pages - 1) * page - n;
        size = n;
        (void)readonly;
    }

    void make_readonly()
    {
        mprotect(base + page, (pages - 2) * page, PROT_READ);
    }

    ~guarded_buffer()
    {
        munmap(base, pages * page);
    }
    guarded_buffer(const guarded_buffer&) = delete;
    guarded_buffer& operator=(const guarded_buffer&) = delete;
};

inline std::string hex(const unsigned char* p, std::size_t n)
{
    static const char* d = "0123456789abcdef";
    std::string s;
    s.reserve(n * 2);
    for(std::size_t i = 0; i < n; i++)
    {
        s.push_back(d[p[i] >> 4]);
        s.push_back(d[p[i] & 15]);
    }
    return s;
}

inline std::vector<unsigned char> unhex(const std::string& s)
{
    std::vector<unsigned char> out;
    if(s == "-")
        return out;
    auto v = [](char c) -> int
    { return c <= '9' ? c - '0' : (c | 32) - 'a' + 10; };
    for(std::size_t i = 0; i + 1 < s.size(); i += 2)
        out.push_back(static_cast<unsigned char>(v(s[i]) * 16 + v(s[i + 1])));
    return out;
}
} // namespace hu

#ifdef SBEPP_ENABLE_ASSERTS_WITH_HANDLER
namespace sbepp
{
[[noreturn]] inline void assertion_failed(
    char const* expr, char const*, char const*, long)
{
    auto& t = hu::trap();
    t.asserted = 1;
    t.expr = expr;
    if(t.armed)
        siglongjmp(t.jb, 1);
    std::fprintf(stderr, "unguarded assertion: %s\n", expr);
    std::_Exit(97);
}
} // namespace sbepp
#endif
