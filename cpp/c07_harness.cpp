// c07_harness.cpp — C07: runs the real generator functions of /repo's sbeppc
// (utils::string_to_number / to_integer_literal / numeric_literal_to_value /
// make_string_constant / make_char_constant and names_generator::generate) on
// the same case lines as the extracted model (ocaml/drv_c07.ml).
// Built with g++ -std=c++17 -DFMT_HEADER_ONLY -I<repo>/sbeppc/src.
#include <sbepp/sbepp.hpp>
#include <sbepp/sbeppc/sbe.hpp>
#include <sbepp/sbeppc/sbe_error.hpp>
#include <sbepp/sbeppc/utils.hpp>
#include <sbepp/sbeppc/context_manager.hpp>
#include <sbepp/sbeppc/names_generator.hpp>
#include "harness_util.hpp"

#include <algorithm>
#include <map>
#include <memory>

namespace sbepp::sbeppc
{
std::string_view build_info::get_version()
{
    return "verif";
}
} // namespace sbepp::sbeppc

namespace sb = sbepp::sbeppc;
namespace sbe = sbepp::sbeppc::sbe;

static std::string unhex(const std::string& h)
{
    if(h == "-")
        return {};
    auto v = [](char c) { return (c <= '9') ? (c - '0') : ((c | 32) - 'a' + 10); };
    std::string out;
    for(std::size_t i = 0; i + 1 < h.size(); i += 2)
        out.push_back(static_cast<char>(v(h[i]) * 16 + v(h[i + 1])));
    return out;
}

static std::string hex(const std::string& s)
{
    if(s.empty())
        return "-";
    static const char* d = "0123456789abcdef";
    std::string out;
    for(unsigned char c : s)
    {
        out.push_back(d[c >> 4]);
        out.push_back(d[c & 15]);
    }
    return out;
}

template<typename T>
static std::string lit_case(const std::string& value, const std::string& type)
{
    const auto v = sb::utils::string_to_number<T>(value);
    std::ostringstream os;
    if(!v)
    {
        os << "accepted=0 value=- text=- etext=-";
        return os.str();
    }
    os << "accepted=1 value=";
    if(std::is_signed<T>::value)
        os << static_cast<long long>(*v);
    else
        os << static_cast<unsigned long long>(*v);
    // min/max/null/constants go through numeric_literal_to_value, enum values
    // through to_integer_literal directly
    os << " text=" << hex(sb::utils::numeric_literal_to_value(value, type));
    os << " etext=" << hex(sb::utils::to_integer_literal(value, type));
    return os.str();
}

static std::string cmd_lit(const std::vector<std::string>& a)
{
    const auto& t = a.at(1);
    const auto v = unhex(a.at(2));
    if(t == "char") return lit_case<char>(v, t);
    if(t == "int8") return lit_case<std::int8_t>(v, t);
    if(t == "uint8") return lit_case<std::uint8_t>(v, t);
    if(t == "int16") return lit_case<std::int16_t>(v, t);
    if(t == "uint16") return lit_case<std::uint16_t>(v, t);
    if(t == "int32") return lit_case<std::int32_t>(v, t);
    if(t == "uint32") return lit_case<std::uint32_t>(v, t);
    if(t == "int64") return lit_case<std::int64_t>(v, t);
    if(t == "uint64") return lit_case<std::uint64_t>(v, t);
    return "ERR type";
}

// c07fp <float|double> <hex> -> text=<hex>
static std::string cmd_fp(const std::vector<std::string>& a)
{
    return "text=" + hex(sb::utils::numeric_literal_to_value(unhex(a.at(2)), a.at(1)));
}

// the text between the quotes of `"....", N`
static std::string cmd_strc(const std::vector<std::string>& a)
{
    const auto v = unhex(a.at(1));
    const auto len = static_cast<sbepp::length_t>(hu::to_u64(a.at(2)));
    try
    {
        const auto s = sb::utils::make_string_constant(v, len, sb::source_location{});
        const auto last = s.rfind("\", ");
        if(s.empty() || (s[0] != '"') || (last == std::string::npos))
            return "const=ERRFORMAT";
        return "const=" + hex(s.substr(1, last - 1));
    }
    catch(const sb::sbe_error&)
    {
        return "const=REJECT";
    }
}

// c07chr <hex of one char> -> chr=<hex of the text between the single quotes>
static std::string cmd_chr(const std::vector<std::string>& a)
{
    const auto s = sb::utils::make_char_constant(unhex(a.at(1)), 1, sb::source_location{});
    if((s.size() < 2) || (s.front() != '\'') || (s.back() != '\''))
        return "chr=ERRFORMAT";
    return "chr=" + hex(s.substr(1, s.size() - 2));
}

// ---- naming -------------------------------------------------------------
struct parser
{
    const std::vector<std::string>& t;
    std::size_t i;
    const std::string& next()
    {
        return t.at(i++);
    }
    std::size_t count()
    {
        return static_cast<std::size_t>(hu::to_u64(next()));
    }
};

static sbe::encoding parse_enc(parser& p);

static sbe::composite_element parse_elem(parser& p)
{
    const auto k = p.next();
    if(k == "R")
    {
        sbe::ref r{};
        r.name = p.next();
        return r;
    }
    auto e = parse_enc(p);
    return std::visit([](auto& x) -> sbe::composite_element { return std::move(x); }, e);
}

static sbe::encoding parse_enc(parser& p)
{
    const auto k = p.next();
    if(k == "T")
    {
        sbe::type t{};
        t.name = p.next();
        const auto kind = p.next();
        t.length = 1;
        t.presence = sbepp::field_presence::required;
        if(kind == "c")
            t.presence = sbepp::field_presence::constant;
        else if(kind == "o")
            t.presence = sbepp::field_presence::optional;
        return t;
    }
    if(k == "E")
    {
        sbe::enumeration e{};
        e.name = p.next();
        for(auto n = p.count(); n; n--)
        {
            sbe::enum_valid_value v{};
            v.name = p.next();
            e.valid_values.push_back(v);
        }
        return e;
    }
    if(k == "S")
    {
        sbe::set s{};
        s.name = p.next();
        for(auto n = p.count(); n; n--)
        {
            sbe::set_choice c{};
            c.name = p.next();
            s.choices.push_back(c);
        }
        return s;
    }
    sbe::composite c{};
    c.name = p.next();
    for(auto n = p.count(); n; n--)
        c.elements.push_back(parse_elem(p));
    return c;
}

static sbe::group parse_group(parser& p);

static sbe::level_members parse_level(parser& p)
{
    sbe::level_members m;
    for(auto n = p.count(); n; n--)
    {
        sbe::field f{};
        f.name = p.next();
        m.fields.push_back(f);
    }
    for(auto n = p.count(); n; n--)
        m.groups.push_back(parse_group(p));
    for(auto n = p.count(); n; n--)
    {
        sbe::data d{};
        d.name = p.next();
        m.data.push_back(d);
    }
    return m;
}

static sbe::group parse_group(parser& p)
{
    p.next(); // "G"
    sbe::group g{};
    g.name = p.next();
    g.members = parse_level(p);
    return g;
}

template<typename T>
static void create_ctx(const T& enc, sb::context_manager& ctx)
{
    ctx.create(enc);
    if constexpr(std::is_same_v<T, sbe::composite>)
    {
        for(const auto& e : enc.elements)
            std::visit([&ctx](const auto& x) { create_ctx(x, ctx); }, e);
    }
}

static void create_group_ctx(const sbe::level_members& m, sb::context_manager& ctx)
{
    for(const auto& g : m.groups)
    {
        ctx.create(g);
        create_group_ctx(g.members, ctx);
    }
}

template<typename T>
static void dump_enc(
    const T& enc, const std::string& prefix, sb::context_manager& ctx, std::vector<std::string>& out)
{
    if constexpr(!std::is_same_v<T, sbe::ref>)
    {
        const auto me = prefix.empty() ? enc.name : (prefix + "/" + enc.name);
        const auto& mangled = ctx.get(enc).mangled_name;
        out.push_back(me + "=" + mangled.value_or(enc.name) + (mangled ? "*" : ""));
        if constexpr(std::is_same_v<T, sbe::composite>)
        {
            for(const auto& e : enc.elements)
                std::visit([&](const auto& x) { dump_enc(x, me, ctx, out); }, e);
        }
    }
}

static void dump_groups(
    const sbe::level_members& m, const std::string& prefix, sb::context_manager& ctx,
    std::vector<std::string>& out)
{
    for(const auto& g : m.groups)
    {
        const auto me = prefix + "/" + g.name;
        const auto& c = ctx.get(g);
        out.push_back(me + "=" + c.mangled_name.value_or(g.name) + ":" + c.entry_name + (c.mangled_name ? "*" : ""));
        dump_groups(g.members, me, ctx, out);
    }
}

static std::string join(std::vector<std::string> v)
{
    std::sort(v.begin(), v.end());
    std::string s;
    for(const auto& x : v)
    {
        if(!s.empty())
            s += " ";
        s += x;
    }
    return s;
}

static std::string cmd_names(const std::vector<std::string>& a)
{
    parser p{a, 1};
    auto schema = std::make_unique<sbe::message_schema>();
    for(auto n = p.count(); n; n--)
    {
        auto e = parse_enc(p);
        const auto name = std::string{sb::utils::get_encoding_name(e)};
        schema->types.emplace(sb::utils::to_lower(name), std::move(e));
    }
    for(auto n = p.count(); n; n--)
    {
        p.next(); // "M"
        sbe::message m{};
        m.name = p.next();
        m.members = parse_level(p);
        schema->messages.push_back(std::move(m));
    }

    sb::context_manager ctx;
    ctx.create(*schema);
    for(const auto& [name, enc] : schema->types)
        std::visit([&ctx](const auto& x) { create_ctx(x, ctx); }, enc);
    for(const auto& m : schema->messages)
    {
        ctx.create(m);
        create_group_ctx(m.members, ctx);
    }

    sb::names_generator::generate(*schema, ctx);

    std::string order;
    std::vector<std::string> types;
    for(const auto& [name, enc] : schema->types)
    {
        if(!order.empty())
            order += ",";
        order += std::string{sb::utils::get_encoding_name(enc)};
        std::visit([&](const auto& x) { dump_enc(x, "", ctx, types); }, enc);
    }
    std::vector<std::string> msgs;
    for(const auto& m : schema->messages)
    {
        const auto& c = ctx.get(m);
        msgs.push_back(m.name + "=" + c.mangled_name.value_or(m.name) + (c.mangled_name ? "*" : ""));
        dump_groups(m.members, m.name, ctx, msgs);
    }
    const auto& sc = ctx.get(*schema);
    return "order=" + (order.empty() ? std::string{"-"} : order) + " | types " + join(types) +
           " ; tagtypes=" + sc.mangled_tag_types_name.value_or("-") + " ; msgs " + join(msgs) +
           " ; tagmsgs=" + sc.mangled_tag_messages_name.value_or("-");
}

int main()
{
    std::string line;
    while(std::getline(std::cin, line))
    {
        const auto a = hu::split(line);
        std::string out;
        try
        {
            if(a.empty())
                out = "";
            else if(a[0] == "c07lit")
                out = cmd_lit(a);
            else if(a[0] == "c07fp")
                out = cmd_fp(a);
            else if(a[0] == "c07strc")
                out = cmd_strc(a);
            else if(a[0] == "c07chr")
                out = cmd_chr(a);
            else if(a[0] == "c07names")
                out = cmd_names(a);
            else
                out = "ERR unknown command";
        }
        catch(const std::exception& e)
        {
            out = std::string{"ERR "} + e.what();
        }
        std::cout << out << "\n";
    }
    return 0;
}
