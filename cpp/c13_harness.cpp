// c13_harness.cpp — runs sbepp::detail::dynamic_array_ref<char, ELEM, Length, E>
// on "c13 ..." case lines (see ocaml/drv_c13.ml for the protocol).  One
// executable per element type (-DC13_ELEM=...), 4 length types x 2 byte orders
// each.  A std::vector<ELEM> runs alongside for the calls flagged valid ('!').
//
//   c13 T be off cap chk bufhex op...
//   -> "wf=?" then per executed step  ok:<ret|->:<bufhex>:<vechex>:<vret|->
//      or assert / fault (the run stops there)
#include <sbepp/sbepp.hpp>
#include "harness_util.hpp"
#include <iterator>
#include <vector>

#ifndef C13_ELEM
#    define C13_ELEM char
#endif
using elem_t = C13_ELEM;

// single-pass input iterator over a byte array
struct input_it
{
    using iterator_category = std::input_iterator_tag;
    using value_type = elem_t;
    using difference_type = std::ptrdiff_t;
    using pointer = const elem_t*;
    using reference = elem_t;
    const elem_t* p;
    elem_t operator*() const
    {
        return *p;
    }
    input_it& operator++()
    {
        ++p;
        return *this;
    }
    input_it operator++(int)
    {
        auto t = *this;
        ++p;
        return t;
    }
    bool operator==(const input_it& o) const
    {
        return p == o.p;
    }
    bool operator!=(const input_it& o) const
    {
        return p != o.p;
    }
};

// a genuinely single-pass range (like a range over std::istream_iterator): all iterators share one read position, so
// a second traversal finds the range exhausted
struct sp_state
{
    const elem_t* p;
    const elem_t* e;
};
struct sp_it
{
    using iterator_category = std::input_iterator_tag;
    using iterator_concept = std::input_iterator_tag;
    using value_type = elem_t;
    using difference_type = std::ptrdiff_t;
    using pointer = const elem_t*;
    using reference = elem_t;
    struct proxy
    {
        elem_t v;
        elem_t operator*() const
        {
            return v;
        }
    };
    sp_state* st; // nullptr: the end sentinel
    sp_it() : st(nullptr) {}
    explicit sp_it(sp_state* s) : st(s) {}
    bool at_end() const
    {
        return !st || (st->p == st->e);
    }
    elem_t operator*() const
    {
        return *st->p;
    }
    sp_it& operator++()
    {
        ++st->p;
        return *this;
    }
    proxy operator++(int)
    {
        proxy r{*st->p};
        ++st->p;
        return r;
    }
    bool operator==(const sp_it& o) const
    {
        return at_end() == o.at_end();
    }
    bool operator!=(const sp_it& o) const
    {
        return !(*this == o);
    }
};
struct sp_range
{
    sp_state st;
    sp_it begin()
    {
        return sp_it(&st);
    }
    sp_it end()
    {
        return sp_it();
    }
};

static std::vector<elem_t> elems(const std::string& h)
{
    std::vector<elem_t> out;
    for(unsigned char c : hu::unhex(h))
        out.push_back(static_cast<elem_t>(c));
    return out;
}

static std::string vhex(const std::vector<elem_t>& v)
{
    if(v.empty())
        return "-";
    return hu::hex(reinterpret_cast<const unsigned char*>(v.data()), v.size());
}

static std::vector<std::string> split_commas(std::string s)
{
    std::vector<std::string> out;
    std::size_t p = 0;
    for(;;)
    {
        auto q = s.find(',', p);
        out.push_back(s.substr(p, q == std::string::npos ? q : q - p));
        if(q == std::string::npos)
            break;
        p = q + 1;
    }
    return out;
}

template<typename Ref>
static typename Ref::iterator
    insert_ilist(Ref r, typename Ref::iterator pos, const std::vector<elem_t>& y)
{
    switch(y.size())
    {
    case 0: return r.insert(pos, std::initializer_list<elem_t>{});
    case 1: return r.insert(pos, {y[0]});
    case 2: return r.insert(pos, {y[0], y[1]});
    case 3: return r.insert(pos, {y[0], y[1], y[2]});
    default: return r.insert(pos, {y[0], y[1], y[2], y[3]});
    }
}

template<typename Ref>
static void assign_ilist(Ref r, const std::vector<elem_t>& y)
{
    switch(y.size())
    {
    case 0: r.assign(std::initializer_list<elem_t>{}); break;
    case 1: r.assign({y[0]}); break;
    case 2: r.assign({y[0], y[1]}); break;
    case 3: r.assign({y[0], y[1], y[2]}); break;
    default: r.assign({y[0], y[1], y[2], y[3]}); break;
    }
}

static void vec_ilist_guard(const std::vector<elem_t>& y)
{
    if(y.size() > 4)
    {
        std::fprintf(stderr, "initializer_list cases are limited to 4 elements\n");
        std::exit(96);
    }
}

template<typename Length, sbepp::endian E>
static std::string run_case(const std::vector<std::string>& a)
{
    using ref_t = sbepp::detail::dynamic_array_ref<char, elem_t, Length, E>;
    using size_type = typename ref_t::size_type;
    constexpr std::size_t L = sizeof(size_type);
    const long long off = hu::to_i64(a[3]);
    const long long cap = hu::to_i64(a[4]);
    const auto init = hu::unhex(a[6]);
    // one arena for the whole run; the case buffer ends exactly at the
    // PROT_NONE page behind it
    static hu::guarded_buffer arena(1u << 17);
    if(init.size() > arena.size)
        return "ERR buffer too large";
    struct window
    {
        unsigned char* begin;
        std::size_t size;
    } gb{arena.begin + arena.size - init.size(), init.size()};
    std::memcpy(gb.begin, init.data(), init.size());
    char* const base = reinterpret_cast<char*>(gb.begin);
    const ref_t r{base + off, base + off + cap};
    elem_t* const d0 = reinterpret_cast<elem_t*>(base + off + L);

    std::string out;
    // initial well-formedness as seen through the real accessors
    {
        bool ok = false;
        const int g = hu::guarded([&] { ok = (r.begin() + r.size() == r.end()); });
        out += (g == 0 && ok) ? "wf=1" : "wf=0";
    }
    std::vector<elem_t> vec;
    bool vec_live = false;
    auto resync = [&]
    {
        vec_live = false;
        std::size_t n = 0;
        const int g = hu::guarded([&] { n = static_cast<std::size_t>(r.size()); (void)r.begin(); });
        if(g == 0)
        {
            vec.assign(d0, d0 + n);
            vec_live = true;
        }
    };
    resync();

    for(std::size_t k = 7; k < a.size(); k++)
    {
        std::string tok = a[k];
        bool flagged = false;
        if(!tok.empty() && tok.back() == '!')
        {
            flagged = true;
            tok.pop_back();
        }
        const auto f = split_commas(tok);
        const std::string& op = f[0];
        long long ret = 0;
        bool has_ret = false;
        long long vret = 0;
        bool has_vret = false;
        bool known = true;
        const bool dov = flagged && vec_live;
        bool di_grow = false;
        auto P = [&](std::size_t i) { return d0 + hu::to_i64(f[i]); };
        auto VP = [&](std::size_t i) { return vec.begin() + hu::to_i64(f[i]); };
        auto C = [&](std::size_t i) { return static_cast<size_type>(hu::to_u64(f[i])); };
        auto X = [&](std::size_t i)
        { return static_cast<elem_t>(static_cast<unsigned char>(hu::to_u64(f[i]))); };
        auto IT = [&](typename ref_t::iterator it)
        {
            ret = it - d0;
            has_ret = true;
        };
        auto VIT = [&](typename std::vector<elem_t>::iterator it)
        {
            vret = it - vec.begin();
            has_vret = true;
        };
        // inputs are materialised outside the guarded region (no destructors run
        // when the assertion handler jumps out)
        std::vector<elem_t> y;
        std::string str;
        if(op == "if" || op == "ii" || op == "il")
        {
            y = elems(f[2]);
        }
        else if(op == "ai" || op == "al" || op == "as" || op == "ar" || op == "ars")
        {
            y = elems(f[1]);
            str.assign(y.begin(), y.end());
        }
        if(op == "il" || op == "al")
            vec_ilist_guard(y);
        const int g = hu::guarded(
            [&]
            {
                if(op == "pb")
                {
                    r.push_back(X(1));
                }
                else if(op == "pop")
                {
                    r.pop_back();
                }
                else if(op == "e1")
                {
                    IT(r.erase(P(1)));
                }
                else if(op == "er")
                {
                    IT(r.erase(P(1), P(2)));
                }
                else if(op == "i1")
                {
                    IT(r.insert(P(1), X(2)));
                }
                // "...s": the value argument is an lvalue referring to an element of the view itself
                else if(op == "pbs")
                {
                    r.push_back(r[static_cast<size_type>(hu::to_u64(f[1]))]);
                }
                else if(op == "i1s")
                {
                    IT(r.insert(P(1), r[static_cast<size_type>(hu::to_u64(f[2]))]));
                }
                else if(op == "ins")
                {
                    IT(r.insert(P(1), C(2), r[static_cast<size_type>(hu::to_u64(f[3]))]));
                }
                else if(op == "ans")
                {
                    r.assign(C(1), r[static_cast<size_type>(hu::to_u64(f[2]))]);
                }
                else if(op == "rvs")
                {
                    r.resize(C(1), r[static_cast<size_type>(hu::to_u64(f[2]))]);
                }
                else if(op == "in")
                {
                    IT(r.insert(P(1), C(2), X(3)));
                }
                else if(op == "if")
                {
                    IT(r.insert(P(1), y.data(), y.data() + y.size()));
                }
                else if(op == "ii")
                {
                    // single-pass input iterators
                    sp_state st{y.data(), y.data() + y.size()};
                    IT(r.insert(P(1), sp_it(&st), sp_it()));
                }
                else if(op == "il")
                {
                    IT(insert_ilist(r, P(1), y));
                }
                else if(op == "rs")
                {
                    r.resize(C(1));
                }
                else if(op == "rv")
                {
                    r.resize(C(1), X(2));
                }
                else if(op == "rd")
                {
                    r.resize(C(1), sbepp::default_init);
                }
                else if(op == "an")
                {
                    r.assign(C(1), X(2));
                }
                else if(op == "ai")
                {
                    r.assign(y.data(), y.data() + y.size());
                }
                else if(op == "al")
                {
                    assign_ilist(r, y);
                }
                else if(op == "as")
                {
                    r.assign_string(str.c_str());
                }
                else if(op == "ar")
                {
                    r.assign_range(y);
                }
                else if(op == "ars")
                {
                    sp_range sr{{y.data(), y.data() + y.size()}};
                    r.assign_range(sr);
                }
                else if(op == "clr")
                {
                    r.clear();
                }
                else
                {
                    known = false;
                }
            });
        if(!known)
            return "ERR op " + op;
        if(g == 1)
        {
            out += " assert";
            break;
        }
        if(g == 2)
        {
            out += " fault";
            break;
        }
        // the same call on the std::vector
        if(dov)
        {
            if(op == "pb") vec.push_back(X(1));
            else if(op == "pop") vec.pop_back();
            else if(op == "e1") VIT(vec.erase(VP(1)));
            else if(op == "er") VIT(vec.erase(VP(1), VP(2)));
            else if(op == "i1") VIT(vec.insert(VP(1), X(2)));
            else if(op == "pbs") vec.push_back(vec[hu::to_u64(f[1])]);
            else if(op == "i1s") VIT(vec.insert(VP(1), vec[hu::to_u64(f[2])]));
            else if(op == "ins") VIT(vec.insert(VP(1), static_cast<std::size_t>(C(2)), vec[hu::to_u64(f[3])]));
            else if(op == "ans") vec.assign(static_cast<std::size_t>(C(1)), vec[hu::to_u64(f[2])]);
            else if(op == "rvs") vec.resize(static_cast<std::size_t>(C(1)), vec[hu::to_u64(f[2])]);
            else if(op == "in") VIT(vec.insert(VP(1), static_cast<std::size_t>(C(2)), X(3)));
            else if(op == "if" || op == "ii" || op == "il")
            {
                VIT(vec.insert(VP(1), y.begin(), y.end()));
            }
            else if(op == "rs") vec.resize(static_cast<std::size_t>(C(1)));
            else if(op == "rv") vec.resize(static_cast<std::size_t>(C(1)), X(2));
            else if(op == "rd")
            {
                const std::size_t old = vec.size();
                const std::size_t c = static_cast<std::size_t>(C(1));
                vec.resize(c);
                // default-initialised elements are unspecified: take what is there
                for(std::size_t i = old; i < c; i++)
                    vec[i] = d0[i];
                di_grow = c > old;
            }
            else if(op == "an") vec.assign(static_cast<std::size_t>(C(1)), X(2));
            else if(op == "ai" || op == "al" || op == "as" || op == "ar" || op == "ars")
            {
                vec.assign(y.begin(), y.end());
            }
            else if(op == "clr") vec.clear();
        }
        (void)di_grow;
        out += " ok:";
        out += has_ret ? std::to_string(ret) : std::string("-");
        out += ":";
        out += init.empty() ? std::string("-") : hu::hex(gb.begin, gb.size);
        if(dov)
        {
            out += ":" + vhex(vec) + ":" + (has_vret ? std::to_string(vret) : std::string("-"));
        }
        else
        {
            out += ":?:?";
            resync();
        }
    }
    return out;
}

template<typename Length>
static std::string run_be(const std::vector<std::string>& a)
{
    return a[2] == "1" ? run_case<Length, sbepp::endian::big>(a)
                       : run_case<Length, sbepp::endian::little>(a);
}

int main()
{
    hu::install_signal_handlers();
    std::string line;
    while(std::getline(std::cin, line))
    {
        const auto a = hu::split(line);
        if(a.size() < 7 || a[0] != "c13")
        {
            std::cout << "ERR\n";
            continue;
        }
        std::string res;
        if(a[1] == "u8") res = run_be<sbepp::uint8_t>(a);
        else if(a[1] == "u16") res = run_be<sbepp::uint16_t>(a);
        else if(a[1] == "u32") res = run_be<sbepp::uint32_t>(a);
        else if(a[1] == "u64") res = run_be<sbepp::uint64_t>(a);
        else res = "ERR type";
        std::cout << res << "\n";
    }
    return 0;
}
