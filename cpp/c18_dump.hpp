// c18_dump.hpp — helpers for the generated trait-dump translation units of
// C18 (harness/touchgen.py).  Every line is "<key> <trait> <value>"; strings
// are printed as hex so that any byte survives.  C++11.
#pragma once
#include <sbepp/sbepp.hpp>
#include <cstdio>
#include <cstdint>
#include <cstring>
#include <string>
#include <type_traits>

namespace c18
{
inline void hexs(const char* s)
{
    if(!*s)
    {
        std::printf("-");
        return;
    }
    for(; *s; s++)
        std::printf("%02x", static_cast<unsigned>(static_cast<unsigned char>(*s)));
}

inline void str(const char* key, const char* trait, const char* v)
{
    std::printf("%s %s s:", key, trait);
    hexs(v);
    std::printf("\n");
}

inline void flag(const char* key, const char* trait, bool ok)
{
    std::printf("%s %s %s\n", key, trait, ok ? "ok" : "BAD");
}

template<typename T>
typename std::enable_if<std::is_floating_point<T>::value>::type val(const char* key, const char* trait, T v)
{
    std::printf("%s %s f:%.17g\n", key, trait, static_cast<double>(v));
}

template<typename T>
typename std::enable_if<std::is_integral<T>::value && std::is_signed<T>::value>::type
    val(const char* key, const char* trait, T v)
{
    std::printf("%s %s i:%lld\n", key, trait, static_cast<long long>(v));
}

template<typename T>
typename std::enable_if<std::is_integral<T>::value && !std::is_signed<T>::value>::type
    val(const char* key, const char* trait, T v)
{
    std::printf("%s %s i:%llu\n", key, trait, static_cast<unsigned long long>(v));
}

template<typename T>
typename std::enable_if<std::is_enum<T>::value>::type val(const char* key, const char* trait, T v)
{
    val(key, trait, static_cast<typename std::underlying_type<T>::type>(v));
}

template<typename...>
struct voider
{
    using type = void;
};

// optional traits: offset(), deprecated(), null_value(), min_value()
#define C18_OPTIONAL(NAME)                                                                   \
    template<typename Tr, typename = void>                                                   \
    struct has_##NAME : std::false_type                                                      \
    {                                                                                        \
    };                                                                                       \
    template<typename Tr>                                                                    \
    struct has_##NAME<Tr, typename voider<decltype(Tr::NAME())>::type> : std::true_type      \
    {                                                                                        \
    };                                                                                       \
    template<typename Tr>                                                                    \
    typename std::enable_if<has_##NAME<Tr>::value>::type opt_##NAME(const char* key)         \
    {                                                                                        \
        val(key, #NAME, Tr::NAME());                                                         \
    }                                                                                        \
    template<typename Tr>                                                                    \
    typename std::enable_if<!has_##NAME<Tr>::value>::type opt_##NAME(const char* key)        \
    {                                                                                        \
        std::printf("%s %s -\n", key, #NAME);                                                \
    }

C18_OPTIONAL(offset)
C18_OPTIONAL(deprecated)
C18_OPTIONAL(min_value)
C18_OPTIONAL(max_value)
C18_OPTIONAL(null_value)

// name of the entity a tag stands for, whatever its kind
template<typename Tag, typename = void>
struct tag_name
{
    static const char* get()
    {
        return "?";
    }
};
#define C18_TAG_NAME(TRAITS, PRED)                                                           \
    template<typename Tag>                                                                   \
    struct tag_name<Tag, typename std::enable_if<sbepp::PRED<Tag>::value>::type>             \
    {                                                                                        \
        static const char* get()                                                             \
        {                                                                                    \
            return sbepp::TRAITS<Tag>::name();                                               \
        }                                                                                    \
    };
C18_TAG_NAME(type_traits, is_type_tag)
C18_TAG_NAME(enum_traits, is_enum_tag)
C18_TAG_NAME(enum_value_traits, is_enum_value_tag)
C18_TAG_NAME(set_traits, is_set_tag)
C18_TAG_NAME(set_choice_traits, is_set_choice_tag)
C18_TAG_NAME(composite_traits, is_composite_tag)
C18_TAG_NAME(field_traits, is_field_tag)
C18_TAG_NAME(group_traits, is_group_tag)
C18_TAG_NAME(data_traits, is_data_tag)
C18_TAG_NAME(message_traits, is_message_tag)

template<typename List>
struct list_names;

template<typename... Ts>
struct list_names<sbepp::type_list<Ts...>>
{
    static void print(const char* key, const char* trait)
    {
        std::printf("%s %s l:", key, trait);
        const char* names[] = {"", tag_name<Ts>::get()...};
        for(std::size_t i = 1; i < sizeof(names) / sizeof(names[0]); i++)
            std::printf("%s%s", (i > 1) ? "," : "", names[i]);
        std::printf("\n");
    }
};

template<typename List, std::size_t I>
struct list_at;
template<typename T, typename... Ts>
struct list_at<sbepp::type_list<T, Ts...>, 0>
{
    using type = T;
};
template<typename T, typename... Ts, std::size_t I>
struct list_at<sbepp::type_list<T, Ts...>, I>
{
    using type = typename list_at<sbepp::type_list<Ts...>, I - 1>::type;
};

// the eleven tag-kind predicates as a bit string, in the order
// type enum enum_value set set_choice composite field group data message schema
template<typename Tag>
void kinds(const char* key)
{
    std::printf(
        "%s kinds %d%d%d%d%d%d%d%d%d%d%d\n", key, int(sbepp::is_type_tag<Tag>::value),
        int(sbepp::is_enum_tag<Tag>::value), int(sbepp::is_enum_value_tag<Tag>::value),
        int(sbepp::is_set_tag<Tag>::value), int(sbepp::is_set_choice_tag<Tag>::value),
        int(sbepp::is_composite_tag<Tag>::value), int(sbepp::is_field_tag<Tag>::value),
        int(sbepp::is_group_tag<Tag>::value), int(sbepp::is_data_tag<Tag>::value),
        int(sbepp::is_message_tag<Tag>::value), int(sbepp::is_schema_tag<Tag>::value));
}

template<typename A, typename B>
void same(const char* key, const char* trait)
{
    flag(key, trait, std::is_same<A, B>::value);
}
} // namespace c18
