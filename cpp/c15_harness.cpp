// c15_harness.cpp — runs bitset_base<T> and the generated set classes of the
// harness schema on "c15 ..." case lines.
#include <sbepp/sbepp.hpp>
#include <hs_sets/hs_sets.hpp>
#include "harness_util.hpp"
// the documented setter signature is `Set& choice(bool)`: the call returns the very object it was made on, so that
// chained setters act on it
template<typename S, typename R>
static bool same_object(S& s, R&& r)
{
    return std::is_lvalue_reference<R>::value
           && (static_cast<const void*>(&r) == static_cast<const void*>(&s));
}
#include "c15_table.inc" // generated: named-accessor tables per set

template<typename T>
static std::string raw_case(unsigned long long bits, unsigned n, bool b)
{
    sbepp::detail::bitset_base<T> s{static_cast<T>(bits)};
    const bool g = s(sbepp::detail::get_bit_tag{}, static_cast<sbepp::choice_index_t>(n));
    s(sbepp::detail::set_bit_tag{}, static_cast<sbepp::choice_index_t>(n), b);
    std::ostringstream os;
    os << "get=" << (g ? 1 : 0) << " set=" << static_cast<unsigned long long>(*s);
    return os.str();
}

struct rec_visitor
{
    std::string out;
    template<typename Tag>
    void on_set_choice(bool v, Tag)
    {
        out.push_back(v ? '1' : '0');
        idx.push_back(sbepp::set_choice_traits<Tag>::index());
    }
    std::vector<unsigned> idx;
};

template<typename Set, typename Entry, std::size_t N>
static std::string gen_case(const Entry (&tab)[N], unsigned long long bits, unsigned n, bool b)
{
    using U = typename std::decay<decltype(*std::declval<Set>())>::type;
    Set s{static_cast<U>(bits)};
    std::ostringstream os;
    const auto& e = tab[n];
    os << "get=" << e.get(s) << " bytag=" << e.get_tag(s);
    Set s1 = s;
    e.set(s1, b);
    Set s2 = s;
    e.set_tag(s2, b);
    os << " set=" << static_cast<unsigned long long>(*s1)
       << " setbytag=" << static_cast<unsigned long long>(*s2);
    Set s3 = s;
    os << " chain=" << (e.chain(s3, b) && (s3 == s1));
    rec_visitor v;
    sbepp::visit(s, v);
    os << " visit=" << v.out;
    // every declared choice once, in declaration order, under its own tag
    bool order_ok = (v.idx.size() == N);
    for(std::size_t i = 0; order_ok && (i < v.idx.size()); i++)
        order_ok = (v.idx[i] == tab[i].idx);
    os << " order=" << order_ok;
    // name-based visit
    os << " vs=";
    bool first = true;
    sbepp::visit_set(
        s,
        [&](bool value, const char* name)
        {
            os << (first ? "" : ",") << name << ":" << (value ? 1 : 0);
            first = false;
        });
    os << " eq=" << (s1 == s2) << (s == s1) << " ne=" << (s != s1);
    return os.str();
}

int main()
{
    std::string line;
    while(std::getline(std::cin, line))
    {
        auto a = hu::split(line);
        if(a.empty())
        {
            std::cout << "\n";
            continue;
        }
        const std::string& cmd = a[0];
        if(cmd == "c15" && a.size() == 6)
        {
            const auto bits = hu::to_u64(a[3]);
            const unsigned n = static_cast<unsigned>(hu::to_u64(a[4]));
            const bool b = a[5] == "1";
            if(a[2] == "u8") std::cout << raw_case<std::uint8_t>(bits, n, b) << "\n";
            else if(a[2] == "u16") std::cout << raw_case<std::uint16_t>(bits, n, b) << "\n";
            else if(a[2] == "u32") std::cout << raw_case<std::uint32_t>(bits, n, b) << "\n";
            else std::cout << raw_case<std::uint64_t>(bits, n, b) << "\n";
        }
        else if(cmd == "c15g" && a.size() == 5)
        {
            const auto bits = hu::to_u64(a[2]);
            const unsigned n = static_cast<unsigned>(hu::to_u64(a[3]));
            const bool b = a[4] == "1";
            if(a[1] == "pu8") std::cout << gen_case<hs_sets::types::pset8>(tab_pset8, bits, n, b) << "\n";
            else if(a[1] == "pu16") std::cout << gen_case<hs_sets::types::pset16>(tab_pset16, bits, n, b) << "\n";
            else if(a[1] == "pu32") std::cout << gen_case<hs_sets::types::pset32>(tab_pset32, bits, n, b) << "\n";
            else if(a[1] == "pu64") std::cout << gen_case<hs_sets::types::pset64>(tab_pset64, bits, n, b) << "\n";
            else if(a[1] == "u8") std::cout << gen_case<hs_sets::types::set8>(tab_set8, bits, n, b) << "\n";
            else if(a[1] == "u16") std::cout << gen_case<hs_sets::types::set16>(tab_set16, bits, n, b) << "\n";
            else if(a[1] == "u32") std::cout << gen_case<hs_sets::types::set32>(tab_set32, bits, n, b) << "\n";
            else std::cout << gen_case<hs_sets::types::set64>(tab_set64, bits, n, b) << "\n";
        }
        else
            std::cout << "ERR\n";
    }
    return 0;
}
