// c14_harness.cpp — runs sbepp::detail::static_array_ref<Byte, Value, N, tag>
// on "c14 ..." case lines (same protocol as ocaml/drv_c14.ml).
//
//   c14 <impl> <op>.<variant> <checks> <mem hex> <off> <vend> <N> <args...>
//
// <impl> and <checks> are ignored here (the binary is built either with
// SBEPP_ENABLE_ASSERTS_WITH_HANDLER or with SBEPP_DISABLE_ASSERTS; the python
// side sends only lines that match the build).  The memory image is copied to
// the end of a mapping that is followed by a PROT_NONE page, so a store or
// load past it is reported as res=fault.
#include <sbepp/sbepp.hpp>
#include "harness_util.hpp"
#include <list>
#include <string>
#include <vector>
#if __cplusplus >= 201703L
#    include <string_view>
#endif

#ifndef C14_BYTE
#    define C14_BYTE char
#endif
#ifndef C14_VALUE
#    define C14_VALUE char
#endif

struct tag
{
};
using B = C14_BYTE;
using V = C14_VALUE;
template<std::size_t N>
using arr_t = sbepp::detail::static_array_ref<B, V, N, tag>;

static sbepp::eos_null mode_of(const std::string& s)
{
    return s == "n" ? sbepp::eos_null::none
                    : (s == "s" ? sbepp::eos_null::single : sbepp::eos_null::all);
}

template<typename T>
static std::vector<T> as_vec(const std::vector<unsigned char>& v)
{
    std::vector<T> r;
    for(auto c : v)
        r.push_back(static_cast<T>(c));
    return r;
}

#define VC(x) static_cast<V>(x)

template<std::size_t N>
static std::string run_case(const std::vector<std::string>& a)
{
    const std::string& opv = a[2];
    const auto dot = opv.find('.');
    const std::string op = opv.substr(0, dot);
    const std::string var = dot == std::string::npos ? "" : opv.substr(dot + 1);
    const auto mem = hu::unhex(a[4]);
    const long long off = hu::to_i64(a[5]);
    const long long vend = hu::to_i64(a[6]);

    hu::guarded_buffer gb(mem.size());
    if(!mem.empty())
        std::memcpy(gb.begin, mem.data(), mem.size());
    B* const base = reinterpret_cast<B*>(gb.begin);
    const arr_t<N> arr{base + off, base + vend};

    // everything with a destructor lives outside the guarded region
    std::vector<unsigned char> in;
    std::vector<char> cvec;
    std::string str;
    std::list<char> lst;
    sbepp::eos_null mode = sbepp::eos_null::all;
    const char* cstr = nullptr;
    std::size_t count = 0;
    V value{};
    int lit = -1;

    if(op == "asp" || op == "asr")
    {
        mode = mode_of(a[8]);
        if(a[9] != "null")
            in = hu::unhex(a[9]);
    }
    else if(op == "ar" || op == "ai" || op == "il")
    {
        in = hu::unhex(a[8]);
    }
    else if(op == "ac")
    {
        count = static_cast<std::size_t>(hu::to_u64(a[8]));
        value = static_cast<V>(hu::to_i64(a[9]));
    }
    else if(op == "fill")
    {
        value = static_cast<V>(hu::to_i64(a[8]));
    }
    cvec = as_vec<char>(in);
    str.assign(cvec.begin(), cvec.end());
    lst.assign(cvec.begin(), cvec.end());
    if(op == "asp" && a[9] != "null")
        cstr = cvec.data(); // the python side always terminates the object
    if(var.compare(0, 3, "lit") == 0 || op == "il")
        lit = std::atoi(var.c_str() + (op == "il" ? 0 : 3));

    bool has_ret = true;
    bool is_len = false;
    typename arr_t<N>::iterator it{};
    std::size_t len = 0, len_r = 0;

    const int r = hu::guarded(
        [&]
        {
            if(op == "asp")
            {
                if(var == "p")
                    it = arr.assign_string(cstr, mode);
                // string literals: overload resolution must pick const char*
                else if(lit == 0)
                    it = arr.assign_string("", mode);
                else if(lit == 1)
                    it = arr.assign_string("a", mode);
                else if(lit == 2)
                    it = arr.assign_string("ab", mode);
                else if(lit == 3)
                    it = arr.assign_string("bab", mode);
                else if(lit == 4)
                    it = arr.assign_string("abab", mode);
                else if(lit == 5)
                    it = arr.assign_string("ab\0ba", mode);
                else if(lit == 6)
                    it = arr.assign_string("ababa", mode);
                else if(var == "pd") // default eos mode
                    it = arr.assign_string(cstr);
            }
            else if(op == "asr")
            {
                if(var == "s")
                    it = arr.assign_string(str, mode);
                else if(var == "v")
                    it = arr.assign_string(cvec, mode);
                else if(var == "l")
                    it = arr.assign_string(lst, mode);
                else if(var == "sd") // default eos mode
                    it = arr.assign_string(str);
#if __cplusplus >= 201703L
                else if(var == "sv")
                    it = arr.assign_string(std::string_view{str}, mode);
#endif
            }
            else if(op == "ar")
            {
                if(var == "s")
                    it = arr.assign_range(str);
                else if(var == "v")
                    it = arr.assign_range(cvec);
                else if(var == "l")
                    it = arr.assign_range(lst);
#if __cplusplus >= 201703L
                else if(var == "sv")
                    it = arr.assign_range(std::string_view{str});
#endif
            }
            else if(op == "ai")
            {
                if(var == "p")
                    it = arr.assign(
                        static_cast<const char*>(cvec.data()),
                        static_cast<const char*>(cvec.data()) + cvec.size());
                else if(var == "v")
                    it = arr.assign(cvec.cbegin(), cvec.cend());
                else if(var == "l")
                    it = arr.assign(lst.cbegin(), lst.cend());
            }
            else if(op == "il")
            {
                if(lit == 0)
                    it = arr.assign(std::initializer_list<V>{});
                else if(lit == 1)
                    it = arr.assign({VC('a')});
                else if(lit == 2)
                    it = arr.assign({VC('a'), VC('b')});
                else if(lit == 3)
                    it = arr.assign({VC('a'), VC('\0'), VC('b')});
                else if(lit == 4)
                    it = arr.assign({VC('b'), VC('b'), VC('b'), VC('b')});
                else if(lit == 5)
                    it = arr.assign({VC('a'), VC('b'), VC('a'), VC('b'), VC('a')});
            }
            else if(op == "ac")
            {
                it = arr.assign(count, value);
            }
            else if(op == "fill")
            {
                arr.fill(value);
                has_ret = false;
            }
            else if(op == "len")
            {
                len = arr.strlen();
                len_r = arr.strlen_r();
                is_len = true;
            }
        });

    std::ostringstream os;
    if(r == 2)
        return "res=fault";
    if(r == 1)
    {
        if(op == "len")
            return "res=assert";
        os << "res=assert mem="
           << (mem.empty() ? std::string("-") : hu::hex(gb.begin, mem.size()));
        return os.str();
    }
    if(is_len)
    {
        os << "res=ok strlen=" << len << " strlen_r=" << len_r;
        return os.str();
    }
    os << "res=ok mem="
       << (mem.empty() ? std::string("-") : hu::hex(gb.begin, mem.size()))
       << " ret=";
    if(has_ret)
        os << (reinterpret_cast<const unsigned char*>(it) - gb.begin);
    else
        os << "-";
    return os.str();
}

int main()
{
    hu::install_signal_handlers();
    std::string line;
    while(std::getline(std::cin, line))
    {
        auto a = hu::split(line);
        if(a.size() < 8 || a[0] != "c14")
        {
            std::cout << (a.empty() ? "" : "ERR") << "\n";
            continue;
        }
        const auto n = hu::to_u64(a[7]);
        std::string out;
        switch(n)
        {
        case 0: out = run_case<0>(a); break;
        case 1: out = run_case<1>(a); break;
        case 2: out = run_case<2>(a); break;
        case 3: out = run_case<3>(a); break;
        case 4: out = run_case<4>(a); break;
        case 5: out = run_case<5>(a); break;
        case 16: out = run_case<16>(a); break;
        default: out = "ERR unsupported N"; break;
        }
        std::cout << out << "\n";
    }
    return 0;
}
