// c19_enum_harness.cpp — sbepp::visit on enum values of the generated hs_enums schema
#include <sbepp/sbepp.hpp>
#include <hs_enums/hs_enums.hpp>
#include "harness_util.hpp"

struct ev_visitor
{
    std::string out;
    template<typename E, typename Tag>
    void on_enum_value(E, Tag)
    {
        out = sbepp::enum_value_traits<Tag>::name();
    }
    template<typename E>
    void on_enum_value(E, sbepp::unknown_enum_value_tag)
    {
        out = "unknown";
    }
};

template<typename E>
std::string visit_enum(long long v)
{
    ev_visitor vis;
    sbepp::visit(static_cast<E>(static_cast<typename std::underlying_type<E>::type>(v)), vis);
    return vis.out;
}

#include "c19_enum_table.inc"

int main()
{
    std::string line;
    while(std::getline(std::cin, line))
    {
        auto a = hu::split(line);
        if(a.size() < 3 || a[0] != "enumv")
        {
            std::cout << "ERR\n";
            continue;
        }
        std::cout << dispatch_enum(a[1], hu::to_i64(a[2])) << "\n";
    }
}
