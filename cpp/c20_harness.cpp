// c20_harness.cpp — C20 second tie: /repo's fs_provider.hpp driven directly.
//
// Same line protocol as ocaml/drv_c20.ml:
//   c20plan <id> (M:<path> | W:<path>:<hex>)*
//   c20run  cur <id> <fresh|pop> <sched>
// Each run executes the plan in a fresh directory below $C20_SCRATCH exactly
// the way sbeppc's main() does (steps in order, `catch(const sbe_error&)` ->
// status 1 + diagnostic) while harness/iofault.c (LD_PRELOAD) answers the k-th
// primitive call as the schedule says.  The shim is re-armed per case through
// iofault_configure().
//
// sbepp.hpp is not involved (no assertion handler / guarded buffer needed):
// the code under test is sbeppc's fs_provider.
#include <sbepp/sbeppc/fs_provider.hpp>

#include <harness_util.hpp>

#include <dlfcn.h>

#include <algorithm>
#include <filesystem>
#include <fstream>
#include <map>
#include <regex>

namespace fs = std::filesystem;

namespace
{
struct step
{
    bool is_dir;
    std::string path;
    std::string data;
};

using configure_t = void (*)(const char*, const char*, const char*);

std::map<std::string, std::vector<step>> plans;
configure_t configure;
std::string scratch;
unsigned long counter;

std::string unhex(const std::string& h)
{
    std::string out;
    if(h == "-")
        return out;
    auto v = [](char c) { return c <= '9' ? c - '0' : (c | 32) - 'a' + 10; };
    for(std::size_t i = 0; i + 1 < h.size(); i += 2)
        out.push_back(static_cast<char>(v(h[i]) * 16 + v(h[i + 1])));
    return out;
}

std::string rel(const std::string& root, std::string p)
{
    if(!p.empty() && p.front() == '"')
        p = p.substr(1, p.size() - 2);
    if(p.compare(0, root.size() + 1, root + "/") == 0)
        return p.substr(root.size() + 1);
    return p;
}

int errno_of_message(const std::string& msg)
{
    for(int e = 1; e < 134; e++)
    {
        if(msg == std::generic_category().message(e))
            return e;
    }
    return 0;
}

std::string canon_diag(const std::string& root, const std::string& what)
{
    std::smatch m;
    static const std::regex mk{"can't create directory (.*), error: `(.*)`"};
    static const std::regex op{"can't open file: `(.*)`"};
    static const std::regex wr{"can't write file: `(.*)`"};
    if(std::regex_search(what, m, mk))
        return "mkdir:" + rel(root, m[1]) + ":" + std::to_string(errno_of_message(m[2]));
    if(std::regex_search(what, m, op))
        return "open:" + rel(root, m[1]);
    if(std::regex_search(what, m, wr))
        return "write:" + rel(root, m[1]);
    return "other";
}

// the steps of a plan as sbeppc's main() would run them
int execute(const std::vector<step>& plan, const std::string& root, std::string& diag)
{
    sbepp::sbeppc::fs_provider provider;
    try
    {
        for(const auto& s : plan)
        {
            if(s.is_dir)
                provider.create_directories(root + "/" + s.path);
            else
                provider.write_file(root + "/" + s.path, s.data);
        }
    }
    catch(const sbepp::sbeppc::sbe_error& e)
    {
        diag = canon_diag(root, e.what());
        return 1;
    }
    diag = "-";
    return 0;
}

std::string read_all(const std::string& p)
{
    std::ifstream is{p, std::ios::binary};
    return std::string{std::istreambuf_iterator<char>{is}, std::istreambuf_iterator<char>{}};
}

std::string run(const std::vector<step>& plan, const std::string& disk0, const std::string& sched)
{
    const std::string root = scratch + "/fs" + std::to_string(counter++);
    const std::string log = root + ".log";
    fs::create_directories(root);
    std::string diag;
    if(disk0 == "pop")
    {
        configure(nullptr, nullptr, nullptr);
        if(execute(plan, root, diag) != 0)
            return "ERR cannot populate: " + diag;
    }
    configure(root.c_str(), sched.c_str(), log.c_str());
    const int status = execute(plan, root, diag);
    configure(nullptr, nullptr, nullptr);

    // trace
    std::vector<std::string> trace;
    {
        std::ifstream is{log};
        std::string line;
        while(std::getline(is, line))
        {
            const auto w = hu::split(line);
            if(w.size() < 4)
                continue;
            const auto p = rel(root, w[2]);
            if(w[1] == "write" && w.size() >= 5)
                trace.push_back("W:" + p + ":" + w[3] + ":" + w[4]);
            else
            {
                const char* k = w[1] == "mkdir" ? "M" : w[1] == "open" ? "O" : w[1] == "close" ? "C"
                    : w[1] == "fsync" ? "F" : w[1] == "rename" ? "R" : "?";
                trace.push_back(std::string{k} + ":" + p + ":" + w[3]);
            }
        }
    }
    // tree
    std::vector<std::string> dirs;
    for(const auto& e : fs::recursive_directory_iterator(root))
    {
        if(e.is_directory())
            dirs.push_back(rel(root, e.path().string()));
    }
    std::sort(dirs.begin(), dirs.end());
    // files against what the plan asks for (last write to a path wins)
    std::map<std::string, std::string> want;
    std::vector<std::string> order;
    for(const auto& s : plan)
    {
        if(s.is_dir)
            continue;
        if(!want.count(s.path))
            order.push_back(s.path);
        want[s.path] = s.data;
    }
    std::string files;
    for(const auto& p : order)
    {
        std::string st;
        const auto abs = root + "/" + p;
        if(!fs::is_regular_file(abs))
            st = "absent";
        else
        {
            const auto got = read_all(abs);
            const auto& exp = want[p];
            if(got == exp)
                st = "full";
            else if(got.size() < exp.size() && exp.compare(0, got.size(), got) == 0)
                st = "part" + std::to_string(got.size());
            else
                st = "other" + std::to_string(got.size());
        }
        files += (files.empty() ? "" : ",") + p + "=" + st;
    }
    auto join = [](const std::vector<std::string>& v, const char* sep)
    {
        std::string s;
        for(const auto& x : v)
            s += (s.empty() ? "" : sep) + x;
        return s.empty() ? std::string{"-"} : s;
    };
    std::string out = "status=" + std::to_string(status) + " diag=" + diag
        + " calls=" + std::to_string(trace.size()) + " trace=" + join(trace, ";")
        + " dirs=" + join(dirs, ",") + " files=" + (files.empty() ? "-" : files);
    fs::remove_all(root);
    fs::remove(log);
    return out;
}
} // namespace

int main()
{
    configure = reinterpret_cast<configure_t>(dlsym(RTLD_DEFAULT, "iofault_configure"));
    const char* sc = std::getenv("C20_SCRATCH");
    scratch = sc ? sc : "/tmp";
    std::string line;
    while(std::getline(std::cin, line))
    {
        const auto w = hu::split(line);
        if(w.empty())
        {
            std::cout << "\n";
            continue;
        }
        if(!configure)
        {
            std::cout << "ERR iofault shim not preloaded\n";
            continue;
        }
        if(w[0] == "c20plan" && w.size() >= 2)
        {
            std::vector<step> plan;
            std::size_t nfiles = 0;
            for(std::size_t i = 2; i < w.size(); i++)
            {
                const auto& t = w[i];
                if(t.compare(0, 2, "M:") == 0)
                    plan.push_back({true, t.substr(2), ""});
                else
                {
                    const auto c = t.find(':', 2);
                    plan.push_back({false, t.substr(2, c - 2), unhex(t.substr(c + 1))});
                    nfiles++;
                }
            }
            plans[w[1]] = plan;
            std::cout << "ok steps=" << plan.size() << " files=" << nfiles << "\n";
        }
        else if(w[0] == "c20run" && w.size() == 5)
        {
            std::cout << run(plans[w[2]], w[3], w[4]) << "\n";
        }
        else
        {
            std::cout << "ERR unknown command\n";
        }
    }
}
