// c12_harness.cpp — runs the group views of the generated hs_c12 schema on
// "c12f / c12g / c12r / c12n" case lines (see ocaml/drv_c12.ml for the
// protocol).  Compiled twice: with -DSBEPP_DISABLE_ASSERTS (chk = 0, pure
// address arithmetic, entries are never dereferenced) and with
// -DSBEPP_ENABLE_ASSERTS_WITH_HANDLER (chk = 1).
//
// Every case line names the dimension composite of its group as
//     S B shape H obl ong
// (numInGroup type, blockLength type, composite shape std|ext|pad|rev, size of
// the composite, offsets of blockLength / numInGroup).  This side dispatches on
// shape/S/B only; the header BYTES (H of them) come from the case line - built
// by harness/props/c12.py with blockLength and numInGroup at the composite's
// member offsets and filler everywhere else - and are copied verbatim.  H is
// cross-checked against sbepp::composite_traits<dimension>::size_bytes().
#include <sbepp/sbepp.hpp>
#include <hs_c12/hs_c12.hpp>
#include "harness_util.hpp"

#if defined(SBEPP_DISABLE_ASSERTS)
static const int harness_chk = 0;
#else
static const int harness_chk = 1;
#endif

using M = hs_c12::schema::messages;

template<typename Tag>
using group_t = typename sbepp::group_traits<Tag>::template value_type<unsigned char>;

// offsets are reported against a virtual buffer start `base` such that the
// group view lives at base + goff (computed on integers: no out-of-bounds
// pointer is ever formed by the harness itself)
struct origin
{
    std::uintptr_t group;
    long long goff;
};

static long long rel(const unsigned char* p, const origin& o)
{
    return static_cast<long long>(
        reinterpret_cast<std::uintptr_t>(p) - o.group + static_cast<std::uintptr_t>(o.goff));
}

// a header-sized scratch area; the group view starts at bytes + 64
struct area
{
    // [margin | header (<= 64 bytes) | margin]
    alignas(16) unsigned char bytes[64 + 64 + 64];
};

static const std::size_t max_header = 64;

// the dimension composite of group Tag: its size as the library sees it, and the
// agreement of the view's types with the S / B of the case line
template<typename Tag, typename S, typename B>
struct dim_info
{
    using G = group_t<Tag>;
    using D = typename sbepp::group_traits<Tag>::template dimension_type<unsigned char>;
    static_assert(std::is_same<typename G::size_type, S>::value, "numInGroup type of the case line");
    static_assert(
        std::is_same<typename std::decay<decltype(std::declval<D>().blockLength().value())>::type, B>::value,
        "blockLength type of the case line");
    static std::size_t size()
    {
        return sbepp::composite_traits<typename sbepp::group_traits<Tag>::dimension_type_tag>::size_bytes();
    }
};

// header bytes of the case line -> g;  false: malformed line / H is not the composite's size
template<typename Tag, typename S, typename B>
static bool put_header(unsigned char* g, const std::string& h, const std::string& hex)
{
    const std::vector<unsigned char> v = hu::unhex(hex);
    if(v.size() != hu::to_u64(h) || v.size() > max_header || v.size() != dim_info<Tag, S, B>::size())
        return false;
    std::memcpy(g, v.data(), v.size()); // little-endian host == schema byte order
    return true;
}

template<typename G>
static G make_view(unsigned char* g, long long elen)
{
    // the end pointer is only compared, never dereferenced
    return G{g, reinterpret_cast<unsigned char*>(reinterpret_cast<std::uintptr_t>(g)
                 + static_cast<std::uintptr_t>(elen))};
}

template<typename It>
static std::string cmp6(const It& a, const It& c)
{
    std::string s;
    s.push_back(a == c ? '1' : '0');
    s.push_back(a != c ? '1' : '0');
    s.push_back(a < c ? '1' : '0');
    s.push_back(a <= c ? '1' : '0');
    s.push_back(a > c ? '1' : '0');
    s.push_back(a >= c ? '1' : '0');
    return s;
}

// c12f impl chk S B shape H obl ong hdr goff ng bl elen start k (op arg)*k m
template<typename Tag, typename S, typename B>
static std::string run_expr(const std::vector<std::string>& a)
{
    using G = group_t<Tag>;
    using It = typename G::iterator;
    static area ar;
    const long long goff = hu::to_i64(a[10]);
    unsigned char* g = ar.bytes + 64;
    const origin base{reinterpret_cast<std::uintptr_t>(g), goff};
    if(!put_header<Tag, S, B>(g, a[6], a[9])) return "ERR-hsize";
    const G view = make_view<G>(g, hu::to_i64(a[13]));
    const bool from_begin = a[14] == "b";
    const std::size_t k = static_cast<std::size_t>(hu::to_u64(a[15]));
    std::ostringstream os;
    const int rc = hu::guarded(
        [&]
        {
            It b = view.begin();
            It e = view.end();
            It it = from_begin ? b : e;
            for(std::size_t i = 0; i < k; i++)
            {
                const std::string& op = a[16 + 2 * i];
                const long long n = hu::to_i64(a[17 + 2 * i]);
                if(op == "inc") ++it;
                else if(op == "pinc") it++;
                else if(op == "dec") --it;
                else if(op == "pdec") it--;
                else if(op == "adde") it += n;
                else if(op == "add") it = it + n;
                else if(op == "radd") it = n + it;
                else if(op == "sube") it -= n;
                else if(op == "sub") it = it - n;
                else os << "ERR-op ";
            }
            const long long m = hu::to_i64(a[16 + 2 * k]);
            os << "p=" << rel(sbepp::addressof(*it), base)
               << " db=" << static_cast<long long>(it - b)
               << " de=" << static_cast<long long>(e - it)
               << " cb=" << cmp6(it, b) << " ce=" << cmp6(it, e)
               << " s=" << rel(sbepp::addressof(it[m]), base);
        });
    if(rc == 1) return "A";
    if(rc == 2) return "F";
    return os.str();
}

template<typename F>
static std::string field(F&& f)
{
    std::ostringstream os;
    const int rc = hu::guarded([&] { os << f(); });
    if(rc == 1) return "A";
    if(rc == 2) return "F";
    return os.str();
}

// c12g impl chk S B shape H obl ong hdr goff ng bl elen pos k
template<typename Tag, typename S, typename B>
static std::string run_group(const std::vector<std::string>& a)
{
    using G = group_t<Tag>;
    static area ar;
    const long long goff = hu::to_i64(a[10]);
    unsigned char* g = ar.bytes + 64;
    const origin base{reinterpret_cast<std::uintptr_t>(g), goff};
    if(!put_header<Tag, S, B>(g, a[6], a[9])) return "ERR-hsize";
    const G view = make_view<G>(g, hu::to_i64(a[13]));
    const unsigned long long pos = hu::to_u64(a[14]);
    const unsigned long long k = hu::to_u64(a[15]);
    std::string out;
    out += "size=" + field([&]() -> unsigned long long { return static_cast<unsigned long long>(view.size()); });
    out += " begin=" + field([&]() -> long long { return rel(sbepp::addressof(*view.begin()), base); });
    out += " end=" + field([&]() -> long long { return rel(sbepp::addressof(*view.end()), base); });
    out += " sb=" + field([&]() -> unsigned long long { return static_cast<unsigned long long>(sbepp::size_bytes(view)); });
    out += " at=" + field([&]() -> long long { return rel(sbepp::addressof(view[pos]), base); });
    out += " front=" + field([&]() -> long long { return rel(sbepp::addressof(view.front()), base); });
    out += " back=" + field([&]() -> long long { return rel(sbepp::addressof(view.back()), base); });
    out += " walk=" + field(
        [&]() -> long long
        {
            auto it = view.begin();
            for(unsigned long long i = 0; i < k; i++)
                ++it;
            return rel(sbepp::addressof(*it), base);
        });
    return out;
}

// c12r kind chk S B shape H obl ong hex p elen count
template<typename Tag, typename S, typename B>
static std::string run_resize(const std::vector<std::string>& a)
{
    using G = group_t<Tag>;
    if(hu::to_u64(a[6]) != dim_info<Tag, S, B>::size()) return "ERR-hsize";
    std::vector<unsigned char> bytes = hu::unhex(a[9]);
    const std::size_t p = static_cast<std::size_t>(hu::to_u64(a[10]));
    const long long elen = hu::to_i64(a[11]);
    const unsigned long long count = hu::to_u64(a[12]);
    hu::guarded_buffer gb(bytes.size());
    std::memcpy(gb.begin, bytes.data(), bytes.size());
    const G view = make_view<G>(gb.begin + p, elen);
    int rc = hu::guarded([&] { view.resize(count); });
    if(rc != 0)
        return std::string("resize=") + (rc == 1 ? "A" : "F") + " size=- clear=-";
    std::string out = "resize=" + hu::hex(gb.begin, gb.size);
    out += " size=" + field([&]() -> unsigned long long { return static_cast<unsigned long long>(view.size()); });
    rc = hu::guarded([&] { view.clear(); });
    out += " clear=" + (rc == 0 ? hu::hex(gb.begin, gb.size) : std::string(rc == 1 ? "A" : "F"));
    return out;
}

// c12n chk S B shape H obl ong hdr pre bl cut k (ibl icnt)*k
template<typename Tag, typename S, typename B>
static std::string run_nested(const std::vector<std::string>& a)
{
    using G = group_t<Tag>;
    const std::size_t pre = static_cast<std::size_t>(hu::to_u64(a[9]));
    const std::size_t bl = static_cast<std::size_t>(hu::to_u64(a[10]));
    const std::size_t cut = static_cast<std::size_t>(hu::to_u64(a[11]));
    const std::size_t k = static_cast<std::size_t>(hu::to_u64(a[12]));
    std::vector<unsigned char> full(pre, 0xEE);
    {
        // the dimension composite: bytes of the case line (blockLength = bl and
        // numInGroup = k at the member offsets)
        unsigned char h[max_header];
        if(!put_header<Tag, S, B>(h, a[5], a[8])) return "ERR-hsize";
        full.insert(full.end(), h, h + dim_info<Tag, S, B>::size());
    }
    for(std::size_t i = 0; i < k; i++)
    {
        const std::uint16_t ibl = static_cast<std::uint16_t>(hu::to_u64(a[13 + 2 * i]));
        const std::uint16_t icnt = static_cast<std::uint16_t>(hu::to_u64(a[14 + 2 * i]));
        full.insert(full.end(), bl, 0x11);
        unsigned char h[4];
        std::memcpy(h, &ibl, 2);
        std::memcpy(h + 2, &icnt, 2);
        full.insert(full.end(), h, h + 4);
        full.insert(full.end(), static_cast<std::size_t>(ibl) * icnt, 0x22);
    }
    full.insert(full.end(), 3, 0x33);
    const std::size_t e = full.size() - cut;
    hu::guarded_buffer gb(e);
    std::memcpy(gb.begin, full.data(), e);
    const G view{gb.begin + pre, gb.begin + e};
    std::string out = "n=" + field(
        [&]() -> unsigned long long
        {
            // end() only carries the index: count the distance by stepping a
            // default-constructed-from-begin copy is not possible, so report
            // numInGroup as seen through size() and check end() == end()
            auto en = view.end();
            (void)en;
            return static_cast<unsigned long long>(view.size());
        });
    std::ostringstream os;
    bool first = true;
    const int rc = hu::guarded(
        [&]
        {
            for(auto it = view.begin(); it != view.end(); ++it)
            {
                os << (first ? "" : ",") << rel(sbepp::addressof(*it), origin{reinterpret_cast<std::uintptr_t>(gb.begin), 0});
                first = false;
            }
        });
    out += " starts=";
    if(rc == 1) out += "A";
    else if(rc == 2) out += "F";
    else out += first ? "-" : os.str();
    return out;
}

#define DISPATCH16(FN, PREFIX, args)                                                          \
    do                                                                                        \
    {                                                                                         \
        DISPATCH_SHAPES(FN, PREFIX, args);                                                    \
        if((args)[s_idx + 2] != "std") break;                                                 \
        const std::string key = (args)[s_idx] + "/" + (args)[s_idx + 1];                      \
        if(key == "u8/u8") return FN<M::PREFIX##u8_u8::g, std::uint8_t, std::uint8_t>(args);  \
        if(key == "u8/u16") return FN<M::PREFIX##u8_u16::g, std::uint8_t, std::uint16_t>(args); \
        if(key == "u8/u32") return FN<M::PREFIX##u8_u32::g, std::uint8_t, std::uint32_t>(args); \
        if(key == "u8/u64") return FN<M::PREFIX##u8_u64::g, std::uint8_t, std::uint64_t>(args); \
        if(key == "u16/u8") return FN<M::PREFIX##u16_u8::g, std::uint16_t, std::uint8_t>(args); \
        if(key == "u16/u16") return FN<M::PREFIX##u16_u16::g, std::uint16_t, std::uint16_t>(args); \
        if(key == "u16/u32") return FN<M::PREFIX##u16_u32::g, std::uint16_t, std::uint32_t>(args); \
        if(key == "u16/u64") return FN<M::PREFIX##u16_u64::g, std::uint16_t, std::uint64_t>(args); \
        if(key == "u32/u8") return FN<M::PREFIX##u32_u8::g, std::uint32_t, std::uint8_t>(args); \
        if(key == "u32/u16") return FN<M::PREFIX##u32_u16::g, std::uint32_t, std::uint16_t>(args); \
        if(key == "u32/u32") return FN<M::PREFIX##u32_u32::g, std::uint32_t, std::uint32_t>(args); \
        if(key == "u32/u64") return FN<M::PREFIX##u32_u64::g, std::uint32_t, std::uint64_t>(args); \
        if(key == "u64/u8") return FN<M::PREFIX##u64_u8::g, std::uint64_t, std::uint8_t>(args); \
        if(key == "u64/u16") return FN<M::PREFIX##u64_u16::g, std::uint64_t, std::uint16_t>(args); \
        if(key == "u64/u32") return FN<M::PREFIX##u64_u32::g, std::uint64_t, std::uint32_t>(args); \
        if(key == "u64/u64") return FN<M::PREFIX##u64_u64::g, std::uint64_t, std::uint64_t>(args); \
    } while(0)

// the other composite shapes: ext = blockLength, numInGroup, numGroups (uint16),
// numVarDataFields (uint8); pad = blockLength at offset 0, numInGroup at offset 8;
// rev = numInGroup declared before blockLength.  key = shape/S/B
#define DISPATCH_SHAPES(FN, PREFIX, args)                                                     \
    do                                                                                        \
    {                                                                                         \
        const std::string key =                                                               \
            (args)[s_idx + 2] + "/" + (args)[s_idx] + "/" + (args)[s_idx + 1];                \
        if(key == "ext/u8/u16") return FN<M::PREFIX##ext_u8_u16::g, std::uint8_t, std::uint16_t>(args);   \
        if(key == "ext/u16/u16") return FN<M::PREFIX##ext_u16_u16::g, std::uint16_t, std::uint16_t>(args); \
        if(key == "ext/u32/u32") return FN<M::PREFIX##ext_u32_u32::g, std::uint32_t, std::uint32_t>(args); \
        if(key == "ext/u16/u8") return FN<M::PREFIX##ext_u16_u8::g, std::uint16_t, std::uint8_t>(args);   \
        if(key == "pad/u8/u32") return FN<M::PREFIX##pad_u8_u32::g, std::uint8_t, std::uint32_t>(args);   \
        if(key == "pad/u64/u16") return FN<M::PREFIX##pad_u64_u16::g, std::uint64_t, std::uint16_t>(args); \
        if(key == "rev/u16/u32") return FN<M::PREFIX##rev_u16_u32::g, std::uint16_t, std::uint32_t>(args); \
        if(key == "rev/u32/u8") return FN<M::PREFIX##rev_u32_u8::g, std::uint32_t, std::uint8_t>(args);   \
    } while(0)

#define DISPATCH_NESTED(FN, args)                                                             \
    do                                                                                        \
    {                                                                                         \
        DISPATCH_SHAPES(FN, n_, args);                                                        \
        if((args)[s_idx + 2] != "std") break;                                                 \
        const std::string key = (args)[s_idx] + "/" + (args)[s_idx + 1];                      \
        if(key == "u8/u8") return FN<M::n_u8_u8::g, std::uint8_t, std::uint8_t>(args);        \
        if(key == "u16/u16") return FN<M::n_u16_u16::g, std::uint16_t, std::uint16_t>(args);  \
        if(key == "u32/u32") return FN<M::n_u32_u32::g, std::uint32_t, std::uint32_t>(args);  \
        if(key == "u64/u64") return FN<M::n_u64_u64::g, std::uint64_t, std::uint64_t>(args);  \
        if(key == "u8/u32") return FN<M::n_u8_u32::g, std::uint8_t, std::uint32_t>(args);     \
        if(key == "u32/u8") return FN<M::n_u32_u8::g, std::uint32_t, std::uint8_t>(args);     \
    } while(0)

static std::string do_expr(const std::vector<std::string>& a)
{
    const std::size_t s_idx = 3;
    DISPATCH16(run_expr, f_, a);
    return "ERR-pair";
}

static std::string do_group(const std::vector<std::string>& a)
{
    const std::size_t s_idx = 3;
    DISPATCH16(run_group, f_, a);
    return "ERR-pair";
}

static std::string do_resize(const std::vector<std::string>& a)
{
    const std::size_t s_idx = 3;
    if(a[1] == "f")
    {
        DISPATCH16(run_resize, f_, a);
    }
    else
    {
        DISPATCH_NESTED(run_resize, a);
    }
    return "ERR-pair";
}

static std::string do_nested(const std::vector<std::string>& a)
{
    const std::size_t s_idx = 2;
    DISPATCH_NESTED(run_nested, a);
    return "ERR-pair";
}

int main()
{
    hu::install_signal_handlers();
    std::string line;
    while(std::getline(std::cin, line))
    {
        auto a = hu::split(line);
        if(a.empty())
        {
            std::cout << "\n";
            continue;
        }
        const std::string& cmd = a[0];
        std::string out = "ERR";
        if(cmd == "c12f" && a.size() >= 17 && a.size() == 17 + 2 * hu::to_u64(a[15]))
        {
            out = (hu::to_i64(a[2]) == harness_chk) ? do_expr(a) : "ERR-chk";
        }
        else if(cmd == "c12g" && a.size() == 16)
        {
            out = (hu::to_i64(a[2]) == harness_chk) ? do_group(a) : "ERR-chk";
        }
        else if(cmd == "c12r" && a.size() == 13)
        {
            out = (hu::to_i64(a[2]) == harness_chk) ? do_resize(a) : "ERR-chk";
        }
        else if(cmd == "c12n" && a.size() >= 13 && a.size() == 13 + 2 * hu::to_u64(a[12]))
        {
            out = (hu::to_i64(a[1]) == harness_chk) ? do_nested(a) : "ERR-chk";
        }
        std::cout << out << "\n";
    }
    return 0;
}
