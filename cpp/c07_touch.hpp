// c07_touch.hpp — helpers for the generated "touch everything" translation
// units of C07 (harness/touchgen.py): a sink and a visitor that walks every
// visit()/visit_children() entry point recursively.  C++11.
#pragma once
#include <sbepp/sbepp.hpp>
#include <cstddef>
#include <type_traits>

namespace c07
{
template<typename T>
inline void use(const T&)
{
}

struct deep_visitor
{
    std::size_t events = 0;

    template<typename T, typename Cursor, typename Tag>
    void on_message(T m, Cursor& c, Tag)
    {
        events++;
        sbepp::visit(sbepp::get_header(m), *this);
        sbepp::visit_children(m, c, *this);
    }

    template<typename T, typename Cursor, typename Tag>
    bool on_group(T g, Cursor& c, Tag)
    {
        events++;
        sbepp::visit_children(g, c, *this);
        return false;
    }

    template<typename T, typename Cursor>
    bool on_entry(T e, Cursor& c)
    {
        events++;
        sbepp::visit_children(e, c, *this);
        return false;
    }

    template<typename T, typename Tag>
    bool on_data(T d, Tag)
    {
        events += d.size();
        return false;
    }

    template<typename T, typename Tag>
    bool on_field(T f, Tag)
    {
        events++;
        nested(f, typename sbepp::is_composite<T>::type{}, typename sbepp::is_enum<T>::type{},
               typename sbepp::is_set<T>::type{});
        return false;
    }

    template<typename T, typename Tag>
    bool on_type(T, Tag)
    {
        events++;
        return false;
    }

    template<typename T, typename Tag>
    bool on_enum(T e, Tag)
    {
        events++;
        sbepp::visit(e, *this);
        return false;
    }

    template<typename T, typename Tag>
    bool on_set(T s, Tag)
    {
        events++;
        sbepp::visit(s, *this);
        return false;
    }

    template<typename T, typename Tag>
    bool on_composite(T c, Tag)
    {
        events++;
        sbepp::visit_children(c, *this);
        return false;
    }

    template<typename T, typename Tag>
    void on_enum_value(T, Tag)
    {
        events++;
    }

    template<typename Tag>
    void on_set_choice(bool, Tag)
    {
        events++;
    }

private:
    template<typename T>
    void nested(T c, std::true_type, std::false_type, std::false_type)
    {
        sbepp::visit(c, *this);
    }
    template<typename T>
    void nested(T e, std::false_type, std::true_type, std::false_type)
    {
        sbepp::visit(e, *this);
    }
    template<typename T>
    void nested(T s, std::false_type, std::false_type, std::true_type)
    {
        sbepp::visit(s, *this);
    }
    template<typename T>
    void nested(T, std::false_type, std::false_type, std::false_type)
    {
    }
};

struct set_string_visitor
{
    std::size_t n = 0;
    void operator()(bool, const char*)
    {
        n++;
    }
};
} // namespace c07
